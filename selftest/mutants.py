#!/usr/bin/env python3
"""Sensitivity self-test: apply each mutant to a scratch copy of the tree and require the check to fire.

    python3 selftest/mutants.py [--only C20] [--id C20-a] [--suite] [--tier quick] [--jobs 8]

Mutants are textual replacements (file, old, new) that keep the tree importable.  The scratch copy lives
under $TMPDIR (outside /repo and /verif) and is removed after each mutant; evidence/replays of mutant runs go
to the scratch directory too, so nothing under /verif/evidence is touched.
`--suite` additionally runs the repository's own test suite on the mutant (it should still pass).
"""
import argparse, json, os, shutil, subprocess, sys, tempfile
from concurrent.futures import ThreadPoolExecutor
from pathlib import Path

ROOT = Path(__file__).resolve().parent.parent
REPO = Path(os.environ.get("VERIF_REPO", "/repo"))
MUTANTS = []
for f in sorted((ROOT / "selftest" / "mutants").glob("*.py")):
    ns = {}
    exec(f.read_text(), ns)
    MUTANTS.extend(ns["MUTANTS"])


def run_one(m, tier, suite):
    tmp = Path(tempfile.mkdtemp(prefix="vf-mut-"))
    try:
        shutil.copytree(REPO / "odc", tmp / "odc")
        for (file, old, new) in m["edits"]:
            p = tmp / file
            s = p.read_text()
            if s.count(old) != 1:
                return m["id"], "BROKEN-MUTANT", f"{file}: pattern occurs {s.count(old)}x"
            p.write_text(s.replace(old, new))
        env = dict(os.environ, VERIF_REPO=str(tmp), VERIF_EVIDENCE_DIR=str(tmp / "ev"), VERIF_REPLAY_DIR=str(tmp / "rp"))
        suite_res = ""
        if suite:
            shutil.copytree(REPO / "tests", tmp / "tests")
            for extra in ("setup.cfg", "pyproject.toml"):
                if (REPO / extra).exists():
                    shutil.copy(REPO / extra, tmp / extra)
            p = subprocess.run(["/venv/bin/python", "-m", "pytest", "-q", "-p", "no:cacheprovider", "-x", "--timeout=900", "tests"],
                               cwd=tmp, env=dict(env, PYTHONPATH=str(tmp)), capture_output=True, text=True)
            suite_res = " suite:" + p.stdout.strip().splitlines()[-1][:80]
        outs = []
        for pid in m["props"]:
            p = subprocess.run([str(ROOT / "check"), pid, "--tier", m.get("tier", tier)], env=env, capture_output=True, text=True, timeout=3600)
            fired = p.returncode == 1 and "VIOLATION property=" + pid in p.stdout
            keys = [l for l in p.stdout.splitlines() if " FAIL at " in l][:1]
            outs.append((pid, p.returncode, fired, keys[0][:160] if keys else p.stdout.strip().splitlines()[-1][:160] if p.stdout.strip() else p.stderr[-200:]))
        ok = any(o[2] for o in outs)
        if m.get("expect") == "equivalent":
            return m["id"], "CAUGHT" if not ok else "FALSE-ALARM?", "equivalent mutant, must stay quiet: " + "; ".join(f"{o[0]} exit={o[1]}" for o in outs)
        return m["id"], "CAUGHT" if ok else "MISSED", "; ".join(f"{o[0]} exit={o[1]} {o[3]}" for o in outs) + suite_res
    finally:
        shutil.rmtree(tmp, ignore_errors=True)


def main():
    ap = argparse.ArgumentParser()
    ap.add_argument("--only"); ap.add_argument("--id"); ap.add_argument("--suite", action="store_true")
    ap.add_argument("--tier", default="quick"); ap.add_argument("--jobs", type=int, default=8)
    a = ap.parse_args()
    ms = [m for m in MUTANTS if (not a.only or a.only in m["props"]) and (not a.id or m["id"] == a.id)]
    missed = 0
    with ThreadPoolExecutor(a.jobs) as ex:
        for mid, status, detail in ex.map(lambda m: run_one(m, a.tier, a.suite), ms):
            print(f"{mid:14s} {status:14s} {detail}", flush=True)
            missed += status != "CAUGHT"
    print(f"{len(ms) - missed}/{len(ms)} mutants caught")
    return 1 if missed else 0


if __name__ == "__main__":
    sys.exit(main())
