#!/bin/bash
# setup_cmd: nothing to build (pure Python harness, no third-party installs); sanity-check the interpreter.
HERE="$(cd "$(dirname "$0")" && pwd)"
cd "$HERE" || exit 1
mkdir -p evidence replays .work
REPO="${VERIF_REPO:-/repo}"
PYTHONPATH="$REPO:$HERE" PYTHONDONTWRITEBYTECODE=1 /venv/bin/python - <<'PY'
import sys, importlib
import odc.geo, numpy, shapely, pyproj, rasterio, tifffile, dask, distributed, xarray
import vf.kernel, vf.attach
print("setup ok: python", sys.version.split()[0], "odc.geo from", odc.geo.__file__)
PY
