#!/usr/bin/env python3
"""Regenerates /verif/MANIFEST.json from the table below and validates it against the schema.

Run with any python that has `jsonschema` (python3-vt) or without validation (plain python3).
Only properties whose module exists in vf/props and is listed in CLAIMED are claimed; the rest go
to not_applicable with the reason given here.
"""
import json
import sys
from pathlib import Path

ROOT = Path(__file__).resolve().parent.parent

BASELINE_OFF = ("cd /repo && env -u ODC_GEO_VERIF /venv/bin/python -m pytest -ra -q -p no:cacheprovider --timeout=900 "
                "--continue-on-collection-errors")

# pid -> (technique, level text, level note, design ref)
CLAIMED = {}


def claim(pid, technique, text, note, ref):
    CLAIMED[pid] = (technique, text, note, ref)


NOT_YET = {}

exec((ROOT / "tools" / "claims.py").read_text())

props = [json.loads(l) for l in (ROOT / "properties.jsonl").read_text().splitlines() if l.strip()]
checks, na = [], []
for p in props:
    pid = p["id"]
    if pid in CLAIMED and (ROOT / "vf" / "props" / f"{pid.lower()}.py").exists():
        tech, text, note, ref = CLAIMED[pid]
        checks.append({
            "property_id": pid,
            "quick_cmd": f"./check {pid} --tier quick",
            "thorough_cmd": f"./check {pid} --tier thorough",
            "evidence_file": f"/verif/evidence/{pid}.json",
            "replay_cmd_template": f"./check {pid} --replay {{path}}",
            "engine": "vf",
            "level_claimed": {"category": "exploration", "text": text, "design_ref": ref},
            "level_note": note,
            "technique": tech,
        })
    else:
        na.append({"property_id": pid, "reason": NOT_YET.get(pid, "monitor not built yet in this session; see DESIGN.md section 5 for the planned runtime monitor")})

man = {
    "version": 1,
    "setup_cmd": "./setup.sh",
    "hooks": {
        "guard": "ODC_GEO_VERIF",
        "enable": "no source hooks: ./check sets ODC_GEO_VERIF=1 and the harness (vf/attach.py) rebinds the real functions with monitors at import time; /repo is read through PYTHONPATH",
        "baseline_off_cmd": BASELINE_OFF,
        "source_commits": [],
        "add_only": True,
    },
    "engines": [{
        "name": "vf", "path": "/verif/vf", "serves_properties": [c["property_id"] for c in checks],
        "kind_free_text": "runtime monitoring: post-condition / reference-model / history monitors attached to the real odc-geo code, driven by seeded stratified workloads, random dask orders and a deterministic thread-schedule controller",
    }],
    "checks": checks,
    "notes": "Exit codes: 0 held, 1 violated (VIOLATION line), 2 inconclusive (deciding monitor not reached / shard crashed). Known findings: /verif/known_findings.json.",
    "not_applicable": na,
}
out = ROOT / "MANIFEST.json"
out.write_text(json.dumps(man, indent=1) + "\n")
try:
    import jsonschema

    jsonschema.validate(man, json.loads(Path("/root/.vp/MANIFEST.schema.json").read_text()))
    print("MANIFEST.json valid;", len(checks), "checks,", len(na), "not_applicable")
except ImportError:
    print("MANIFEST.json written (jsonschema not available, not validated);", len(checks), "checks")
