#!/usr/bin/env python3
"""Prepare a round of sub-agent tasks: one scratch worktree of /repo HEAD per property under /tmp and one prompt file naming what was already tried.
    python3 tools/mkagents.py <round-tag> C01 C02 ...      ->  /tmp/<tag>-Cnn (worktree), /tmp/<tag>-Cnn.prompt.txt
Sub-agents get only the property text (from properties.jsonl) and the summaries of earlier changes - nothing else from /verif."""
import json, subprocess, sys
from pathlib import Path
ROOT = Path(__file__).resolve().parent.parent
tag, pids = sys.argv[1], sys.argv[2:]
props = {json.loads(l)["id"]: json.loads(l) for l in open(ROOT / "properties.jsonl")}
tmpl = (ROOT / "tools" / "agent_prompt.txt").read_text()
for pid in pids:
    wt = f"/tmp/{tag}-{pid}"
    r = subprocess.run(["git", "-C", "/repo", "worktree", "add", "--detach", wt, "HEAD"], capture_output=True, text=True)
    assert r.returncode == 0, r.stderr
    earlier = []
    for d in sorted((ROOT / "seeded").glob(f"*/meta.json")):
        m = json.loads(d.read_text())
        if m.get("property") == pid or pid in (m.get("checks_run") or {}):
            earlier.append(f"   - [{', '.join(m.get('files', []))}] " + (m.get("summary") or "").replace("\n", " ")[:420])
    p = props[pid]
    text = (f"PROPERTY {pid}: {p['title']}\n\nSTATEMENT: {p['statement']}\n\nQUANTIFIER ({', '.join(p['quantifier']['over'])}): {p['quantifier']['text']}\n\n"
            f"CODE ANCHORS (files): {', '.join(p['anchors']['files'])}\n")
    out = tmpl.replace("WT", wt).replace("PID", pid).replace("EARLIER", "\n".join(earlier) or "   (none)") + text
    Path(f"{wt}.prompt.txt").write_text(out)
    print(pid, wt, len(earlier), "earlier")
