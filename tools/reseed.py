#!/usr/bin/env python3
"""Regression run over the kept sub-agent changes: every seeded/<id>/patch.diff is applied to a scratch git worktree of /repo HEAD
(under /tmp, removed afterwards; /repo itself is never touched), the owning property's check is run against it and must report a
VIOLATION; the worktree is restored (git checkout -- .) between changes.

    python3 tools/reseed.py [--only C05-2 ...] [--tier quick] [--jobs 6] [--seeds 0] [--write]

--write regenerates seeded/README.md from the meta.json files and this run's outcomes.
"""
import argparse, json, os, shutil, subprocess, sys, tempfile
from concurrent.futures import ThreadPoolExecutor
from pathlib import Path
from queue import Queue

ROOT = Path(__file__).resolve().parent.parent
ap = argparse.ArgumentParser()
ap.add_argument("--only", nargs="*"); ap.add_argument("--tier", default="quick"); ap.add_argument("--jobs", type=int, default=5); ap.add_argument("--seeds", nargs="*", type=int, default=[0]); ap.add_argument("--write", action="store_true")
a = ap.parse_args()
ids = sorted(p.name for p in (ROOT / "seeded").iterdir() if (p / "patch.diff").exists())
if a.only:
    ids = [i for i in ids if i in a.only]


def sh(cmd, **kw):
    return subprocess.run(cmd, capture_output=True, text=True, **kw)


base = Path(tempfile.mkdtemp(prefix="vf-reseed-"))
pool = Queue()
wts = []
for k in range(min(a.jobs, len(ids))):
    wt = base / f"wt{k}"
    r = sh(["git", "-C", "/repo", "worktree", "add", "--detach", str(wt), "HEAD"])
    assert r.returncode == 0, r.stderr
    wts.append(wt); pool.put(wt)


def one(sid):
    meta = json.loads((ROOT / "seeded" / sid / "meta.json").read_text())
    pid = meta["property"]
    wt = pool.get()
    try:
        r = sh(["git", "-C", str(wt), "apply", str(ROOT / "seeded" / sid / "patch.diff")])
        if r.returncode != 0:
            return sid, pid, None, "patch does not apply: " + r.stderr[-200:]
        outs = []
        for seed in a.seeds:
            env = dict(os.environ, VERIF_REPO=str(wt), VERIF_SEED=str(seed), VERIF_EVIDENCE_DIR=str(base / f"ev-{sid}"), VERIF_REPLAY_DIR=str(base / f"rp-{sid}"), VERIF_JOBS="4")
            c = sh([str(ROOT / "check"), pid, "--tier", a.tier], env=env, timeout=7200)
            caught = c.returncode == 1 and f"VIOLATION property={pid}" in c.stdout
            first = next((l for l in c.stdout.splitlines() if " FAIL at " in l), "")
            outs.append((seed, c.returncode, caught, first[:160]))
        return sid, pid, outs, None
    finally:
        sh(["git", "-C", str(wt), "checkout", "--", "."])
        sh(["git", "-C", str(wt), "clean", "-fdq"])
        pool.put(wt)


bad = 0
rows = []
try:
    with ThreadPoolExecutor(max_workers=len(wts)) as ex:
        for sid, pid, outs, err in ex.map(one, ids):
            if err:
                print(f"{sid}: {err}"); bad += 1; continue
            allc = all(o[2] for o in outs)
            bad += not allc
            print(f"{sid}: " + " ".join(f"seed{o[0]}={'CAUGHT' if o[2] else 'MISSED(exit %d)' % o[1]}" for o in outs) + "  " + outs[0][3][:120], flush=True)
            rows.append((sid, pid, outs))
finally:
    for wt in wts:
        sh(["git", "-C", "/repo", "worktree", "remove", "--force", str(wt)])
    sh(["git", "-C", "/repo", "worktree", "prune"])
    shutil.rmtree(base, ignore_errors=True)

if a.write:
    notes = json.loads((ROOT / "seeded" / "notes.json").read_text()) if (ROOT / "seeded" / "notes.json").exists() else {}
    L = ["# Breaking changes written by sub-agents (kept after confirmation)", "",
         "Each directory holds `patch.diff` (against /repo HEAD at the time), `demo.py` (exits 1 with the change, 0 without) and `meta.json`",
         "(property, what the change needs to manifest, what was run to confirm it).  None of them is ever committed to /repo.",
         "`python3 tools/reseed.py --write` re-applies every patch to a scratch worktree, re-runs the owning check and regenerates this table.", "",
         f"Last regeneration: tier={a.tier}, VERIF_SEED in {a.seeds}.", "",
         "| id | property | change (summary) | needs | caught by | first report | history |", "|---|---|---|---|---|---|---|"]
    for sid, pid, outs in sorted(rows):
        m = json.loads((ROOT / "seeded" / sid / "meta.json").read_text())
        first = outs[0][3]
        point = first.split(" FAIL at ")[1].split(":")[0] if " FAIL at " in first else "-"
        L.append("| {} | {} | {} | {} | {} | `{}` | {} |".format(sid, pid, (m.get("summary") or "").replace("|", "/").replace("\n", " ")[:260], (m.get("needs") or "").replace("|", "/").replace("\n", " ")[:220],
                 f"./check {pid} --tier {a.tier}: " + ("yes" if all(o[2] for o in outs) else "NO " + str([(o[0], o[1]) for o in outs if not o[2]])), point, notes.get(sid, "caught as first written")))
    (ROOT / "seeded" / "README.md").write_text("\n".join(L) + "\n")
print(f"{len(ids) - bad}/{len(ids)} caught")
sys.exit(1 if bad else 0)
