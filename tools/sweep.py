#!/usr/bin/env python3
"""Silence sweep: run claimed checks over several seeds from fresh processes; report anything but exit 0.

    python3 tools/sweep.py [--tier quick] [--seeds 0 1 2 3] [--only C01 C07] [--jobs 8]
Evidence/replays of sweep runs go to a scratch directory so /verif/evidence keeps the registered run.
"""
import argparse, json, os, subprocess, sys, tempfile, shutil
from concurrent.futures import ThreadPoolExecutor
from pathlib import Path
ROOT = Path(__file__).resolve().parent.parent
ap = argparse.ArgumentParser()
ap.add_argument("--tier", default="quick"); ap.add_argument("--seeds", nargs="*", type=int, default=[0, 1, 2, 3]); ap.add_argument("--only", nargs="*"); ap.add_argument("--jobs", type=int, default=8)
a = ap.parse_args()
man = json.load(open(ROOT / "MANIFEST.json"))
pids = [c["property_id"] for c in man["checks"] if not a.only or c["property_id"] in a.only]
tmp = Path(tempfile.mkdtemp(prefix="vf-sweep-"))
def one(job):
    pid, seed = job
    env = dict(os.environ, VERIF_SEED=str(seed), VERIF_EVIDENCE_DIR=str(tmp / f"ev{seed}"), VERIF_REPLAY_DIR=str(tmp / f"rp{seed}"), VERIF_JOBS="4")
    p = subprocess.run([str(ROOT / "check"), pid, "--tier", a.tier], env=env, capture_output=True, text=True)
    tail = [l for l in p.stdout.splitlines() if l.startswith(("VIOLATION", "INCONCLUSIVE")) or " FAIL at " in l][:3]
    wall = [l for l in p.stdout.splitlines() if "wall=" in l][:1]
    return pid, seed, p.returncode, (wall[0].split("wall=")[1] if wall else "?"), tail or ([p.stderr[-300:]] if p.returncode else [])
bad = 0
with ThreadPoolExecutor(a.jobs) as ex:
    for pid, seed, rc, wall, tail in ex.map(one, [(p, s) for p in pids for s in a.seeds]):
        if rc != 0:
            bad += 1
            print(f"{pid} seed={seed} exit={rc} wall={wall}")
            for t in tail: print("    ", t[:400])
        else:
            print(f"{pid} seed={seed} ok wall={wall}")
shutil.rmtree(tmp, ignore_errors=True)
print("non-zero exits:", bad)
sys.exit(1 if bad else 0)
