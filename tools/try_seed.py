#!/usr/bin/env python3
"""Confirm and evaluate a breaking change written by a sub-agent in a scratch worktree.

    python3 tools/try_seed.py /tmp/seed-C04 [--id C04-1] [--props C04 C13] [--thorough]

Steps (all against the scratch worktree, /repo is never touched):
  1. demo.py exits 1 with the change applied, 0 with the change stashed;
  2. the repository's pinned suite (BASELINE.json stable_pass) still passes with the change;
  3. the named checks are run with VERIF_REPO=<worktree> (evidence/replays redirected to a scratch dir);
  4. patch.diff, demo.py and meta.json (augmented with what was run and observed) are stored under /verif/seeded/<id>/.
"""
import argparse, json, os, shutil, subprocess, sys, tempfile
from pathlib import Path

ROOT = Path(__file__).resolve().parent.parent
ap = argparse.ArgumentParser()
ap.add_argument("wt"); ap.add_argument("--id"); ap.add_argument("--props", nargs="*"); ap.add_argument("--thorough", action="store_true"); ap.add_argument("--keep-anyway", action="store_true")
a = ap.parse_args()
wt = Path(a.wt)
meta = json.loads((wt / "meta.json").read_text()) if (wt / "meta.json").exists() else {}
pid = meta.get("property") or wt.name.split("-")[1]
sid = a.id or f"{pid}-1"
props = a.props or [pid]
env = dict(os.environ, PYTHONPATH=str(wt), PYTHONDONTWRITEBYTECODE="1")


def sh(cmd, **kw):
    return subprocess.run(cmd, capture_output=True, text=True, **kw)


def demo():
    p = sh(["/venv/bin/python", str(wt / "demo.py")], env=env, cwd=str(wt), timeout=1800)
    return p.returncode, (p.stdout + p.stderr).strip().splitlines()[-3:]


diff = sh(["git", "-C", str(wt), "diff", "--", "odc"]).stdout
if not diff.strip():
    print("no change applied in", wt); sys.exit(2)
rc_with, tail_with = demo()
# not `git stash`: refs/stash is shared by all worktrees of /repo, concurrent sub-agents would swap patches
pf = Path(tempfile.mkdtemp(prefix="vf-seedpatch-")) / "change.diff"
pf.write_text(diff)
r = sh(["git", "-C", str(wt), "apply", "-R", str(pf)])
assert r.returncode == 0, r.stderr
try:
    assert not sh(["git", "-C", str(wt), "diff", "--", "odc"]).stdout.strip()
    rc_without, tail_without = demo()
finally:
    r = sh(["git", "-C", str(wt), "apply", str(pf)])
    assert r.returncode == 0, r.stderr
    shutil.rmtree(pf.parent, ignore_errors=True)
assert sh(["git", "-C", str(wt), "diff", "--", "odc"]).stdout == diff, "re-applying the change did not restore it"
print(f"[{sid}] demo with change exit={rc_with}; without change exit={rc_without}")
b = sh([sys.executable, str(ROOT / "tools" / "baseline_check.py"), str(wt)])
suite_ok = b.returncode == 0
print(f"[{sid}] suite: {b.stdout.strip().splitlines()[0] if b.stdout.strip() else b.stderr[-200:]}")
confirmed = rc_with != 0 and rc_without == 0 and suite_ok
results = {}
tmp = Path(tempfile.mkdtemp(prefix="vf-seed-"))
try:
    for tier in (["quick", "thorough"] if a.thorough else ["quick"]):
        for p_ in props:
            if results.get(p_, {}).get("caught"):
                continue
            e2 = dict(os.environ, VERIF_REPO=str(wt), VERIF_EVIDENCE_DIR=str(tmp / "ev"), VERIF_REPLAY_DIR=str(tmp / "rp"))
            r = sh([str(ROOT / "check"), p_, "--tier", tier], env=e2, timeout=7200)
            caught = r.returncode == 1 and f"VIOLATION property={p_}" in r.stdout
            fails = [l[:300] for l in r.stdout.splitlines() if " FAIL at " in l][:2]
            results[p_] = {"tier": tier, "exit": r.returncode, "caught": caught, "first_failures": fails}
            print(f"[{sid}] check {p_} --tier {tier}: exit={r.returncode} {'CAUGHT' if caught else 'MISSED'} {fails[0][:200] if fails else ''}")
finally:
    shutil.rmtree(tmp, ignore_errors=True)
if confirmed or a.keep_anyway:
    out = ROOT / "seeded" / sid
    out.mkdir(parents=True, exist_ok=True)
    (out / "patch.diff").write_text(diff)
    shutil.copy(wt / "demo.py", out / "demo.py")
    meta.update({"id": sid, "property": pid, "confirmed": {"demo_with_change_exit": rc_with, "demo_without_change_exit": rc_without, "baseline_stable_pass_still_passing": suite_ok,
                 "how": "scratch git worktree of /repo HEAD under /tmp; demo run with and without the change (git apply -R / git apply of the recorded diff); tools/baseline_check.py against the worktree"},
                 "checks_run": {k: v for k, v in results.items()}, "checks_how": "./check <id> --tier <tier> with VERIF_REPO=<scratch worktree with the change applied>; evidence redirected to a scratch directory"})
    (out / "meta.json").write_text(json.dumps(meta, indent=1))
    print(f"[{sid}] kept under {out}")
else:
    print(f"[{sid}] NOT confirmed (demo/suite), not kept")
