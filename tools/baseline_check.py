#!/usr/bin/env python3
"""Runs the repository's pinned suite (guard OFF) and compares with /root/.vp/BASELINE.json stable_pass."""
import json, os, subprocess, sys, tempfile, xml.etree.ElementTree as ET
repo = sys.argv[1] if len(sys.argv) > 1 else "/repo"
base = json.load(open("/root/.vp/BASELINE.json"))
fd, xmlf = tempfile.mkstemp(suffix=".xml"); os.close(fd)
env = {k: v for k, v in os.environ.items() if k != "ODC_GEO_VERIF"}
env["PYTHONPATH"] = repo
subprocess.run(["/venv/bin/python", "-m", "pytest", "-q", "-p", "no:cacheprovider", "--timeout=900", "--continue-on-collection-errors",
                f"--junitxml={xmlf}"], cwd=repo, env=env, capture_output=True)
passed = set()
for tc in ET.parse(xmlf).getroot().iter("testcase"):
    if not any(ch.tag in ("failure", "error", "skipped") for ch in tc):
        passed.add(f"{tc.get('classname')}::{tc.get('name')}")
os.unlink(xmlf)
missing = [t for t in base["stable_pass"] if t not in passed]
print(f"stable_pass={len(base['stable_pass'])} passed_now={len(passed)} missing={len(missing)}")
for m in missing[:20]:
    print("  NOT PASSING:", m)
sys.exit(1 if missing else 0)
