# Table of claimed checks (exec'd by mkmanifest.py).  claim(pid, technique, level text, level note, design ref)

_TB = ("Trusted base: CPython/numpy arithmetic and the independent oracle named in the technique; sampling, not proof - "
       "'held' means held on the executions listed in the evidence file.")

claim("C20", "post-condition monitors attached to odc.geo.math (all aliases rebound), boundary-stratified seeded workload + indirect calls",
      "Every call of the public numeric helpers made during the run (direct boundary-stratified inputs and calls made from inside "
      "GeoBox/GridSpec/GCP code) is judged against the documented contract restated as a predicate (Poly2d input transforms also in chains of two and three non-commuting steps; Bin1D edges of whole-number grids exactly, without allowance); ~7e5 evaluations quick, ~4e7 thorough. "
      "Exploration is the right level: the functions are pure, the input space is floats, and the contracts are cheap to evaluate per call.",
      _TB + " Inputs within 4 ulp of a tolerance boundary are not judged.", "DESIGN.md 5/C20")

claim("C17", "post-condition monitors on every ROI helper with numpy indexing as reference model; exhaustive small-domain enumeration + seeded N-D tuples and point envelopes; numeric-UB (RuntimeWarning) monitor",
      "Each helper call is compared with what numpy selects from arange(n): exhaustive for n<=6 (quick) / n<=9 (thorough) over all open/negative/out-of-range slices, "
      "all pairs of slices for the intersections, pads and scales; point envelopes are judged against an unbounded-integer model and stated predicates "
      "(inside image, contains in-image points, padding, alignment, non-finite ignored) with outliers up to 1e300; slice bounds and image shapes also as numpy integers, point arrays in other memory layouts / read-only / single precision / small signed and unsigned integer types / empty; padding and alignment also as narrow numpy scalars.",
      _TB + " Stepped slices are outside the statement and only counted.", "DESIGN.md 5/C17")

claim("C04", "reference-model monitor: counting-array brute force over real Tiles/VariableSizedTiles/GeoboxTiles objects (incl. instances created inside library code, recorded by an __init__ hook) and plain-numpy mosaics for BlockAssembler",
      "GeoboxTiles from regular runs and chunk tuples with zero-length chunks; 1-D exhaustive regular tilings (N<=24 quick / <=120 thorough, every tile size up to N+10) and all compositions of totals <=6/9 as variable tilings, each "
      "checked pixel by pixel (painted exactly once, locate inverse of region lookup, chunks, crop/clip re-basing); GeoboxTiles tiles compared with independently "
      "computed crops of the parent, crop ranges written in every equivalent way (':', 'a:', ':b', from the end, bare integers; all rows x some columns and vice versa); ~2e3/3e4 seeded block mosaics (subsets of blocks x windows x dtypes x fill x axis) compared with numpy assignment.",
      _TB + " GeoBoxes reached through two different translation chains are compared to 1e-6 px, not bit for bit.", "DESIGN.md 5/C04")

claim("C16", "reference-model monitor: integer-lattice rectangles vs the real GeoBox |, &, overlap_roi, enclosing, snap_to and bounding-box lattice laws",
      "Families of 2-4 real GeoBoxes on a common grid (7 affine families, every relative placement incl. disjoint left/above and touching) are combined with the real "
      "operators; results are mapped back to integer rectangles with plain numpy matrices and compared with min/max rectangle algebra; overlap_roi is applied to a boolean "
      "image; incompatible grids (>=1e-3 px / scale / 0.1 deg, also when the boxes are up to 200000 px apart, and whether or not the operands were looked at before) must raise; regions for enclosing also as smooth outlines with hundreds of vertices; bounding-box laws are checked with exact float equality.",
      _TB + " Regions in another CRS are projected with the oracle's own pyproj transformer.", "DESIGN.md 5/C16")

claim("C08", "post-condition monitors on GeoBox.from_bbox / from_geopolygon / zoom_to(resolution=) evaluated on every call (direct stratified workload + calls from compute_output_geobox)",
      "Arithmetic on the returned GeoBox only: requested pixel size and sign, per-side coverage up to tol, excess < 1 px + tol, anchor alignment unless floating/tight, "
      "exact shape and < 1 px displacement for shape requests; single-number shapes judged at from_geopolygon too (also across CRSs); ~3e4 (quick) / 2e6 (thorough) judged calls over resolution signs x anchors (incl. XY fractions) x tight x tol x magnitudes 1e-3..1e9 px "
      "with start coordinates placed on either side of every tolerance boundary.",
      _TB + " Round-off allowance 1e-9 px + 1e-14 x pixel index (a few ulps).", "DESIGN.md 5/C08")

claim("C14", "reference-model monitor: analytic grid model vs real GridSpec on an index window, plus self-consistency (pairwise disjointness, shared edges), seeded point/bbox/polygon queries and slippy-map formula",
      "Each seeded grid specification (4 flip combinations x resolution signs x origins up to 1e6 x tile shapes 1..4000) is examined on [-4,4]^2 + far indices: footprints vs model, "
      "interior-disjoint, neighbours share edges, 40 points per grid incl. edges/corners, bbox queries (random, exactly tile-aligned with edge contacts excluded, aligned +- a sliver), polygon / multi-part / holed queries in the "
      "grid CRS and in EPSG:4326 (must/may sets by shapely areas), rebuild from a sample tile, web_tiles z<=22 against the slippy-map formula and the world-bounds query; sibling grids (one resolution sign / flip flag / CRS / origin changed) used one after the other with identical probes; one caller-supplied geobox_cache shared by all queries of a grid; tile indices also as numpy integers; GridSpec.geojson judged like the polygon query; nested multi-part queries.",
      _TB + " Cross-CRS polygon queries are densified so vertex-wise projection follows the true image.", "DESIGN.md 5/C14")

claim("C01", "exception/result monitor over the enumerated product operation x CRS-tag pair x geometry kind, ground truth from generator labels (cross-checked with pyproj), shapely on raw shapes as reference",
      "Quick: every combining operation x all 289 ordered CRS-tag pairs (17 tags incl. four user-defined CRSs no authority lists) with sampled geometry kinds, n-ary streams with the odd operand at every position, BoundingBox and "
      "grid-compatible GeoBox operands; thorough: the full product over 11x11 geometry kinds (exhaustive: true). Mismatch must raise ValueError/CRSMismatchError before any "
      "result exists; equal CRSs (any spelling) must give the shapely result tagged with the first operand's CRS. CRS tags include CRS objects of another library (rasterio). Shapes include three GEOS-invalid kinds (bow-tie, overlapping multipolygon, hole outside the shell). A process history (500 one-off CRSs in two spellings used and dropped, then thousands of different one-off CRSs combined pairwise, pairs at recycled object addresses first) is judged the same way.",
      _TB + " Shapely/GEOS is trusted for the reference result; a generator (split) is consumed before judging.", "DESIGN.md 5/C01")

claim("C07", "post-condition monitors on Geometry.to_crs / Geometry.segmented / densify (aliases rebound) with the oracle's own pyproj transformer and plain-numpy edge geometry; there-and-back differential",
      "Every call is judged: vertices compared one by one with a pyproj transformer built by the oracle (calibrated bit-identical; tolerance 1e-12 relative), type / part / ring / vertex "
      "order preserved, same-CRS returns the same object, no-CRS refuses; densification: no edge longer than the resolution, original vertices an in-order subsequence, added vertices on "
      "their edge (1e-9 relative), area and length unchanged (up to 9000 points per edge); round trips bounded by 1e-6 m (1e-2 m with a datum shift). 11 geometry kinds, edges in 16 directions incl. on the axes; look-alike CRS pairs and 260 one-off per-tile projections in one process; wrapdateline=True is judged like an ordinary call when every vertex is >= 10 degrees from the antimeridian (known finding K6 classified by mechanism).",
      _TB + " PROJ is shared between library and oracle (a PROJ bug is invisible); empty LineString/Polygon inputs are outside the statement's kinds and only counted.", "DESIGN.md 5/C07")

claim("C19", "relation checker over seeded families of near-identical values (==, hash, pickle/copy, dask tokens); hook on the transformer cache judged with probe points; CRS histories compared with pristine subprocesses",
      "A: all pairs/triples of 8-20-member families for the 10 value types (reflexive, symmetric, transitive, equal=>equal hash, unequal=>different token, clone=>equal+same token); "
      "B: 8 construction routes x seeded EPSG pool pairwise equal where pyproj says the route is lossless; C: histories (construct/drop/gc/transformer/re-construct) whose every "
      "str/hash/token is compared with per-route pristine interpreters, and every transformer handed out by the id-keyed cache is compared on probe points with one built by the oracle; "
      "a construct-transform-drop churn exceeds any plausible cache bound; look-alike CRS pairs (datum-less PROJ string / registered CRS) go through the same cache in both orders; D: read-only use (a battery of queries and accessors per type) must leave token, hash and equality with an earlier clone unchanged; E: travel - families built, hashed, used as keys, tokenised and queried in another interpreter with a different PYTHONHASHSEED, pickled there and compared here with locally built twins (equality both ways, hash + dictionary look-up, token, equalities with the family). Known findings K1-K3 are classified by mechanism (known_findings.json).",
      _TB + " pyproj decides losslessness of routes; PYTHONHASHSEED pinned.", "DESIGN.md 5/C19")

claim("C02", "post-condition monitors on every GeoBox / GCPGeoBox view operation + single-box consistency monitor (inverse maps, extent, bounding box, labels, resolution), reference computed with plain numpy matrices; seeded operation chains",
      "Each of 18 view operations (and scaled_down_geobox) is judged on every call against its contract written relative to the source box (probe pixels mapped through numpy 3x3 "
      "matrices, expected shape from numpy indexing semantics, covering where documented), and every resulting box is checked for internal consistency; chains of 1-6 operations over 7 "
      "affine families, 1xN/Nx1 shapes, translations to 1e7 and GCP boxes (affine and mildly non-affine control points; tolerance from measured residual and non-affinity; reported pixel size vs one pixel step).",
      _TB + " zoom_to(int) pixel count is logged, not judged; regions given as geometries are C16's.", "DESIGN.md 5/C02")

claim("C03", "post-condition monitor on compute_reproject_roi: brute force over all destination pixel centres with an independent transform (numpy solve / the oracle's own pyproj transformer)",
      "For each pair every destination pixel centre is mapped to the source independently; needed pixels must lie in roi_dst and their source locations in roi_src, regions inside their "
      "images (source up to the next multiple of read_shrink), empty when separated by more than padding(+align), scale = min(scale2) with scale2 checked exactly (scale+translation), as "
      "uniform scale (similarity) or bracketed by Jacobian singular values, read_shrink integer >=1 not exceeding scale by more than 1e-3, reported transform cross-checked. ~3.7e3 pairs "
      "quick / 7e4 thorough over 10 same-CRS families x placements x padding/align and 10 CRSs, plus fixed probes: curved source edges, curved destination edges (fine wide strips), rasters ending on the antimeridian, a stream of 300 rasters in one-off local projections planned to and from lon/lat in one process, the same CRS in two spellings on grids running 0..360 or past the limits, the curvature probes repeated on objects that were used before, and 2000-px rasters rotated against each other by hundredths of a degree.",
      _TB + " compute_reproject_roi has no caller inside odc-geo, so only direct calls are observed.", "DESIGN.md 5/C03")

claim("C10", "differential monitor: numpy paste of the planned regions vs GDAL nearest-neighbour warp through the real rio_reproject, bit for bit, per dtype; paste_ok vs generator labels",
      "Every paste-able pair with read_shrink 1 is executed both ways for 8 dtypes (incl. the int8/bool detour, explicit and default nodata) and compared exactly; for larger shrink factors the "
      "source region must be the destination region times the factor; paste_ok must agree with how the pair was built (integer scale and whole-pixel shift within ttol/stol on either side of "
      "the tolerance, per axis, stol in {1e-3, 1e-2, 1e-4}; never for rotation/shear/fractional scale); a third of the pairs are also planned with padding / align requested and whatever such a plan reports is held to the same statement; source arrays in 6 memory layouts; twelve pinned pairs of unit-pixel grids at the CRS origin (D35); the same warp also requested through warp_affine. ~1.8e3 pairs and ~9e3 warps quick, 3e4 / 1.5e5 thorough.",
      _TB + " GDAL is the reference warper; only binary-exact grids so ties cannot occur.", "DESIGN.md 5/C10")

claim("C11", "post-condition monitor on compute_output_geobox and on GeoBox.to_crs itself (also reached via .odc.output_geobox): all source pixel corners projected with the oracle's own pyproj transformer",
      "Result must be axis-aligned in the requested CRS and contain every projected source pixel corner up to tol output pixels; default anchor => edges on multiples of the pixel size; "
      "shared units with auto/same => source resolution; explicit resolution exact; shape requests exact (integer: n, or n+1 only with snapping) and displaced < 1 px + the 0.9 source-pixel "
      "buffer; same CRS + defaults => identical object; utm / utm-n / utm-s => UTM zone set, requested hemisphere, valid area overlapping the raster. ~550 requests quick / 1.2e4 thorough "
      "plus fixed many-pixel curvature probes (tile- and region-sized, north-up and rotated), own-CRS requests with non-default options, and authority-axis-order transformers requested first for half of the CRS pairs; anchors as strings, numbers, XY fractions and AnchorEnum members; a tight request must give the same grid with and without an anchor; utm keywords in every letter case; the xarray accessor's answer judged directly; continental rasters (tens of millions of pixels) in tight mode.",
      _TB + " Rasters above 7e4 corners use every outline corner and every 7th interior one.", "DESIGN.md 5/C11")

claim("C12", "reference-model monitor: brute force over all tiles with shapely footprints (numpy matrices, the oracle's own pyproj transformer) vs GeoboxTiles.tiles / range_from_bbox / grid_intersect",
      "For each seeded tiling (regular/variable, 7 affine families) and query (polygon or bounding box; inside, straddling each edge, touching, outside, larger; same or other CRS) the reported "
      "tiles must contain every tile sharing more than a sliver with the query and, for geometries, only tiles not disjoint from it; for each pair of tiled rasters every (destination, source) "
      "tile pair with more than a sliver of common footprint must be an edge, and rasters separated by > 2 px must give no edge and no exception; global source x regional destination graphs are judged in the source CRS, near-integer pixel-size ratios on 3000-8000 px rasters by interval arithmetic; a third of the rasters are handed over as views (resized, neighbour-of-neighbour, flipped twice, translated back) of parents whose lazy attributes were read first, a third of the tilings are crops of a queried parent tiling; grids of ~5000 tiles queried with lines, rings and scattered points. ~830 queries + 490 graphs quick. Known finding K5 is classified by mechanism.",
      _TB + " Cross-CRS bounding-box queries are skipped (a 4-point polygon by design).", "DESIGN.md 5/C12")

claim("C06", "history checker over recorded PartsWriter calls (unique chunk ids, position-dependent bytes) + invariant hook on MPUChunk (byte conservation, credits, increasing ids); exhaustive merge trees; real dask under random topological orders and thread pools",
      "Every history - the real append/merge/spill/collate/finalise operations driven over ALL binary merge trees of every generated configuration with <= 4 (quick) / 5 (thorough) partitions, "
      "seeded random trees up to 12 partitions, and mpu_write(...).compute() under seeded random topological orders (sync) and 2-8 threads with injected writer delays - must satisfy: parts by "
      "increasing id == header+chunks+footer, ids unique / in range / increasing, every part but the last >= min_write_sz, finalise once with exactly the written receipts in order, header/footer "
      "callbacks saw the complete ordered (size,id) list, no exception, and the caller's chunks (bytes, fresh bytearrays, one bytearray reused for every chunk of a size) unchanged afterwards; dask partitions as lists, tuples and lazy one-shot iterators; writers with a small upper part size. ~2.8e3 histories quick, 5e5 thorough.",
      _TB + " Writers with fewer than 1 + partitions x writes_per_chunk part numbers are outside the domain.", "DESIGN.md 5/C06")

claim("C05", "file-content monitor: every file written by save_cog_with_dask(...).compute() is decoded by two independent readers (rasterio/GDAL, tifffile page/tag inspection) and its part-writer history is recorded at the MPUFileSink boundary; task orders randomised",
      "Shapes 1..600 px (incl. layouts whose padding adds whole tile rows, D36), irregular source chunkings (D37). Per configuration: GDAL pixels/dtype/band order/padding/transform/CRS/nodata and overview factors; tifffile: IFD count = levels+1 with levels re-derived from the statement, padded shape a "
      "multiple of 2^levels, each overview exactly half, tile sizes multiples of 16 and as requested, all (offset,bytecount) intervals contiguous up to EOF with no gap/overlap, every overview "
      "level stored before larger ones, level-0 decode equals the source, nearest overviews drawn from their 2x2 parent block; sink history (ids, sizes >= 4096 but the last, finalise once, "
      "sum = file size). ~115 files quick / 1e4 thorough over shapes 1..256, 3 layouts (sample-axis chunking incl.), 8 dtypes, 10 blocksize lists, 4 compressions, constant-area data, pixel magnitudes (huge / tiny / NaN-inf / ends of the integer range), user-defined CRSs (read-back CRS judged by ellipsoid and where a map point lands), sources in 6 memory layouts, nodata declared via nodata / _FillValue, an earlier save of other pixels that died half way at the same destination, file and fake-S3 destinations, random topological orders and 2-8 threads; non-termination is decided by a logical bound on writes, the wall-clock watchdog is inconclusive.",
      _TB + " Known finding K4 (band-first cubes) is classified by mechanism.", "DESIGN.md 5/C05")

claim("C18", "deterministic thread-schedule controller (sys.monitoring LINE yield points + cooperative lock + modelled linearizable distributed Variable/Lock) with a history checker over a fake S3 client's single log; file-system audit hook for the file sink; limit accessors enumerated",
      "A: every schedule with <= 2 preemptions of 2 concurrent first writes (in-process path: exhaustive; cluster paths: capped DFS) and <= 1 preemption of 3, in five modes (in-process warm / cold lock registry, cluster with one writer copy per worker, cluster with one shared writer object; shared variable prepared or not; a stale upload aborted by id between two writes), plus seeded random walks, ~1e4 "
      "schedules quick / 4e5 thorough, each judged: exactly one create, all upload_part and the complete under that id, no writer exception, no deadlock; real in-process distributed.Client "
      "rounds cross-check the modelled primitives; B: MPUFileSink.finalise on seeded part lists (sizes incl. 0, any order, relocated parts dir, earlier crashed / kept-parts rounds at the same destination, parts written twice, parts of 16 MiB and more): destination == concatenation, parts and dir gone, "
      "bystander untouched per audit hook; C: all subsets of the four limit keywords reported back, max > min.",
      _TB + " Interleavings are statement-granular; real S3 and multi-process clusters are not available offline.", "DESIGN.md 5/C18")

claim("C13", "differential monitor: xr_reproject on dask-backed data (computed under seeded random topological orders / thread pools) vs the same call on numpy-backed data, with an independent transform classifying destination pixels",
      "Per case both results must have the same shape/dtype; for same-CRS nearest they must be identical (nearest ties excluded off binary-exact grids); every destination pixel whose centre "
      "maps > 2 px outside the source must hold the fill value (nodata, else NaN for floats, else 0) in both results - so empty chunks, partially covered chunks and the in-memory path agree "
      "across seams; disjoint rasters give all-fill without an exception. ~270 cases quick / 5.6e4 thorough over 10 same-CRS kinds + cross-CRS, 1-pixel and non-dividing chunkings, 6 dtypes, "
      "time axis, nearest/bilinear, explicit dst_nodata, nodata areas in the data, global sources, sources in 6 memory layouts (left unchanged), irregular source chunkings, (time,y,x,band) rasters, unit-pixel grids with a chunk corner on the CRS origin (D35), two chunkings inside one dask expression, ~240 distinct execution orders per quick run. Known finding K5 is classified by mechanism.",
      _TB + " GDAL is shared by both paths.", "DESIGN.md 5/C13")

claim("C09", "history monitor with tracker index vectors: after every step the GeoBox recovered through .odc must place each remaining element where its original pixel was (numpy matrices) and agree with the labels; round-trip and reprojection outputs compared with the requested GeoBox",
      "User-defined CRSs on a fifth of the boxes, recovered CRS compared with pyproj's strict equality. Per history (1-6 steps of strided/reversed slicing, arithmetic, comparison, astype, pickle, copy; 7 affine families incl. rotated/sheared, 1xN/Nx1/1x1 with CRS, 3 ranks, numpy and dask) "
      "positions are checked for every remaining pixel and labels for axis-aligned boxes; wrap -> .odc.geobox must return shape, CRS and corners to 1e-6 px (GCP boxes, fresh and zoomed / cropped / padded: same pixel->world mapping on a probe grid), histories also on control-point boxes (positions against the original box's own mapping); "
      "xr_reproject / .odc.reproject of DataArrays and Datasets to GeoBoxes, CRS strings and 'utm' must yield the destination GeoBox on the container and each variable, CRS included, "
      "without crs/crs_wkt/grid_mapping/gcps/epsg attrs on variables and on the Dataset and with non-spatial variables passed through; requests to a CRS carry grid options (anchor / resolution / tight) and are compared with what compute_output_geobox gives for the source GeoBox, as is the accessor's own answer; an operation after reprojection keeps the registration. ~1.5e3 histories + 350 reprojections quick.",
      _TB + " Bit-equality of recovered transforms is logged, not demanded (labels are floats).", "DESIGN.md 5/C09")

claim("C15", "file-content monitor: every output of write_cog / to_cog / write_cog_layers is read back with rasterio (and tifffile for the tiling flag), overwrite protocol observed through a sys.addaudithook file-system recorder",
      "Per configuration: pixels, dtype, band count/order, transform, CRS, nodata identical; internally tiled with block sizes multiples of 16 and shrunk to small images; exactly the requested "
      "overview levels with sizes ceil(N/level) (none by default under 512 px, [2..32] from 512), externally supplied overviews stored pixel-identical and in order; existing destination + "
      "overwrite=False => IOError with content hash / inode / mtime unchanged and no write-open, unlink or rename event on it; overwrite=True => replaced. ~330 writes quick / 2e4 thorough over "
      "shapes 1..700, 3 layouts, 8 dtypes, rotated transforms, block sizes incl. non-multiples, windowed writes, intermediate compression, file and memory destinations, constant-area data, nodata by keyword, ambient GDAL configurations, user-defined CRSs, arrays in 6 memory layouts (left unchanged by the write), keyword objects compared with a deep copy taken before the call, band-last cubes.",
      _TB + " GDAL is both writer backend and reader.", "DESIGN.md 5/C15")
