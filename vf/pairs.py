"""Seeded generators of (source, destination) GeoBox pairs for the reprojection properties (C03, C10, C13)."""
from __future__ import annotations

import math
import random
from typing import Optional

import numpy as np
from affine import Affine

from . import gen

SAME_KINDS = ("shift", "subpix", "scale", "fscale", "mirror", "rot", "far", "touch", "contained", "partial")


def src_box(rng: random.Random, crs="EPSG:3857", binary_exact: bool = True, max_n: int = 40):
    from odc.geo.geobox import GeoBox

    r = rng.choice([10.0, 30.0, 2.5, 0.5, 0.25, 100.0, 1.0]) if binary_exact else rng.choice([10.0, 0.1, 1 / 3, 30.0, 0.00025])
    sy = rng.choice([-1, -1, 1])
    sx = rng.choice([1, 1, -1])
    nx, ny = rng.randint(1, max_n), rng.randint(1, max_n)
    tx, ty = rng.randint(-50, 50) * r, rng.randint(-50, 50) * r
    if r == 1.0 and rng.random() < 0.5:
        tx = ty = 0.0  # unit pixels with the corner at the CRS origin: geotransform (0, 1, 0, 0, 0, +-1), GDAL's "not georeferenced" (D35)
    return GeoBox((ny, nx), Affine(sx * r, 0, tx, 0, sy * r, ty), crs)


def same_crs_pair(rng: random.Random, kind: Optional[str] = None, ttol: float = 0.05, stol: float = 1e-3, binary_exact: bool = True, max_n: int = 40):
    """Returns (src, dst, kind, label) where label says what the generator built:
    {"paste": bool|None, "int_scale": k|None, "P": affine dst px -> src px}"""
    from odc.geo.geobox import GeoBox

    src = src_box(rng, binary_exact=binary_exact, max_n=max_n)
    kind = kind or rng.choice(SAME_KINDS)
    H, W = src.shape
    nx, ny = rng.randint(1, max_n), rng.randint(1, max_n)
    tx, ty = rng.randint(-nx - 2, W + 2), rng.randint(-ny - 2, H + 2)
    if rng.random() < 0.15:
        tx, ty = rng.randint(-30, 45), rng.randint(-30, 45)
    paste: Optional[bool] = None
    k_scale = None
    if kind == "shift":
        P = Affine.translation(tx, ty)
        paste, k_scale = True, 1
    elif kind == "contained":
        nx, ny = rng.randint(1, max(1, W)), rng.randint(1, max(1, H))
        P = Affine.translation(rng.randint(0, W - nx), rng.randint(0, H - ny))
        paste, k_scale = True, 1
    elif kind == "partial":
        side = rng.choice(["l", "r", "t", "b"])
        P = Affine.translation({"l": -rng.randint(1, nx), "r": W - rng.randint(0, nx - 1) if nx > 1 else W - 1}.get(side, rng.randint(-3, 3)),
                               {"t": -rng.randint(1, ny), "b": H - rng.randint(0, ny - 1) if ny > 1 else H - 1}.get(side, rng.randint(-3, 3)))
        paste, k_scale = True, 1
    elif kind == "touch":
        P = Affine.translation(rng.choice([-nx, W]), rng.randint(-3, 3)) if rng.random() < 0.5 else Affine.translation(rng.randint(-3, 3), rng.choice([-ny, H]))
        paste, k_scale = True, 1
    elif kind == "subpix":
        # residue on either side of the tolerance, never within 10% of it
        inside = rng.random() < 0.5
        small = lambda: rng.choice([0, 0.2, -0.2, 0.9, -0.9, 0.5]) * ttol
        large = lambda: rng.choice([1.1, 2, 10, -1.1, -3, 5]) * ttol
        if inside:
            rx, ry = small(), small()
        else:
            rx, ry = rng.choice([(large(), small()), (small(), large()), (large(), large())])
        P = Affine.translation(tx + rx, ty + ry)
        paste, k_scale = inside, 1
    elif kind == "scale":
        s = rng.choice([2, 3, 4, 2, 3, 4, 5, 7, 16])
        near = rng.choice([0, 0, 0.5 * stol, -0.5 * stol, 2 * stol, -2 * stol])
        whole = rng.random() < 0.75
        if whole:
            tx, ty = s * (tx // s), s * (ty // s)  # whole-pixel shift on the grid of the shrunk source
        else:
            tx, ty = s * (tx // s) + rng.randint(1, s - 1), s * (ty // s) + rng.choice([0, 1])
        # sub-pixel residue measured in pixels of the *shrunk* source (what the tolerance is about): s times larger in source pixels
        rho_x, rho_y = (rng.choice([0, 0.2, -0.2, 0.9, -0.9, 0.5]) * ttol, rng.choice([0, 0.3, -0.8]) * ttol) if rng.random() < 0.4 else (0.0, 0.0)
        P = Affine.translation(tx + rho_x * s, ty + rho_y * s) * Affine.scale(s + near, s + near)
        # what counts is the shift measured in pixels of the shrunk source: a native offset of 15 with s = 16 is -1/16 of a shrunk pixel away from whole
        TXs, TYs = (tx + rho_x * s) / s, (ty + rho_y * s) / s
        f = max(abs(TXs - round(TXs)), abs(TYs - round(TYs)))
        whole_ = True if f < 0.95 * ttol else False if f > 1.05 * ttol else None
        paste = None if whole_ is None else (abs(near) < stol and whole_)
        k_scale = s if paste else None
        if abs(near) > 0 and (rho_x or rho_y):
            paste = None  # scale error x translation may or may not stay within tolerance: not labelled
        if near < 0 and 1e-3 <= abs(near) < stol:
            # the read scale is snapped up from below only within 1e-3 whatever stol says: the code declines (conservative), either answer is
            # consistent with the statement, so the verdict is left to the consequences (regions, paste == warp)
            paste = None
    elif kind == "fscale":
        fsx, fsy = rng.choice([0.5, 1.5, 2.2, 0.3, 1.005, 2.5]), rng.choice([0.5, 1.5, 2.2, 1, 3])
        P = Affine.translation(tx + rng.choice([0, 0.5, rng.random()]), ty) * Affine.scale(fsx, fsy)
        # 1.005 is "not an integer" only for tolerances below 5e-3
        paste = None if (abs(fsx - round(fsx)) < 2 * stol and abs(fsy - round(fsy)) < 2 * stol) else False
    elif kind == "mirror":
        if rng.random() < 0.25:
            tx = ty = 0  # mirrored about the very corner: with unit pixels at the CRS origin both grids are ones GDAL takes for "not georeferenced" (D35), and they share no pixel
        P = Affine.translation(tx, ty) * Affine.scale(rng.choice([1, -1]), rng.choice([1, -1]))
        paste, k_scale = True, 1
    elif kind == "rot":
        P = Affine.translation(tx, ty) * Affine.rotation(rng.choice([5, 30, 90, -90, 0.5, -45, 179])) * Affine.scale(rng.choice([1, 1, 2, 0.7]))
        paste = False
    elif kind == "far":
        P = Affine.translation(rng.choice([-1, 1]) * rng.randint(150, 4000), ty) if rng.random() < 0.5 else Affine.translation(tx, rng.choice([-1, 1]) * rng.randint(150, 4000))
        paste, k_scale = True, 1
    else:
        raise ValueError(kind)
    dst = gen.warm_view(GeoBox((ny, nx), src.affine * P, src.crs))
    return gen.warm_view(src), dst, kind, {"paste": paste, "int_scale": k_scale, "P": tuple(P)[:6]}


def cross_crs_pair(rng: random.Random, max_n: int = 40):
    """(src, dst, placement) in two different CRSs, both inside their lon/lat windows, small extents."""
    e1, e2 = rng.sample(gen.CRS_WINDOWS, 2)
    gen.crs_churn()
    lo = (max(e1[1], e2[1]), min(e1[3], e2[3]))
    la = (max(e1[2], e2[2]), min(e1[4], e2[4]))
    if lo[1] - lo[0] < 5 or la[1] - la[0] < 5:
        return None
    sz = rng.choice([0.2, 1.0, 2.0])
    sz = min(sz, (lo[1] - lo[0]) / 6, (la[1] - la[0]) / 6)
    lon = rng.uniform(lo[0] + 2.5 * sz, lo[1] - 2.5 * sz)
    lat = rng.uniform(la[0] + 2.5 * sz, la[1] - 2.5 * sz)
    place = rng.choice(["same", "shift", "shift", "touch", "near", "far"])
    d = {"same": 0.0, "shift": sz * rng.uniform(0.2, 0.9), "touch": sz, "near": sz * 1.3, "far": sz * 2.0}[place] * rng.choice([1, -1])
    dlon, dlat = (d, 0.0) if rng.random() < 0.5 else (0.0, d)
    src = _box_at(rng, e1[0], lon, lat, sz, rng.randint(8, max_n), rng.choice([0, 0, 15]))
    dst = _box_at(rng, e2[0], lon + dlon, lat + dlat, sz * rng.choice([1, 1, 0.5]), rng.randint(8, max_n), 0)
    return src, dst, place


def cross_crs_pair_large(rng: random.Random):
    """A 3-5 degree source lying inside a larger, many-pixel destination in another CRS: footprint edges are visibly curved in
    destination pixels, so planning from corners alone is not enough."""
    for _ in range(20):
        e1, e2 = rng.sample(gen.CRS_WINDOWS, 2)
        lo = (max(e1[1], e2[1]), min(e1[3], e2[3]))
        la = (max(e1[2], e2[2]), min(e1[4], e2[4]))
        if lo[1] - lo[0] < 12 or la[1] - la[0] < 12:
            continue
        sz = rng.choice([3.0, 5.0])
        lon = rng.uniform(lo[0] + 1.6 * sz, lo[1] - 1.6 * sz)
        # towards the high-latitude end of the window: meridian convergence bends projected edges most there
        hi = la[1] if abs(la[1]) >= abs(la[0]) else la[0]
        lat = hi - math.copysign(1.6 * sz + rng.uniform(0, 4), hi)
        src = _box_at(rng, e1[0], lon, lat, sz, rng.choice([60, 120]), 0)
        dst = _box_at(rng, e2[0], lon + rng.choice([0, 0.3 * sz]), lat, sz * rng.choice([1.5, 2]), rng.choice([350, 450]), 0)
        if dst.shape[0] * dst.shape[1] > 280000:
            dst = dst.crop((450, 600))
        return src, dst, "large"
    return None


def _box_at(rng, crs, lon, lat, size_deg, n, rot):
    from odc.geo.geobox import GeoBox

    tr = gen.transformer("EPSG:4326", crs)
    xs, ys = tr.transform([lon - size_deg / 2, lon + size_deg / 2, lon - size_deg / 2, lon + size_deg / 2], [lat - size_deg / 2, lat - size_deg / 2, lat + size_deg / 2, lat + size_deg / 2])
    x0, x1, y0, y1 = min(xs), max(xs), min(ys), max(ys)
    nx = max(1, int(n * rng.uniform(0.5, 1.5)))
    rx, ry = (x1 - x0) / nx, (y1 - y0) / n
    g = GeoBox((n, nx), Affine(rx, 0, x0, 0, -ry, y1), crs)
    if rot:
        g = g.rotate(rot)
    return gen.warm_view(g)


def M3(A) -> np.ndarray:
    a, b, c, d, e, f = tuple(A)[:6]
    return np.array([[a, b, c], [d, e, f], [0, 0, 1.0]])


def dst_to_src_px(src, dst, pts: np.ndarray) -> np.ndarray:
    """Independent mapping of destination pixel coordinates (N x 2, x/y) to source pixel coordinates."""
    P = np.c_[pts, np.ones(len(pts))].T
    same = (src.crs is None and dst.crs is None) or (src.crs is not None and dst.crs is not None and src.crs.proj.equals(dst.crs.proj))
    if same:
        return np.linalg.solve(M3(src.affine), M3(dst.affine) @ P)[:2].T
    W = (M3(dst.affine) @ P)[:2]
    tr = gen.transformer(dst.crs.proj.to_wkt(), src.crs.proj.to_wkt())
    x, y = tr.transform(W[0], W[1])
    Q = np.vstack([np.asarray(x, dtype="float64"), np.asarray(y, dtype="float64"), np.ones(len(pts))])
    return np.linalg.solve(M3(src.affine), Q)[:2].T
