"""Randomised topological execution orders for dask's local schedulers.

dask.local.get_async consults `order(dsk)` both for the initial ready stack and in finish_task; replacing it by a
seeded random priority map makes the single-threaded scheduler walk a *random topological order* of the real task
graph.  The threaded scheduler is perturbed through worker count and seeded sleeps injected by the caller.
A recorder collects the sequence of executed task-key prefixes so that evidence can report distinct orders observed.
"""
from __future__ import annotations

import hashlib
import random
import threading
from contextlib import contextmanager

import dask
import dask.local

_real_order = dask.local.order
_state = {"seed": None}
_trace = []
_lock = threading.Lock()


def _rnd_order(dsk, dependencies=None, **kw):
    if _state["seed"] is None:
        return _real_order(dsk, dependencies=dependencies, **kw)
    keys = list(dsk)
    rng = random.Random(_state["seed"])
    rng.shuffle(keys)
    return {k: i for i, k in enumerate(keys)}


def _key_prefix(key) -> str:
    k = key[0] if isinstance(key, tuple) else key
    k = str(k)
    base = k.rsplit("-", 1)[0] if "-" in k else k
    idx = ".".join(str(i) for i in key[1:]) if isinstance(key, tuple) else ""
    return f"{base}[{idx}]"


def _pretask(key, dsk, state):
    with _lock:
        _trace.append(_key_prefix(key))


@contextmanager
def random_order(seed):
    """All sync/threaded computes inside use a seeded random topological order; yields a function returning the order signature."""
    from dask.callbacks import Callback

    _state["seed"] = seed
    dask.local.order = _rnd_order
    with _lock:
        _trace.clear()
    cb = Callback(pretask=_pretask)
    cb.register()
    try:
        yield lambda: hashlib.blake2b("|".join(_trace).encode(), digest_size=8).hexdigest()
    finally:
        cb.unregister()
        dask.local.order = _real_order
        _state["seed"] = None


def trace_len() -> int:
    return len(_trace)
