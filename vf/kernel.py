"""Monitor kernel: events, counters, three-valued verdicts, evidence + replay files.

A property module drives real odc-geo code and reports every oracle evaluation
to a `Monitor`:

    mon.ok(point, cls=..., sig=..., sample=...)      evaluation passed
    mon.fail(point, witness, key=...)                evaluation failed
    mon.skip(point, reason)                          call outside the property's domain
    mon.error(point, exc)                            the oracle itself broke -> inconclusive
    mon.floor(name, n)                               require >= n passed-or-failed evaluations

Verdict (DESIGN.md section 1): violated > inconclusive > held.
"""
from __future__ import annotations

import hashlib
import json
import math
import os
import sys
import threading
import time
import traceback
from collections import Counter
from pathlib import Path
from typing import Any, Callable, Dict, Iterable, List, Optional

ROOT = Path(__file__).resolve().parent.parent
EVIDENCE_DIR = Path(os.environ.get("VERIF_EVIDENCE_DIR") or ROOT / "evidence")
REPLAY_DIR = Path(os.environ.get("VERIF_REPLAY_DIR") or ROOT / "replays")
WORK_DIR = ROOT / ".work"
KNOWN_FILE = ROOT / "known_findings.json"

PER_KEY_KEEP = 6
EARLY_STOP_AFTER = int(os.environ.get("VERIF_EARLY_STOP", "400"))


class EarlyStop(BaseException):
    """Raised (main thread only) once a run has collected so many unexplained failures that continuing adds nothing; BaseException so that no `except Exception` swallows it."""
MAX_FAIL_KEEP = 40  # failures kept in full
MAX_SAMPLES = 6


def jsonable(x: Any, depth: int = 0) -> Any:
    """Best-effort conversion of a witness to JSON (never raises)."""
    try:
        import numpy as np
    except Exception:  # pragma: no cover
        np = None  # type: ignore
    if depth > 8:
        return repr(x)[:200]
    if x is None or isinstance(x, (bool, int, str)):
        return x
    if isinstance(x, float):
        if math.isnan(x) or math.isinf(x):
            return repr(x)
        return x
    if np is not None:
        if isinstance(x, np.generic):
            return jsonable(x.item(), depth + 1)
        if isinstance(x, np.ndarray):
            if x.size > 64:
                return {"ndarray": list(x.shape), "dtype": str(x.dtype), "head": jsonable(x.ravel()[:16].tolist(), depth + 1)}
            return jsonable(x.tolist(), depth + 1)
    if isinstance(x, slice):
        return f"slice({x.start},{x.stop},{x.step})"
    if isinstance(x, dict):
        return {str(k): jsonable(v, depth + 1) for k, v in list(x.items())[:64]}
    if isinstance(x, (list, tuple, set, frozenset)):
        xs = list(x)
        out = [jsonable(v, depth + 1) for v in xs[:64]]
        if len(xs) > 64:
            out.append(f"... {len(xs) - 64} more")
        return out
    if isinstance(x, bytes):
        return {"bytes": len(x), "head": x[:24].hex()}
    if isinstance(x, BaseException):
        return f"{type(x).__name__}: {x}"[:400]
    return repr(x)[:400]


def sig_of(x: Any) -> int:
    """64-bit signature of a canonicalised case."""
    s = json.dumps(jsonable(x), sort_keys=True, default=repr)
    return int.from_bytes(hashlib.blake2b(s.encode(), digest_size=8).digest(), "big")


class Failure:
    __slots__ = ("point", "witness", "key", "case")

    def __init__(self, point: str, witness: dict, key: Optional[str], case: Any):
        self.point, self.witness, self.key, self.case = point, witness, key, case


def load_known(pid: str) -> Dict[str, dict]:
    if not KNOWN_FILE.exists():
        return {}
    doc = json.loads(KNOWN_FILE.read_text())
    return {e["key"]: e for e in doc.get("findings", []) if e.get("property") == pid and e.get("status") == "known"}


class Monitor:
    def __init__(self, pid: str, tier: str, seed: int, shard: Optional[int] = None):
        self.pid, self.tier, self.seed, self.shard = pid, tier, seed, shard
        self.t0 = time.time()
        self.evals: Counter = Counter()  # point -> evaluations (pass + fail)
        self.classes: Counter = Counter()  # "point|class" -> evaluations
        self.skips: Counter = Counter()  # "point|reason"
        self.errors: List[dict] = []
        self.n_errors = 0
        self.failures: List[Failure] = []
        self.n_fail = 0
        self._n_unknown = 0
        self._known_keys = None
        self._stopping = False
        self.fail_keys: Counter = Counter()
        self.sigs: set = set()
        self.samples: List[Any] = []
        self._sample_points: Counter = Counter()
        self.floors: Dict[str, int] = {}
        self.notes: Dict[str, Any] = {}
        self.obs: Counter = Counter()  # free-form observation counters (not verdict bearing)
        self.case: Any = None  # current case (set by runner) - used for replay
        self.exhaustive: Optional[bool] = None
        self.inconclusive_reasons: List[str] = []
        self.deadline: Optional[float] = None

    # ------------------------------------------------------------------ reporting
    def ok(self, point: str, cls: Optional[str] = None, sig: Any = None, sample: Any = None, n: int = 1) -> None:
        self.evals[point] += n
        if cls is not None:
            self.classes[f"{point}|{cls}"] += n
        if sig is not None:
            self.sigs.add(sig if isinstance(sig, int) else sig_of(sig))
        if sample is not None and self._sample_points[point] < 2 and len(self.samples) < 40:
            self._sample_points[point] += 1
            self.samples.append({"point": point, "case": jsonable(sample)})

    def fail(self, point: str, witness: dict, key: Optional[str] = None, cls: Optional[str] = None) -> None:
        self.evals[point] += 1
        if cls is not None:
            self.classes[f"{point}|{cls}"] += 1
        self.n_fail += 1
        self.fail_keys[key or f"?{point}"] += 1
        self._maybe_stop_early(key or f"?{point}")
        # witnesses are kept per key (mechanism), so that thousands of reproductions of a known finding can never crowd out the one unknown violation
        if sum(1 for f in self.failures if f.key == key) < PER_KEY_KEEP:
            case = self.case
            if case is None:
                from . import attach

                case = attach.current_case()
            self.failures.append(Failure(point, jsonable(witness), key, jsonable(case)))

    def _maybe_stop_early(self, key: str) -> None:
        """A tree that has already produced hundreds of violations no known finding explains is violated whatever the rest of the workload shows: stop the workload
        (main thread only - never inside a scheduler's worker thread) instead of grinding through it.  The verdict is unaffected; the evidence says where it stopped."""
        if self._stopping:
            return
        if self._known_keys is None:
            self._known_keys = set(load_known(self.pid))
        if key in self._known_keys:
            return
        self._n_unknown += 1
        if self._n_unknown >= EARLY_STOP_AFTER and threading.current_thread() is threading.main_thread():
            self._stopping = True
            self.notes["stopped_early"] = f"workload abandoned after {self._n_unknown} failures that no known finding explains"
            raise EarlyStop(self.notes["stopped_early"])

    def check(self, cond: bool, point: str, witness: Callable[[], dict] | dict, key: Optional[str] = None,
              cls: Optional[str] = None, sig: Any = None, sample: Any = None) -> bool:
        if cond:
            self.ok(point, cls=cls, sig=sig, sample=sample)
            return True
        w = witness() if callable(witness) else witness
        self.fail(point, w, key=key, cls=cls)
        return False

    def skip(self, point: str, reason: str = "out-of-domain") -> None:
        self.skips[f"{point}|{reason}"] += 1

    def error(self, point: str, exc: BaseException | str) -> None:
        self.n_errors += 1
        if len(self.errors) < 10:
            tb = "".join(traceback.format_exception(exc)[-6:]) if isinstance(exc, BaseException) else str(exc)
            self.errors.append({"point": point, "error": tb[-1500:], "case": jsonable(self.case)})

    def floor(self, name: str, n: int) -> None:
        """Require >= n evaluations at attach point `name` or class `point|class`."""
        self.floors[name] = max(n, self.floors.get(name, 0))

    def inconclusive(self, reason: str) -> None:
        self.inconclusive_reasons.append(reason)

    def time_left(self) -> float:
        return math.inf if self.deadline is None else self.deadline - time.time()

    # ------------------------------------------------------------------ shards
    def dump(self) -> dict:
        return {
            "evals": dict(self.evals), "classes": dict(self.classes), "skips": dict(self.skips),
            "errors": self.errors, "n_errors": self.n_errors,
            "failures": [{"point": f.point, "witness": f.witness, "key": f.key, "case": f.case} for f in self.failures],
            "n_fail": self.n_fail, "fail_keys": dict(self.fail_keys),
            "sigs": list(self.sigs), "samples": self.samples, "floors": self.floors,
            "notes": jsonable(self.notes), "obs": dict(self.obs), "exhaustive": self.exhaustive,
            "inconclusive": self.inconclusive_reasons,
        }

    def absorb(self, d: dict) -> None:
        self.evals.update(d["evals"])
        self.classes.update(d["classes"])
        self.skips.update(d["skips"])
        self.errors.extend(d["errors"][: max(0, 10 - len(self.errors))])
        self.n_errors += d["n_errors"]
        for f in d["failures"]:
            if sum(1 for g in self.failures if g.key == f["key"]) < PER_KEY_KEEP:
                self.failures.append(Failure(f["point"], f["witness"], f["key"], f["case"]))
        self.n_fail += d["n_fail"]
        self.fail_keys.update(d["fail_keys"])
        self.sigs.update(d["sigs"])
        for s in d["samples"]:
            if len(self.samples) < 12:
                self.samples.append(s)
        for k, v in d["floors"].items():
            self.floor(k, v)
        for k, v in d["notes"].items():
            if k not in self.notes:
                self.notes[k] = v
            elif isinstance(v, (int, float)) and isinstance(self.notes[k], (int, float)):
                self.notes[k] += v
        self.obs.update(d["obs"])
        if d["exhaustive"] is not None:
            self.exhaustive = d["exhaustive"] if self.exhaustive is None else (self.exhaustive and d["exhaustive"])
        self.inconclusive_reasons.extend(d["inconclusive"])

    # ------------------------------------------------------------------ verdict
    def finish(self, rule: str, assumptions: List[str], level: str = "exploration") -> int:
        known = load_known(self.pid)
        violations = [f for f in self.failures if f.key not in known]
        n_known = sum(c for k, c in self.fail_keys.items() if k in known)
        n_viol = self.n_fail - n_known
        wall = time.time() - self.t0

        floors_report = {}
        for name, need in sorted(self.floors.items()):
            got = self.classes.get(name, 0) if "|" in name else self.evals.get(name, 0)
            floors_report[name] = {"required": need, "observed": got}
            if got < need:
                self.inconclusive_reasons.append(f"floor {name}: observed {got} < required {need}")
        if self.n_errors:
            self.inconclusive_reasons.append(f"{self.n_errors} monitor errors (first: {self.errors[0]['error'][-300:] if self.errors else '?'})")
        total = sum(self.evals.values())
        if total == 0:
            self.inconclusive_reasons.append("no evaluations at all")

        replay_paths: List[str] = []
        if n_viol:
            REPLAY_DIR.mkdir(parents=True, exist_ok=True)
            seen = set()
            for f in violations:
                k = f.key or f.point
                if k in seen:
                    continue
                seen.add(k)
                sig = sig_of([f.point, f.witness])
                path = REPLAY_DIR / f"{self.pid}-{sig:016x}.json"
                path.write_text(json.dumps({
                    "property": self.pid, "tier": self.tier, "seed": self.seed, "point": f.point,
                    "key": f.key, "case": f.case, "witness": f.witness}, indent=1, default=repr))
                replay_paths.append(str(path))
                if len(replay_paths) >= 8:
                    break

            if not replay_paths:
                # cannot happen with per-key retention; never exit 1 without the VIOLATION line the interface promises
                path = REPLAY_DIR / f"{self.pid}-nowitness-{self.seed}.json"
                path.write_text(json.dumps({"property": self.pid, "tier": self.tier, "seed": self.seed, "point": None, "key": None, "case": None,
                                            "witness": {"violation_keys": {k: c for k, c in self.fail_keys.items() if k not in known}}}, indent=1))
                replay_paths.append(str(path))

        verdict = "violated" if n_viol else ("inconclusive" if self.inconclusive_reasons else "held")
        samples = self.samples[:MAX_SAMPLES] or [{"note": "no sample recorded"}]
        distinct = len(self.sigs)
        cov: Dict[str, Any] = {
            "evaluations": int(total),
            "distinct_nontrivial": int(distinct),
            "rule": rule,
            "samples": samples,
            "per_attach_point": dict(sorted(self.evals.items())),
            "per_class": dict(sorted(self.classes.items())),
            "out_of_domain": dict(sorted(self.skips.items())),
            "observations": dict(sorted(self.obs.items())),
            "floors": floors_report,
            "monitor_errors": self.n_errors,
            "known_findings_reproduced": {k: c for k, c in self.fail_keys.items() if k in known},
            "verdict": verdict,
            "inconclusive_reasons": self.inconclusive_reasons[:10],
            "notes": jsonable(self.notes),
        }
        if self.exhaustive is not None:
            cov["exhaustive"] = bool(self.exhaustive)
        if self.errors:
            cov["monitor_error_samples"] = self.errors[:3]
        if n_viol:
            cov["violation_keys"] = {k: c for k, c in self.fail_keys.items() if k not in known}
            cov["violation_samples"] = [{"point": f.point, "key": f.key, "witness": f.witness} for f in violations[:5]]
        ev = {
            "property_id": self.pid, "tier": self.tier, "seed": int(self.seed), "level": level,
            "coverage": cov, "assumptions": assumptions, "wall_s": round(wall, 3), "violations": int(n_viol),
        }
        EVIDENCE_DIR.mkdir(parents=True, exist_ok=True)
        tmp = EVIDENCE_DIR / f".{self.pid}.{os.getpid()}.tmp"
        tmp.write_text(json.dumps(ev, indent=1, default=repr))
        os.replace(tmp, EVIDENCE_DIR / f"{self.pid}.json")

        pts = ", ".join(f"{k}={v}" for k, v in sorted(self.evals.items())[:12])
        print(f"[{self.pid}] tier={self.tier} seed={self.seed} evaluations={total} distinct={distinct} "
              f"failures={self.n_fail} known={n_known} errors={self.n_errors} wall={wall:.1f}s")
        print(f"[{self.pid}] attach points: {pts}{' ...' if len(self.evals) > 12 else ''}")
        for k, c in sorted(self.fail_keys.items()):
            if k in known:
                print(f"KNOWN-FINDING: property={self.pid} {k}: {known[k].get('mechanism', '')} (reproduced {c}x)")
        if n_viol:
            for f in violations[:5]:
                print(f"[{self.pid}] FAIL at {f.point} key={f.key}: {json.dumps(f.witness, default=repr)[:600]}")
            for p in replay_paths:
                print(f"VIOLATION property={self.pid} replay={p}")
            return 1
        if self.inconclusive_reasons:
            for r in self.inconclusive_reasons[:10]:
                print(f"INCONCLUSIVE property={self.pid} reason={r}")
            return 2
        print(f"[{self.pid}] HELD on everything observed")
        return 0


def hsig(*parts: Any) -> int:
    """Cheap signature (PYTHONHASHSEED is pinned by ./check) for hashable parts."""
    try:
        return hash(parts) & 0xFFFFFFFFFFFFFFFF
    except TypeError:
        return sig_of(parts)


def call(fn: Callable, *a: Any, **kw: Any):
    """Run library code; returns (result, exception)."""
    try:
        return fn(*a, **kw), None
    except Exception as e:  # noqa: BLE001 - everything the library raises is an observation
        return None, e
