"""Runtime-monitoring harness for odc-geo (see /verif/DESIGN.md)."""
