"""pytest plugin: run the repository's own tests with the post-condition monitors attached (suite-under-monitor).

Test outcomes are ignored; only monitor verdicts are harvested.  Usage (from vf.run for the thorough tier):

    VF_SUITE_PROPS=C02,C07 VF_SUITE_OUT=/path/out.json  python -m pytest -p vf.suite_plugin -q -p no:cacheprovider <repo>/tests
"""
from __future__ import annotations

import importlib
import json
import os

_mons = {}


def pytest_configure(config):
    from vf.kernel import Monitor

    props = [p for p in os.environ.get("VF_SUITE_PROPS", "").split(",") if p]
    for pid in props:
        mod = importlib.import_module(f"vf.props.{pid.lower()}")
        mon = Monitor(pid, "thorough", int(os.environ.get("VERIF_SEED", "0") or 0))
        mod.install(mon)
        if hasattr(mod, "_seen_consistency"):
            mod._seen_consistency.clear()
        _mons[pid] = mon


def pytest_unconfigure(config):
    from vf.attach import detach_all

    detach_all()
    out = os.environ.get("VF_SUITE_OUT")
    if out:
        with open(out, "w") as f:
            json.dump({pid: m.dump() for pid, m in _mons.items()}, f, default=repr)
