"""Entry point:  python -m vf.run C07 --tier quick|thorough [--replay PATH] [--shard k/N --out FILE]

Property modules live in vf/props/cNN.py and expose

    PID, RULE, ASSUMPTIONS
    SHARDS = {"quick": 1, "thorough": 16}            (optional)
    run(mon, tier, seed, shard, nshards)             drives the workload, reports to `mon`
    replay(mon, case)                                re-runs one recorded case

The parent of a sharded run starts one subprocess per shard with
subprocess.run(timeout=) (never multiprocessing.Pool: a dead child must not hang
the run), merges their monitors and writes evidence.  A shard that crashes or
times out makes the run inconclusive, never violated.
"""
from __future__ import annotations

import argparse
import importlib
import json
import os
import subprocess
import sys
import time
import warnings
from concurrent.futures import ThreadPoolExecutor
from pathlib import Path

from .kernel import EarlyStop, ROOT, WORK_DIR, Monitor

WATCHDOG = {"quick": 600, "thorough": 3600}


def _load(pid: str):
    return importlib.import_module(f"vf.props.{pid.lower()}")


def _quiet():
    warnings.filterwarnings("ignore")
    import logging

    logging.disable(logging.CRITICAL)


def run_shard(mod, mon: Monitor, tier: str, seed: int, shard: int, nshards: int) -> None:
    try:
        mod.run(mon, tier, seed, shard, nshards)
    except Exception as e:  # harness failure -> inconclusive
        mon.error("harness", e)
    except EarlyStop:
        try:  # monitors attached by the property module are taken off again (its own finally clauses have run already)
            from .attach import detach_all

            detach_all()
        except Exception:  # noqa: BLE001
            pass
    from . import gen

    if gen.CHURN["crs"]:
        mon.obs["throw_away_crs_objects_between_cases"] += gen.CHURN["crs"]
    if gen.WARM.get("warmed_operands"):
        mon.obs["operands_looked_at_before_being_combined"] += gen.WARM["warmed_operands"]
    if gen.WARM["views"]:
        mon.obs["geoboxes_handed_over_as_resized_views_of_used_parents"] += gen.WARM["views"]


def suite_under_monitor(pid: str, mon: Monitor) -> None:
    """Auxiliary workload (thorough tier): the repository's own tests with this property's monitors attached.
    Test outcomes are ignored, only monitor verdicts are harvested; a run that cannot be harvested is a note, not a verdict."""
    repo = Path(os.environ.get("VERIF_REPO", "/repo"))
    if not (repo / "tests").is_dir():
        mon.notes["suite_under_monitor"] = "no tests directory beside the tree under check"
        return
    WORK_DIR.mkdir(parents=True, exist_ok=True)
    out = WORK_DIR / f"suite-{pid}-{os.getpid()}.json"
    env = dict(os.environ, VF_SUITE_PROPS=pid, VF_SUITE_OUT=str(out))
    try:
        p = subprocess.run([sys.executable, "-m", "pytest", "-p", "vf.suite_plugin", "-q", "-p", "no:cacheprovider", "--timeout=900", "tests"], cwd=str(repo), env=env, capture_output=True, text=True, timeout=1800)
        d = json.loads(out.read_text())[pid]
        n0 = sum(mon.evals.values())
        # keep floors of the main workload: suite observations only add
        d["floors"] = {}
        mon.absorb(d)
        mon.notes["suite_under_monitor"] = {"evaluations": sum(mon.evals.values()) - n0, "pytest": (p.stdout.strip().splitlines() or ["?"])[-1][:120]}
    except Exception as e:  # noqa: BLE001
        mon.notes["suite_under_monitor"] = f"not harvested: {type(e).__name__}: {e}"[:300]
    finally:
        try:
            out.unlink()
        except OSError:
            pass


def main(argv=None) -> int:
    ap = argparse.ArgumentParser()
    ap.add_argument("pid")
    ap.add_argument("--tier", default=os.environ.get("VERIF_TIER", "quick"), choices=["quick", "thorough"])
    ap.add_argument("--replay")
    ap.add_argument("--shard")
    ap.add_argument("--out")
    ap.add_argument("--jobs", type=int, default=int(os.environ.get("VERIF_JOBS", "16")))
    a = ap.parse_args(argv)
    seed = int(os.environ.get("VERIF_SEED", "0") or 0)
    pid = a.pid.upper()
    _quiet()
    mod = _load(pid)
    level = getattr(mod, "LEVEL", "exploration")

    if a.replay:
        doc = json.loads(Path(a.replay).read_text())
        mon = Monitor(pid, doc.get("tier", "quick"), int(doc.get("seed", 0)))
        mon.case = doc.get("case")
        try:
            mod.replay(mon, doc.get("case"))
        except Exception as e:
            mon.error("replay", e)
        # a replay never rewrites evidence; print the outcome only
        from .kernel import load_known

        known = load_known(pid)
        bad = [f for f in mon.failures if f.key not in known]
        print(f"[{pid}] replay evaluations={sum(mon.evals.values())} failures={mon.n_fail} errors={mon.n_errors}")
        for f in mon.failures[:5]:
            print(f"[{pid}] FAIL at {f.point} key={f.key}: {json.dumps(f.witness, default=repr)[:600]}")
        if bad:
            print(f"VIOLATION property={pid} replay={a.replay}")
            return 1
        if mon.n_errors or not sum(mon.evals.values()):
            for e in mon.errors[:3]:
                print(e["error"])
            print(f"INCONCLUSIVE property={pid} reason=replay did not evaluate cleanly")
            return 2
        print(f"[{pid}] replay: no violation on the current tree")
        return 0

    if a.shard:
        k, n = map(int, a.shard.split("/"))
        mon = Monitor(pid, a.tier, seed, shard=k)
        mon.deadline = time.time() + WATCHDOG[a.tier]
        run_shard(mod, mon, a.tier, seed, k, n)
        Path(a.out).write_text(json.dumps(mon.dump(), default=repr))
        return 0

    nshards = getattr(mod, "SHARDS", {}).get(a.tier, 1)
    mon = Monitor(pid, a.tier, seed)
    mon.deadline = time.time() + WATCHDOG[a.tier]
    if nshards <= 1:
        run_shard(mod, mon, a.tier, seed, 0, 1)
    else:
        work = WORK_DIR / f"{pid}-{os.getpid()}"
        work.mkdir(parents=True, exist_ok=True)
        env = dict(os.environ)

        def one(k: int):
            out = work / f"shard{k}.json"
            cmd = [sys.executable, "-X", "faulthandler", "-m", "vf.run", pid, "--tier", a.tier,
                   "--shard", f"{k}/{nshards}", "--out", str(out)]
            try:
                p = subprocess.run(cmd, cwd=str(ROOT), env=env, timeout=WATCHDOG[a.tier], capture_output=True, text=True)
            except subprocess.TimeoutExpired:
                return k, None, "watchdog timeout"
            if p.returncode != 0 or not out.exists():
                return k, None, f"exit {p.returncode}: {(p.stderr or '')[-800:]}"
            return k, json.loads(out.read_text()), None

        try:
            with ThreadPoolExecutor(max_workers=max(1, min(a.jobs, nshards))) as ex:
                for k, d, err in ex.map(one, range(nshards)):
                    if d is None:
                        mon.inconclusive(f"shard {k} failed: {err}")
                    else:
                        mon.absorb(d)
        finally:
            import shutil

            shutil.rmtree(work, ignore_errors=True)
        mon.notes["shards"] = nshards

    if a.tier == "thorough" and getattr(mod, "SUITE_UNDER_MONITOR", False):
        suite_under_monitor(pid, mon)
    if hasattr(mod, "post_merge"):
        mod.post_merge(mon, a.tier)
    return mon.finish(mod.RULE, list(mod.ASSUMPTIONS), level=level)


if __name__ == "__main__":
    sys.exit(main())
