"""Harness-side instrumentation: wrap real odc-geo functions/methods with monitors.

`attach(owner, name, post=..., pre=...)` replaces `owner.name` by a wrapper and
then rebinds *every* reference to the original object found in any loaded
`odc.geo*` module namespace or class namespace (modules bind helpers with
`from .math import snap_grid`, so patching only the defining module would be
bypassed).  Nothing is written to /repo.

Semantics follow icontract's snapshot/ensure:  pre(args, kwargs) -> False means
"outside the property's domain" (counted, not judged);  snapshot(args, kwargs)
is taken before the call;  post(args, kwargs, result, exc, snap) is evaluated
after it.  A thread-local flag stops oracles that call library code themselves
from re-entering monitors.  Exceptions raised by pre/snapshot/post are reported
through `on_error` and never propagate into the code under observation.
"""
from __future__ import annotations

import functools
import sys
import threading
import types
from typing import Any, Callable, Dict, List, Optional, Tuple

_tls = threading.local()
_attached: List[Tuple[Any, str, Any, Any]] = []  # (owner, name, original_raw, wrapper_raw)
_rebound: List[Tuple[dict | type, str, Any]] = []
calls: Dict[str, int] = {}


def in_oracle() -> bool:
    return getattr(_tls, "depth", 0) > 0


class oracle_section:
    """Context manager: library calls made inside are not monitored."""

    def __enter__(self):
        _tls.depth = getattr(_tls, "depth", 0) + 1

    def __exit__(self, *a):
        _tls.depth -= 1
        return False


def _namespaces():
    for mname, mod in list(sys.modules.items()):
        if mod is None or not (mname == "odc.geo" or mname.startswith("odc.geo.")):
            continue
        yield mod.__dict__, None
        for v in list(mod.__dict__.values()):
            if isinstance(v, type) and getattr(v, "__module__", "").startswith("odc.geo"):
                yield v.__dict__, v


def attach(owner: Any, name: str, *, post: Optional[Callable] = None, pre: Optional[Callable] = None,
           snapshot: Optional[Callable] = None, on_error: Optional[Callable] = None, label: Optional[str] = None,
           consume: bool = False, around: Optional[Callable] = None) -> str:
    """Wrap owner.name; returns the label under which calls are counted."""
    raw = owner.__dict__[name] if hasattr(owner, "__dict__") and name in owner.__dict__ else getattr(owner, name)
    kind = "plain"
    fn = raw
    if isinstance(raw, staticmethod):
        kind, fn = "static", raw.__func__
    elif isinstance(raw, classmethod):
        kind, fn = "class", raw.__func__
    elif isinstance(raw, property):
        kind, fn = "property", raw.fget
    label = label or f"{getattr(owner, '__name__', owner)}.{name}"
    calls.setdefault(label, 0)

    @functools.wraps(fn)
    def wrapper(*args, **kwargs):
        if in_oracle():
            return fn(*args, **kwargs)
        calls[label] += 1
        snap = None
        judged = True
        _tls.depth = getattr(_tls, "depth", 0) + 1
        try:
            if pre is not None and not pre(args, kwargs):
                judged = False
            elif snapshot is not None:
                snap = snapshot(args, kwargs)
        except Exception as e:  # oracle broke
            judged = False
            if on_error:
                on_error(label, e)
        finally:
            _tls.depth -= 1
        result, exc = None, None
        try:
            if around is not None and judged:
                with around() as ctx:
                    result = fn(*args, **kwargs)
                snap = (snap, ctx)
            else:
                result = fn(*args, **kwargs)
            if consume and isinstance(result, types.GeneratorType):
                result = list(result)
        except Exception as e:
            exc = e
            if around is not None and judged:
                snap = (snap, None)
        if judged and post is not None:
            _tls.depth = getattr(_tls, "depth", 0) + 1
            _tls.call = (owner, name, args, kwargs)
            try:
                post(args, kwargs, result, exc, snap)
            except Exception as e:
                if on_error:
                    on_error(label, e)
            finally:
                _tls.depth -= 1
                _tls.call = None
        if exc is not None:
            raise exc
        if consume and isinstance(result, list):
            return iter(result)
        return result

    wrapper.__vf_original__ = fn  # type: ignore[attr-defined]
    if kind == "static":
        new: Any = staticmethod(wrapper)
    elif kind == "class":
        new = classmethod(wrapper)
    elif kind == "property":
        new = property(wrapper, raw.fset, raw.fdel, raw.__doc__)
    else:
        new = wrapper

    if isinstance(owner, type):
        setattr(owner, name, new)
    else:
        setattr(owner, name, new)
    _attached.append((owner, name, raw, new))

    # rebind every alias of the original function object
    if kind == "plain":
        for ns, cls in _namespaces():
            for k, v in list(ns.items()):
                if v is raw and not (ns is getattr(owner, "__dict__", None) and k == name):
                    if cls is not None:
                        setattr(cls, k, new)
                    else:
                        ns[k] = new
                    _rebound.append((cls if cls is not None else ns, k, raw))
    return label


def detach_all() -> None:
    while _rebound:
        ns, k, raw = _rebound.pop()
        if isinstance(ns, type):
            setattr(ns, k, raw)
        else:
            ns[k] = raw
    while _attached:
        owner, name, raw, _new = _attached.pop()
        setattr(owner, name, raw)


def zero_call_points() -> List[str]:
    return [k for k, v in calls.items() if v == 0]


def current_case():
    """Replayable description of the call whose post-condition is being evaluated."""
    import base64
    import pickle

    c = getattr(_tls, "call", None)
    if c is None:
        return None
    owner, name, args, kwargs = c
    qual = owner.__name__ if isinstance(owner, types.ModuleType) else f"{owner.__module__}:{owner.__qualname__}"
    try:
        blob = base64.b64encode(pickle.dumps((args, kwargs), protocol=4)).decode()
        if len(blob) > 400_000:
            blob = None
    except Exception:
        blob = None
    return {"kind": "call", "owner": qual, "name": name, "blob": blob, "repr": repr((args, kwargs))[:1500]}


def replay_call(case) -> bool:
    """Re-run a call recorded by current_case() (monitors must already be installed)."""
    import base64
    import importlib
    import pickle

    if not case or case.get("kind") != "call" or not case.get("blob"):
        return False
    qual = case["owner"]
    if ":" in qual:
        mname, cname = qual.split(":")
        owner = importlib.import_module(mname)
        for part in cname.split("."):
            owner = getattr(owner, part)
    else:
        owner = importlib.import_module(qual)
    args, kwargs = pickle.loads(base64.b64decode(case["blob"]))
    fn = getattr(owner, case["name"])
    try:
        r = fn(*args, **kwargs)
        if isinstance(r, types.GeneratorType):
            list(r)
    except Exception:
        pass
    return True
