"""Seeded, class-stratified workload generators shared by the property modules."""
from __future__ import annotations

import math
import random
from typing import Optional, Tuple

from affine import Affine

AFFINE_FAMILIES = ("north-up", "mirror-x", "mirror-y", "mirror-xy", "non-square", "rotated", "sheared")

# (crs, lon0, lat0, lon1, lat1): windows well inside each CRS's area of use
CRS_WINDOWS = [
    ("EPSG:4326", -170, -75, 170, 75),
    ("EPSG:3857", -170, -75, 170, 75),
    ("EPSG:6933", -170, -75, 170, 75),
    ("EPSG:3577", 115, -40, 150, -12),
    ("EPSG:32633", 12.5, 5, 17.5, 70),
    ("EPSG:32755", 144.5, -60, 149.5, -5),
    ("EPSG:32610", -125.5, 10, -120.5, 70),
    ("EPSG:3035", -5, 38, 30, 65),
    ("EPSG:27700", -6, 50.2, 1.5, 58),
    ("EPSG:2193", 167.5, -46, 177.5, -35.5),
]
# ellipsoid-only (datum-less) PROJ definitions next to the registered CRS they resemble: same projection parameters, different
# transformation to WGS84 (no datum shift).  Both are used in the same process, in random order, through the same cached machinery.
LOOKALIKES = [
    ("+proj=tmerc +lat_0=49 +lon_0=-2 +k=0.9996012717 +x_0=400000 +y_0=-100000 +ellps=airy +units=m +no_defs", "EPSG:27700", (-6, 50.2, 1.5, 58)),
    ("+proj=tmerc +lat_0=0 +lon_0=9 +k=1 +x_0=3500000 +y_0=0 +ellps=bessel +units=m +no_defs", "EPSG:31467", (7.6, 47.5, 10.4, 55)),
    ("+proj=utm +zone=33 +ellps=intl +units=m +no_defs", "EPSG:23033", (12.5, 36, 17.5, 70)),
    ("+proj=tmerc +lat_0=0 +lon_0=173 +k=0.9996 +x_0=1600000 +y_0=10000000 +ellps=GRS80 +units=m +no_defs", "EPSG:2193", (167.5, -46, 177.5, -35.5)),
    ("+proj=laea +lat_0=52 +lon_0=10 +x_0=4321000 +y_0=3210000 +ellps=GRS80 +units=m +no_defs", "EPSG:3035", (-5, 38, 30, 65)),
    ("+proj=sinu +lon_0=0 +R=6371007.181 +units=m +no_defs", "EPSG:6933", (-170, -75, 170, 75)),
]
DATUM_SHIFT = {"EPSG:27700"}
GLOBAL_CRS = ("EPSG:4326", "EPSG:3857", "EPSG:6933")


def pixel_size(rng: random.Random, geographic: bool = False) -> float:
    if geographic:
        return rng.choice([0.00025, 0.001, 0.01, 0.1, 0.25, 1 / 3600, 0.5])
    return rng.choice([10.0, 30.0, 0.5, 100.0, 250.0, 1.0, 1000.0, 20.0, 1e-4 * 8, 1e4])


def affine(rng: random.Random, fam: Optional[str] = None, res: Optional[float] = None, mag: Optional[float] = None,
           aligned: bool = False) -> Tuple[Affine, str]:
    fam = fam or rng.choice(AFFINE_FAMILIES)
    r = res if res is not None else pixel_size(rng)
    mag = mag if mag is not None else rng.choice([0.0, 1e3, 1e5, 1e6, 1e7])
    tx, ty = rng.uniform(-mag, mag), rng.uniform(-mag, mag)
    if aligned or rng.random() < 0.4:
        tx, ty = round(tx / r) * r, round(ty / r) * r
    if fam == "north-up":
        A = Affine(r, 0, tx, 0, -r, ty)
    elif fam == "mirror-x":
        A = Affine(-r, 0, tx, 0, -r, ty)
    elif fam == "mirror-y":
        A = Affine(r, 0, tx, 0, r, ty)
    elif fam == "mirror-xy":
        A = Affine(-r, 0, tx, 0, r, ty)
    elif fam == "non-square":
        k = rng.choice([2, 0.5, 3, 1.25, 10])
        A = Affine(r, 0, tx, 0, -r * k, ty)
    elif fam == "rotated":
        ang = rng.choice([rng.uniform(-180, 180), 30, 45, 90, -90, 180, 1, -0.1])
        A = Affine.translation(tx, ty) * Affine.rotation(ang) * Affine.scale(r, -r * rng.choice([1, 1, 2]))
    elif fam == "sheared":
        A = Affine.translation(tx, ty) * Affine.rotation(rng.uniform(-30, 30)) * Affine.shear(rng.uniform(-25, 25), rng.choice([0, rng.uniform(-10, 10)])) * Affine.scale(r, -r)
    else:
        raise ValueError(fam)
    return A, fam


def shape(rng: random.Random, lo: int = 1, hi: int = 64) -> Tuple[int, int]:
    k = rng.random()
    if k < 0.08:
        return (1, rng.randint(lo, hi))
    if k < 0.16:
        return (rng.randint(lo, hi), 1)
    if k < 0.2:
        return (1, 1)
    return (rng.randint(lo, hi), rng.randint(lo, hi))


CRS_TAGS = [None, "EPSG:4326", "EPSG:3857", "EPSG:32633", "EPSG:3577"]


def geobox(rng: random.Random, fam: Optional[str] = None, crs="EPSG:3857", shp: Optional[Tuple[int, int]] = None, **kw):
    from odc.geo.geobox import GeoBox

    A, fam = affine(rng, fam, **kw)
    return warm_view(GeoBox(shp or shape(rng), A, crs)), fam


def window_geobox(rng: random.Random, entry, npix: Tuple[int, int] = (32, 32), extent_deg: Optional[float] = None, fam: str = "north-up"):
    """GeoBox in CRS `entry[0]` whose footprint lies inside the lon/lat window of the entry."""
    import pyproj
    from odc.geo.geobox import GeoBox

    crs, lon0, lat0, lon1, lat1 = entry
    crs_churn()
    ext = extent_deg if extent_deg is not None else rng.choice([0.05, 0.2, 1.0, 2.0])
    ext = min(ext, (lon1 - lon0) * 0.45, (lat1 - lat0) * 0.45)
    lon = rng.uniform(lon0 + ext, lon1 - ext)
    lat = rng.uniform(lat0 + ext, lat1 - ext)
    tr = transformer("EPSG:4326", crs)
    xs, ys = tr.transform([lon - ext / 2, lon + ext / 2, lon - ext / 2, lon + ext / 2], [lat - ext / 2, lat - ext / 2, lat + ext / 2, lat + ext / 2])
    x0, x1, y0, y1 = min(xs), max(xs), min(ys), max(ys)
    ny, nx = npix
    rx, ry = (x1 - x0) / nx, (y1 - y0) / ny
    r = min(rx, ry)  # square pixels, box stays inside the window
    if fam == "north-up":
        A = Affine(r, 0, x0, 0, -r, y0 + r * ny)
    elif fam == "rotated":
        cx, cy = (x0 + x1) / 2, (y0 + y1) / 2
        A = Affine.translation(cx, cy) * Affine.rotation(rng.uniform(-40, 40)) * Affine.translation(-r * nx / 2, r * ny / 2) * Affine.scale(r * 0.7, -r * 0.7)
    elif fam == "mirror-y":
        A = Affine(r, 0, x0, 0, r, y0)
    else:
        raise ValueError(fam)
    return warm_view(GeoBox((ny, nx), A, crs)), (lon, lat, ext)


def aff6(A) -> tuple:
    return tuple(A)[:6]


# user-defined CRSs a raster may carry: no authority code; the first ones are what PROJ's identification calls "probably EPSG:xxxx" (same projection, datum-less ellipsoid)
CUSTOM_RASTER_CRS = [spec for spec, _, _ in LOOKALIKES] + ["+proj=aea +lat_0=-15 +lon_0=125 +lat_1=-18 +lat_2=-36 +x_0=0 +y_0=0 +ellps=GRS80 +units=m +no_defs",
                                                             "+proj=utm +zone=55 +south +ellps=GRS80 +units=m +no_defs"]


def crs_origin(spec: str, r: float):
    """Where to put a small raster in CRS `spec` (top-left world coordinates): inside the CRS's sensible range."""
    for sp, _, (lon0, lat0, lon1, lat1) in LOOKALIKES:
        if sp == spec:
            x, y = transformer("EPSG:4326", spec).transform((lon0 + lon1) / 2, (lat0 + lat1) / 2)
            return round(x / r) * r, round(y / r) * r
    if spec.startswith("+proj=utm"):
        return 400_000.0, 6_000_000.0
    if spec.startswith("+proj=aea"):
        return 100_000.0, -2_000_000.0
    return 100 * r, 500 * r


def crs_read_back_ok(rio_crs, spec: str, x: float, y: float) -> bool:
    """Does the CRS found in a file denote what the array was tagged with?  Authority CRSs must come back with their code; any CRS must have the same ellipsoid and must put the
    map point (x, y) at the same longitude/latitude (1e-7 degrees) - a datum-less definition replaced by a "close" registered CRS moves points by tens to hundreds of metres."""
    import pyproj

    if rio_crs is None:
        return False
    want = pyproj.CRS.from_user_input(spec)
    got = pyproj.CRS.from_wkt(rio_crs.to_wkt())
    if spec.upper().startswith("EPSG:") and rio_crs.to_epsg() != int(spec.split(":")[1]):
        return False
    ew, eg = want.ellipsoid, got.ellipsoid
    if ew is not None and eg is not None and (abs(ew.semi_major_metre - eg.semi_major_metre) > 1e-6 or abs((ew.inverse_flattening or 0) - (eg.inverse_flattening or 0)) > 1e-9):
        return False
    if (want.to_epsg(100) is None) != (got.to_epsg(100) is None):  # an authority-less definition stays authority-less (and vice versa)
        return False
    p1 = transformer(want.to_wkt(), "EPSG:4326").transform(x, y)
    p2 = transformer(got.to_wkt(), "EPSG:4326").transform(x, y)
    return bool(all(math.isfinite(v) for v in (*p1, *p2)) and max(abs(p1[0] - p2[0]), abs(p1[1] - p2[1])) <= 1e-7)


ARRAY_FORMS = ("plain", "plain", "fortran", "negative-stride", "strided", "read-only", "read-only-view")


def array_form(data, form: str):
    """The same values in another memory layout: Fortran order, a reversed or strided view of a larger buffer, a read-only array (what np.load(mmap_mode='r'), zarr, a
    broadcast constant or a frozen cache hand over).  Returns an array that compares equal to `data`."""
    import numpy as np

    if form == "fortran":
        return np.asfortranarray(data)
    if form == "negative-stride":
        return np.ascontiguousarray(data[..., ::-1])[..., ::-1]
    if form == "strided":
        big = np.zeros(tuple(2 * n for n in data.shape), dtype=data.dtype)
        view = big[tuple(slice(None, None, 2) for _ in data.shape)]
        view[...] = data
        return view
    if form == "read-only":
        out = data.copy()
        out.flags.writeable = False
        return out
    if form == "read-only-view":
        base = data.copy()
        base.flags.writeable = False
        return base[...]
    return data


CHURN = {"n": 0, "crs": 0}
_churn_rng = random.Random(0xC4A5)


def crs_churn(k: int = 3, limit: int = 1200) -> None:
    """Background noise of a long-running process: every cross-CRS case is preceded by a few throw-away CRSs (per-tile local projections that are used once and
    dropped), one of which also asks for a transformer.  On the unchanged tree this is irrelevant to every verdict; it only matters for code that remembers things
    about CRS objects under a bound or by object identity - and then the regular oracles of the calling check see the consequences.  Private RNG, so generator
    streams are unchanged; capped per process (the parse cache of the unchanged tree keeps every CRS alive)."""
    if CHURN["n"] >= limit:
        return
    CHURN["n"] += 1
    try:
        from odc.geo.crs import CRS

        for i in range(k):
            lon0, lat0 = _churn_rng.uniform(-170, 170), _churn_rng.uniform(-70, 70)
            c = CRS(f"+proj={_churn_rng.choice(['laea', 'tmerc', 'aeqd'])} +lat_0={lat0:.5f} +lon_0={lon0:.5f} +x_0=0 +y_0=0 +datum=WGS84 +units=m +no_defs")
            CHURN["crs"] += 1
            if i == 0:
                c.transformer_to_crs(CRS("EPSG:4326"))(1000.0, 2000.0)
    except Exception:  # noqa: BLE001 - noise must never become a verdict
        pass


WARM = {"views": 0, "plain": 0}


def warm(g, full: bool = True) -> None:
    """What code does with a raster before deriving another one from it: looks at it (fills whatever the object caches lazily)."""
    fs = [lambda: g.extent, lambda: g.boundingbox, lambda: g.resolution, lambda: hash(g), lambda: g.alignment, lambda: g.dimensions, lambda: g.boundary(2), lambda: g.boundary(3)]
    if full:  # the expensive looks (projected outlines, coordinate arrays, reprs) for a fifth of the parents
        fs += [lambda: g.geographic_extent, lambda: g.footprint("EPSG:4326", 2), lambda: repr(g), lambda: g.coordinates, lambda: g.center_pixel]
    for f in fs:
        try:
            f()
        except Exception:  # noqa: BLE001 - rotated boxes have no coordinates, boxes without CRS no geographic extent
            pass


def maybe_warm(*boxes, p: float = 0.5) -> int:
    """Operands that have been looked at before they are combined (their lazy attributes - footprint, hash, ... - are filled): decided per box by a private RNG keyed by
    the box, so generator streams are unchanged.  Returns how many were warmed."""
    import hashlib

    n = 0
    for g in boxes:
        try:
            h = int.from_bytes(hashlib.blake2b(repr((aff6(g.affine), tuple(g.shape), "w")).encode(), digest_size=8).digest(), "big")
        except Exception:  # noqa: BLE001
            continue
        if (h % 1000) / 1000.0 < p:
            warm(g, full=(h % 7 == 0))
            n += 1
    WARM["warmed_operands"] = WARM.get("warmed_operands", 0) + n
    return n


def warm_view(g):
    """The same GeoBox (identical shape, affine and CRS), but - for about a third of the boxes - obtained the way real code obtains one: as a resized view
    (expand / crop / pad_wh / [:ny, :nx]) of another GeoBox that has already been looked at.  Whatever the parent cached about *itself* must not travel to the view.
    The decision comes from a private RNG keyed by the box, so generator streams are unchanged.  VERIF_NO_WARM=1 switches it off (debugging)."""
    import hashlib
    import os

    if os.environ.get("VERIF_NO_WARM"):
        return g
    try:
        ny, nx = g.shape
        r = random.Random(int.from_bytes(hashlib.blake2b(repr((aff6(g.affine), ny, nx, str(g.crs))).encode(), digest_size=8).digest(), "big"))
        if r.random() >= 0.34 or ny < 1 or nx < 1:
            WARM["plain"] += 1
            return g
        k, j = r.randint(1, 3), r.randint(1, 3)
        how = r.choice(["expand", "crop", "pad_wh", "slice", "right-of-left", "bottom-of-top", "flip-twice", "translate-back"])
        full = r.random() < 0.2
        if how in ("expand", "pad_wh") and (ny - k < 1 or nx - j < 1):
            how = "crop"
        if how == "expand":
            parent = g.crop((ny - k, nx - j))
            warm(parent, full)
            out = parent.expand((ny, nx))
        elif how == "pad_wh":
            parent = g.crop((ny - k, nx - j))
            warm(parent, full)
            out = parent.pad_wh(nx, ny)
        elif how == "crop":
            parent = g.expand((ny + k, nx + j))
            warm(parent, full)
            out = parent.crop((ny, nx))
        elif how == "slice":
            parent = g.expand((ny + k, nx + j))
            warm(parent, full)
            out = parent[:ny, :nx]
        elif how == "right-of-left":
            parent = g.left
            warm(parent, full)
            out = parent.right
        elif how == "bottom-of-top":
            parent = g.top
            warm(parent, full)
            out = parent.bottom
        elif how == "flip-twice":
            parent = g.flipx() if k % 2 else g.flipy()
            warm(parent, full)
            out = parent.flipx() if k % 2 else parent.flipy()
        else:
            parent = g.translate_pix(-k * nx, j)
            warm(parent, full)
            out = parent.translate_pix(k * nx, -j)
        if tuple(out.shape) != (ny, nx) or aff6(out.affine) != aff6(g.affine) or out.crs != g.crs or type(out) is not type(g):
            WARM["plain"] += 1  # a view that is not what it should be is C02's business
            return g
        WARM["views"] += 1
        return out
    except Exception:  # noqa: BLE001
        WARM["plain"] += 1
        return g


def gbox_desc(g) -> dict:
    """JSON description of a GeoBox for witnesses/samples."""
    try:
        return {"shape": list(g.shape), "affine": list(aff6(g.affine)), "crs": None if g.crs is None else str(g.crs)[:40]}
    except Exception:
        return {"repr": repr(g)[:200]}


def gbox_close(a, b, tol_px: float = 1e-6) -> bool:
    """Same shape, equal CRS, and the four image corners agree to tol_px pixels (+ float resolution of the coordinates)."""
    import numpy as np

    if tuple(a.shape) != tuple(b.shape) or a.crs != b.crs:
        return False
    ny, nx = a.shape
    A = np.array(tuple(a.affine)[:6], dtype="float64").reshape(2, 3)
    B = np.array(tuple(b.affine)[:6], dtype="float64").reshape(2, 3)
    if not (np.all(np.isfinite(A)) and np.all(np.isfinite(B))):
        return False
    corners = np.array([[0, 0, 1], [nx, 0, 1], [0, ny, 1], [nx, ny, 1]], dtype="float64").T
    pa, pb = A @ corners, B @ corners
    M = A[:, :2]
    det = M[0, 0] * M[1, 1] - M[0, 1] * M[1, 0]
    if det == 0:
        return bool(np.array_equal(A, B))
    d = np.linalg.solve(M, pa - pb)  # difference in pixels of `a`
    px = math.sqrt(abs(det))
    mag = max(1.0, float(np.abs(pa).max()), float(np.abs(pb).max()))
    tol = tol_px + 64 * math.ulp(mag) / px
    return bool(np.abs(d).max() <= tol)


import functools


@functools.lru_cache(maxsize=256)
def transformer(src: str, dst: str):
    """The oracle's own pyproj transformer (never the library's cached one)."""
    import pyproj

    return pyproj.Transformer.from_crs(src, dst, always_xy=True)
