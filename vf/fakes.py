"""Recording stand-ins observed by the history checkers: a PartsWriter, a fake S3 client, an audit-hook file-system recorder."""
from __future__ import annotations

import itertools
import random
import sys
import threading
import time
from typing import Any, Dict, List, Optional


class RecWriter:
    """PartsWriter that records every call at the boundary (thread safe, optional seeded delays)."""

    def __init__(self, m: int = 10, min_part: int = 1, max_part: int = 10_000, max_write_sz: int = 1 << 30, jitter_seed: Optional[int] = None):
        self._m, self._min_part, self._max_part, self._max_write_sz = m, min_part, max_part, max_write_sz
        self.calls: List[tuple] = []  # (part, bytes, sequence number, thread id)
        self.final: List[List[Dict[str, Any]]] = []
        self._lock = threading.Lock()
        self._seq = itertools.count()
        self._rng = random.Random(jitter_seed) if jitter_seed is not None else None

    @property
    def min_write_sz(self) -> int:
        return self._m

    @property
    def max_write_sz(self) -> int:
        return self._max_write_sz

    @property
    def min_part(self) -> int:
        return self._min_part

    @property
    def max_part(self) -> int:
        return self._max_part

    def __call__(self, part: int, data) -> Dict[str, Any]:
        if self._rng is not None:
            with self._lock:
                d = self._rng.choice([0, 0, 0.0005, 0.002])
            if d:
                time.sleep(d)
        with self._lock:
            self.calls.append((int(part), bytes(data), next(self._seq), threading.get_ident()))
        return {"PartNumber": int(part), "Size": len(data), "ETag": f"etag-{part}"}

    def finalise(self, parts: List[Dict[str, Any]]) -> Any:
        with self._lock:
            self.final.append([dict(p) for p in parts])
        return "finalised"

    def __dask_tokenize__(self):
        return ("RecWriter", id(self))


class FakeS3:
    """boto3-client look-alike with one process-global, ordered log."""

    def __init__(self, create_delay: float = 0.0, hook=None):
        self.log: List[tuple] = []
        self._lock = threading.Lock()
        self._ids = itertools.count(1)
        self.create_delay = create_delay
        self.hook = hook  # called as hook(event name) *outside* the lock: a yield point for the schedule controller

    def _rec(self, *ev):
        with self._lock:
            self.log.append(ev)

    def create_multipart_upload(self, Bucket, Key, **kw):
        if self.hook:
            self.hook("create:enter")
        if self.create_delay:
            time.sleep(self.create_delay)
        with self._lock:
            uid = f"upload-{next(self._ids)}"
            self.log.append(("create", Bucket, Key, uid))
        if self.hook:
            self.hook("create:exit")
        return {"UploadId": uid}

    def upload_part(self, Body, Bucket, Key, UploadId, PartNumber, **kw):
        if self.hook:
            self.hook("upload_part")
        self._rec("upload_part", Bucket, Key, UploadId, int(PartNumber), len(Body))
        return {"ETag": f"etag-{PartNumber}"}

    def complete_multipart_upload(self, Bucket, Key, UploadId, MultipartUpload, **kw):
        self._rec("complete", Bucket, Key, UploadId, [p["PartNumber"] for p in MultipartUpload["Parts"]])
        return {"ETag": "final", "VersionId": "1"}

    def abort_multipart_upload(self, Bucket, Key, UploadId, **kw):
        self._rec("abort", Bucket, Key, UploadId)
        return {}

    def list_multipart_uploads(self, Bucket, **kw):
        return {"Uploads": []}

    def put_object(self, **kw):
        self._rec("put_object", kw.get("Bucket"), kw.get("Key"), len(kw.get("Body", b"")))
        return {"ETag": "put"}


class FsAudit:
    """sys.addaudithook based recorder of file-system events (audit hooks cannot be removed: one global instance, switchable)."""

    _installed = False
    _active: Optional["FsAudit"] = None

    def __init__(self):
        self.events: List[tuple] = []

    @classmethod
    def _hook(cls, event, args):
        a = cls._active
        if a is None:
            return
        if event == "open":
            path, mode, flags = (list(args) + [None, None, None])[:3]
            if isinstance(path, (str, bytes)) or hasattr(path, "__fspath__"):
                a.events.append(("open", str(path), mode if isinstance(mode, str) else None, flags))
        elif event in ("os.remove", "os.rename", "os.rmdir", "os.mkdir", "os.truncate", "shutil.rmtree", "os.replace"):
            a.events.append((event,) + tuple(str(x) for x in args[:2] if x is not None))

    def __enter__(self):
        if not FsAudit._installed:
            sys.addaudithook(FsAudit._hook)
            FsAudit._installed = True
        FsAudit._active = self
        return self

    def __exit__(self, *a):
        FsAudit._active = None
        return False

    def writes_to(self, path: str) -> List[tuple]:
        path = str(path)
        out = []
        for ev in self.events:
            if ev[0] == "open" and ev[1] == path:
                mode, flags = ev[2], ev[3]
                w = (mode is not None and any(c in mode for c in "wax+")) or (isinstance(flags, int) and flags & 3)
                if w:
                    out.append(ev)
            elif ev[0] != "open" and path in ev[1:]:
                out.append(ev)
        return out
