"""Deterministic thread-schedule controller (DESIGN.md 3.4).

Worker threads park at *yield points*: every LINE event (sys.monitoring) of a chosen set of code objects, plus explicit
yield points inside the cooperative primitives and fakes (lock acquire/release, modelled distributed Variable/Lock,
storage-client calls).  A controller releases exactly one thread per step following a choice prefix; beyond the prefix
it keeps running the current thread while it is ready (no preemption) and otherwise takes the lowest ready id.  Blocking
primitives are replaced by cooperative ones the controller understands, so a blocked thread is simply not `ready`.
Exploration = stateless DFS with a preemption bound, plus seeded random walks.  Every schedule is replayable from its
choice list.
"""
from __future__ import annotations

import sys
import threading
from typing import Callable, Dict, List, Optional, Sequence

TOOL_ID = 4
_mon = sys.monitoring
_tls = threading.local()
_current: Optional["Controller"] = None
_registered = False
_codes: List = []


def _on_line(code, line):
    tid = getattr(_tls, "tid", None)
    c = _current
    if tid is None or c is None:
        return
    c.yield_point(tid, f"{code.co_name}:{line}")


def watch(codes: Sequence) -> None:
    """Enable LINE events (only) on the given code objects."""
    global _registered
    if not _registered:
        _mon.use_tool_id(TOOL_ID, "vf-sched")
        _mon.register_callback(TOOL_ID, _mon.events.LINE, _on_line)
        _registered = True
    for c in codes:
        _mon.set_local_events(TOOL_ID, c, _mon.events.LINE)
        _codes.append(c)


def unwatch() -> None:
    global _registered
    if _registered:
        for c in _codes:
            try:
                _mon.set_local_events(TOOL_ID, c, 0)
            except Exception:
                pass
        _codes.clear()
        _mon.register_callback(TOOL_ID, _mon.events.LINE, None)
        _mon.free_tool_id(TOOL_ID)
        _registered = False


class Deadlock(RuntimeError):
    pass


class Step:
    __slots__ = ("ready", "chosen", "last", "where")

    def __init__(self, ready, chosen, last, where):
        self.ready, self.chosen, self.last, self.where = ready, chosen, last, where


class Controller:
    """One semaphore per worker + one for the controller: no thundering herd, ~10x cheaper than a shared Condition."""

    def __init__(self, prefix: Sequence[int] = (), chooser: Optional[Callable] = None, max_steps: int = 2000):
        self.prefix = list(prefix)
        self.chooser = chooser  # for random walks: chooser(ready, last) -> tid
        self.lock = threading.Lock()
        self.ctl = threading.Semaphore(0)
        self.sems: Dict[int, threading.Semaphore] = {}
        self.parked: Dict[int, str] = {}
        self.blocked: Dict[int, object] = {}
        self.done = set()
        self.running = 0
        self.trace: List[Step] = []
        self.max_steps = max_steps
        self.nthreads = 0
        self.free_run = False

    def _sem(self, tid: int) -> threading.Semaphore:
        with self.lock:
            s = self.sems.get(tid)
            if s is None:
                s = self.sems[tid] = threading.Semaphore(0)
            return s

    # ---- called from worker threads
    def yield_point(self, tid: int, where: str) -> None:
        if self.free_run:
            return
        sem = self._sem(tid)
        with self.lock:
            self.parked[tid] = where
            self.running -= 1
        self.ctl.release()
        sem.acquire()

    def wait_blocked(self, tid: int, on: object, where: str) -> None:
        """Park as *not ready* until unblock(on)."""
        if self.free_run:
            import time

            time.sleep(0.0005)
            return
        with self.lock:
            self.blocked[tid] = on
        self.yield_point(tid, where)

    def unblock(self, on: object) -> None:
        with self.lock:
            for t in [t for t, o in self.blocked.items() if o is on]:
                del self.blocked[t]

    def finish(self, tid: int) -> None:
        with self.lock:
            self.done.add(tid)
            self.running -= 1
        self.ctl.release()

    # ---- controller loop (caller's thread)
    def run(self, nthreads: int) -> None:
        self.nthreads = nthreads
        with self.lock:
            self.running += nthreads
        step = 0
        last = None
        while True:
            while True:
                with self.lock:
                    if self.running <= 0:
                        break
                if not self.ctl.acquire(timeout=20):
                    raise Deadlock(f"controller watchdog: parked={self.parked} done={self.done} running={self.running}")
            with self.lock:
                if len(self.done) == nthreads:
                    return
                ready = sorted(t for t in self.parked if t not in self.blocked)
                if not ready:
                    raise Deadlock(f"all live threads blocked: {dict(self.blocked)}")
                if step < len(self.prefix) and self.prefix[step] in ready:
                    pick = self.prefix[step]
                elif self.chooser is not None:
                    pick = self.chooser(ready, last)
                else:
                    pick = last if last in ready else ready[0]
                self.trace.append(Step(ready, pick, last, self.parked[pick]))
                step += 1
                if step > self.max_steps:
                    raise Deadlock("step budget exceeded (livelock?)")
                last = pick
                del self.parked[pick]
                self.running = 1
                sem = self.sems[pick]
            sem.release()

    def release_all(self) -> None:
        """After a deadlock: let every parked thread run freely so it can be joined."""
        self.free_run = True
        with self.lock:
            self.blocked.clear()
            sems = [self.sems[t] for t in self.parked]
            self.parked.clear()
        for s in sems:
            s.release()

    def choices(self) -> List[int]:
        return [s.chosen for s in self.trace]

    def preemptions(self, upto: Optional[int] = None) -> int:
        tr = self.trace if upto is None else self.trace[:upto]
        return sum(1 for s in tr if s.last is not None and s.last in s.ready and s.chosen != s.last)


def execute(workers: Sequence[Callable[[], None]], prefix: Sequence[int] = (), chooser=None) -> Controller:
    """Run the worker callables as threads 0..n-1 under a controller; returns the controller (trace inside)."""
    global _current
    ctrl = Controller(prefix, chooser)
    _current = ctrl
    errors = []

    def body(i, fn):
        _tls.tid = i
        try:
            ctrl.yield_point(i, "start")
            fn()
        except BaseException as e:  # noqa: BLE001
            errors.append((i, e))
        finally:
            _tls.tid = None
            ctrl.finish(i)

    ts = [threading.Thread(target=body, args=(i, fn), daemon=True) for i, fn in enumerate(workers)]
    for t in ts:
        t.start()
    try:
        ctrl.run(len(workers))
    except Deadlock:
        ctrl.release_all()
        raise
    finally:
        for t in ts:
            t.join(timeout=5)
        _current = None
    ctrl.errors = errors  # type: ignore[attr-defined]
    return ctrl


def explore_dfs(make_workers: Callable[[], Sequence[Callable]], judge: Callable[[Controller, object], None], preemption_bound: int, max_schedules: int):
    """Stateless DFS over schedules with at most `preemption_bound` preemptions. make_workers() -> (workers, context)."""
    stack: List[List[int]] = [[]]
    n = 0
    truncated = False
    while stack:
        if n >= max_schedules:
            truncated = True
            break
        prefix = stack.pop()
        workers, ctx = make_workers()
        ctrl = execute(workers, prefix)
        n += 1
        judge(ctrl, ctx)
        tr = ctrl.trace
        for i in range(len(prefix), len(tr)):
            s = tr[i]
            base = ctrl.preemptions(i)
            for alt in s.ready:
                if alt == s.chosen:
                    continue
                p = base + (1 if (s.last is not None and s.last in s.ready and alt != s.last) else 0)
                if p <= preemption_bound:
                    stack.append([x.chosen for x in tr[:i]] + [alt])
    return n, truncated


class CoopLock:
    """Cooperative lock (context manager + acquire/release) the controller understands."""

    def __init__(self, name: str = "lock"):
        self.owner = None
        self.name = name

    def acquire(self, *a, **kw):
        tid = getattr(_tls, "tid", None)
        c = _current
        if tid is None or c is None:
            self.owner = "free-running"
            return True
        c.yield_point(tid, f"{self.name}:acquire")
        while self.owner is not None:
            c.wait_blocked(tid, self, f"{self.name}:wait")
        self.owner = tid
        return True

    def release(self):
        self.owner = None
        c = _current
        if c is not None:
            c.unblock(self)
            tid = getattr(_tls, "tid", None)
            if tid is not None:
                c.yield_point(tid, f"{self.name}:released")

    def __enter__(self):
        self.acquire()
        return self

    def __exit__(self, *a):
        self.release()
        return False


def yield_here(where: str) -> None:
    tid = getattr(_tls, "tid", None)
    c = _current
    if tid is not None and c is not None:
        c.yield_point(tid, where)
