"""C12 - tile queries and tile dependency graphs are complete.

Brute force over *all* tiles (<= 12 x 12) with shapely: `must` = tiles sharing more than a sliver with the query,
`may` = tiles not disjoint from it.  Tile footprints come from the harness' own offsets model and plain numpy
matrices; cross-CRS footprints/queries are densified and projected with the oracle's own pyproj transformer.
"""
from __future__ import annotations

import itertools
import math
import random

import numpy as np
from affine import Affine

from .. import gen, pairs
from ..kernel import Monitor, call, hsig

PID = "C12"
RULE = ("seeded tiled GeoBoxes (regular and variable tiles, <= 12x12; north-up, mirrored, non-square, rotated, sheared) x query polygons / bounding boxes (inside, straddling each edge, touching, "
        "outside, larger than the raster) in the same or another CRS; seeded pairs of tiled GeoBoxes: same CRS (aligned, sub-pixel shifted, scaled, mirrored, rotated; overlapping, touching, "
        "disjoint) and different CRSs (same, shifted, touching, near, far); distinct = distinct (tiling, query) | (destination tiling, source tiling)")
ASSUMPTIONS = ["shapely areas/distances on footprints built with numpy matrices", "the oracle's own pyproj transformer for cross-CRS footprints (33 points per tile side)",
               "sliver thresholds: 1e-9 of the tile area same-CRS; 2% of the smaller tile and 4 px^2 cross-CRS; touching tiles may be reported either way",
               "'do not overlap' for the dependency graph: separated by more than 2 pixels of the coarser grid"]
SHARDS = {"quick": 1, "thorough": 8}


def split(rng: random.Random, n: int, kmax: int = 5):
    cuts = sorted(rng.sample(range(1, n), min(n - 1, rng.randint(0, kmax)))) if n > 1 else []
    return [0, *cuts, n]


DERIVED = {"n": 0}


def make_tiling(rng: random.Random, gb):
    from odc.geo.geobox import GeoboxTiles

    gb = gen.warm_view(gb)
    NY, NX = gb.shape
    if rng.random() < 0.6:
        t = (max(1, math.ceil(NY / rng.randint(1, 8))), max(1, math.ceil(NX / rng.randint(1, 8))))
        oy = [min(i * t[0], NY) for i in range(-(-NY // t[0]) + 1)]
        ox = [min(i * t[1], NX) for i in range(-(-NX // t[1]) + 1)]
        how = t
    else:
        oy, ox = split(rng, NY), split(rng, NX)
        how = (tuple(np.diff(oy).tolist()), tuple(np.diff(ox).tolist()))
    # a third of the tilings are *derived*: the crop of a larger parent tiling whose first kept tile is not tile (0, 0) (what .crop / .clip hand to a worker)
    import hashlib

    hh = int.from_bytes(hashlib.blake2b(repr((gen.aff6(gb.affine), NY, NX, how)).encode(), digest_size=8).digest(), "big")
    if hh % 3 == 0:
        try:
            from odc.geo.geobox import GeoBox

            ky, kx = 1 + hh % 2, 1 + (hh >> 3) % 3
            if isinstance(how[0], tuple):
                ey, ex = tuple(2 + (hh >> (5 + i)) % 5 for i in range(ky)), tuple(1 + (hh >> (9 + i)) % 7 for i in range(kx))
                phow = (ey + how[0], ex + how[1])
                py, px = sum(ey), sum(ex)
            else:
                phow = how
                py, px = ky * how[0], kx * how[1]
            pgb = GeoBox((NY + py, NX + px), gb.affine * Affine.translation(-px, -py), gb.crs)
            gen.warm(pgb, full=False)
            parent = GeoboxTiles(pgb, phow)
            parent.tiles(pgb.extent)  # the parent has been queried before it is cropped
            derived = parent.crop[ky:, kx:]
            if tuple(derived.base.shape) == (NY, NX) and gen.gbox_close(derived.base, gb, 1e-9) and tuple(map(tuple, derived.chunks)) == (tuple(np.diff(oy).tolist()), tuple(np.diff(ox).tolist())):
                DERIVED["n"] += 1
                return derived, oy, ox, how
        except Exception:  # noqa: BLE001 - a derivation that fails or is wrong is C04's business; the plain tiling is used
            pass
    return GeoboxTiles(gb, how), oy, ox, how


def ring_px(x0, y0, x1, y1, n=1):
    t = np.linspace(0, 1, n + 1)[:-1]
    return np.array([(x0 + (x1 - x0) * u, y0) for u in t] + [(x1, y0 + (y1 - y0) * u) for u in t] + [(x1 - (x1 - x0) * u, y1) for u in t] + [(x0, y1 - (y1 - y0) * u) for u in t])


def footprint(gb, x0, y0, x1, y1, to_crs=None):
    """shapely polygon of pixel rectangle [x0,x1]x[y0,y1] of gb, in gb's CRS or projected to to_crs."""
    import shapely.geometry as sg

    cross = to_crs is not None and gb.crs is not None and not gb.crs.proj.equals(to_crs.proj)
    R = ring_px(x0, y0, x1, y1, 33 if cross else 1)
    W = (pairs.M3(gb.affine) @ np.c_[R, np.ones(len(R))].T)[:2]
    if cross:
        x, y = gen.transformer(gb.crs.proj.to_wkt(), to_crs.proj.to_wkt()).transform(W[0], W[1])
        W = np.vstack([x, y])
    return sg.Polygon(W.T)


def case_query(mon: Monitor, rng: random.Random) -> None:
    import shapely.geometry as sg
    from odc.geo import geom
    from odc.geo.geom import BoundingBox

    cross = rng.random() < 0.3
    if cross:
        entry = rng.choice(gen.CRS_WINDOWS[1:])
        gb, (lon, lat, ext) = gen.window_geobox(rng, entry, npix=(rng.randint(6, 48), rng.randint(6, 48)), fam=rng.choice(["north-up", "rotated", "mirror-y"]))
        fam = "window"
    else:
        gb, fam = gen.geobox(rng, crs=rng.choice(["EPSG:3857", "EPSG:32633", "EPSG:3577"]), shp=(rng.randint(1, 48), rng.randint(1, 48)), mag=rng.choice([0, 1e3, 1e5]))
    gbt, oy, ox, how = make_tiling(rng, gb)
    NY, NX = gb.shape
    nty, ntx = len(oy) - 1, len(ox) - 1
    desc = {"gbox": gen.gbox_desc(gb), "tiles": how, "family": fam}
    # query polygon in pixel space of the raster
    place = rng.choice(["inside", "inside", "left", "right", "top", "bottom", "touch", "outside", "larger", "corner"])
    w, h = rng.uniform(0.05, 0.8) * NX, rng.uniform(0.05, 0.8) * NY
    if place == "inside":
        cx, cy = rng.uniform(w / 2, NX - w / 2), rng.uniform(h / 2, NY - h / 2)
    elif place == "left":
        cx, cy = rng.uniform(-w / 4, w / 4), rng.uniform(0, NY)
    elif place == "right":
        cx, cy = NX + rng.uniform(-w / 4, w / 4), rng.uniform(0, NY)
    elif place == "top":
        cx, cy = rng.uniform(0, NX), rng.uniform(-h / 4, h / 4)
    elif place == "bottom":
        cx, cy = rng.uniform(0, NX), NY + rng.uniform(-h / 4, h / 4)
    elif place == "corner":
        cx, cy = rng.choice([0, NX]), rng.choice([0, NY])
    elif place == "touch":
        cx, cy = rng.choice([(-w / 2, rng.uniform(0, NY)), (NX + w / 2, rng.uniform(0, NY)), (rng.uniform(0, NX), -h / 2), (rng.uniform(0, NX), NY + h / 2)])
    elif place == "outside":
        cx, cy = rng.choice([(-2 * w - 3, rng.uniform(0, NY)), (NX + 2 * w + 3, NY / 2), (NX / 2, -2 * h - 3), (NX / 2, NY + 2 * h + 3), (NX + 50 * w + 500, NY + 50 * h)])
    else:
        cx, cy, w, h = NX / 2, NY / 2, NX * rng.uniform(1.2, 3), NY * rng.uniform(1.2, 3)
    shape_kind = rng.choice(["rect", "rect", "tri", "poly", "bbox"])
    if place == "touch":
        shape_kind = rng.choice(["rect", "bbox"])
    x0, y0, x1, y1 = cx - w / 2, cy - h / 2, cx + w / 2, cy + h / 2
    if shape_kind in ("rect", "bbox"):
        qpx = np.array([(x0, y0), (x1, y0), (x1, y1), (x0, y1)])
    elif shape_kind == "tri":
        qpx = np.array([(x0, y0), (x1, rng.uniform(y0, y1)), (rng.uniform(x0, x1), y1)])
    else:
        k = rng.choice([5, 7])
        angs = sorted(rng.uniform(0, 2 * math.pi) for _ in range(k))
        qpx = np.array([(cx + 0.5 * w * rng.uniform(0.4, 1) * math.cos(a), cy + 0.5 * h * rng.uniform(0.4, 1) * math.sin(a)) for a in angs])
    qworld = (pairs.M3(gb.affine) @ np.c_[qpx, np.ones(len(qpx))].T)[:2].T
    qpoly = sg.Polygon(qworld)
    if not qpoly.is_valid or qpoly.area <= 0:
        return mon.skip("tiles", "degenerate query")
    qcrs = gb.crs
    q_native = qpoly
    other = cross
    if other:
        # hand the query over in EPSG:4326, densified; the oracle works with the same densified ring projected back
        dense = qpoly.segmentize(max(qpoly.length / 200, 1e-9))
        xs, ys = np.asarray(dense.exterior.coords).T
        lo, la = gen.transformer(gb.crs.proj.to_wkt(), "EPSG:4326").transform(xs, ys)
        bx, by = gen.transformer("EPSG:4326", gb.crs.proj.to_wkt()).transform(lo, la)
        if not (np.isfinite(lo).all() and np.isfinite(la).all() and np.isfinite(bx).all() and np.isfinite(by).all()):
            return mon.skip("tiles", "query leaves the valid range of the raster's projection")
        q_native = sg.Polygon(list(zip(bx, by)))
        qpoly_h = sg.Polygon(list(zip(lo, la)))
        if not (q_native.is_valid and qpoly_h.is_valid):
            return mon.skip("tiles", "degenerate query")
        qcrs = "EPSG:4326"
        qpoly = qpoly_h
    # brute force
    A = pairs.M3(gb.affine)[:2, :2]
    pxarea = abs(np.linalg.det(A))
    must, may = set(), set()
    # float resolution of the world coordinates themselves (a 1 mm pixel 77 km from the origin sits at pixel index 1e8: 2e-8 px per ulp): contact slivers of that width are "touching", not overlap
    eps_w = 32 * math.ulp(max(1.0, float(np.abs(np.asarray(footprint(gb, 0, 0, NX, NY).exterior.coords)).max())))
    for r, c in itertools.product(range(nty), range(ntx)):
        tp = footprint(gb, ox[c], oy[r], ox[c + 1], oy[r + 1])
        a = tp.intersection(q_native).area
        thr = max((1e-9 if not other else 1e-6) * tp.area, eps_w * tp.length)  # the query is pre-densified, so vertex-wise projection and true image agree far below a pixel
        if a > thr:
            must.add((r, c))
        scale = math.sqrt(tp.area)
        if a > 0 or tp.distance(q_native) <= (1e-9 if not other else 1e-6) * max(scale, 1.0) + eps_w:
            may.add((r, c))
    as_bbox = shape_kind == "bbox"
    if as_bbox:
        b = qpoly.bounds
        query = BoundingBox(b[0], b[1], b[2], b[3], qcrs)
        # a bounding box query is its rectangle in its own CRS
        if other:
            return mon.skip("tiles", "cross-CRS bounding box (projected as a 4-point polygon by design)")
        rect = sg.box(*b)
        must = {(r, c) for r, c in itertools.product(range(nty), range(ntx)) if footprint(gb, ox[c], oy[r], ox[c + 1], oy[r + 1]).intersection(rect).area > max(1e-9 * footprint(gb, ox[c], oy[r], ox[c + 1], oy[r + 1]).area, eps_w * footprint(gb, ox[c], oy[r], ox[c + 1], oy[r + 1]).length)}
    else:
        query = geom.Geometry(qpoly, qcrs)
    res, e = call(lambda: list(gbt.tiles(query)))
    wit = lambda extra=None: {**desc, "place": place, "query_kind": shape_kind, "query_crs": str(qcrs), "query_px": qpx, **(extra or {})}
    if e is not None:
        return mon.fail("GeoboxTiles.tiles", wit({"exc": e}), key="tiles-raises")
    got = {tuple(i) for i in res}
    ok = must <= got and (as_bbox or got <= may) and len(got) == len(res)
    cls = f"{'bbox' if as_bbox else 'geometry'}|{'other-crs' if other else 'same-crs'}|{place}"
    mon.check(ok, "GeoboxTiles.tiles", lambda: wit({"got": sorted(got), "missing": sorted(must - got), "extra": sorted(got - may) if not as_bbox else []}),
              key="tiles-missing" if not must <= got else "tiles-extra", cls=cls, sig=hsig("q", gen.aff6(gb.affine), tuple(gb.shape), repr(how), qpx.tobytes(), as_bbox, other), sample=wit({"got": sorted(got)}))
    # range_from_bbox: every must-tile is inside the reported row/col ranges
    if not other:
        b = q_native.bounds
        rr, e = call(gbt.range_from_bbox, BoundingBox(b[0], b[1], b[2], b[3], gb.crs))
        if e is not None:
            return mon.fail("GeoboxTiles.range_from_bbox", wit({"exc": e}), key="range-raises")
        rows, cols = rr
        okr = all(r in rows and c in cols for r, c in must) and all(0 <= r < nty for r in rows) and all(0 <= c < ntx for c in cols)
        mon.check(okr, "GeoboxTiles.range_from_bbox", lambda: wit({"rows": list(rows), "cols": list(cols), "must": sorted(must)}), key="range-missing", cls=place)


def sep_px(src, dst) -> float:
    """Separation of two rasters' footprints in pixels of the coarser grid (0 if they overlap/touch), via the oracle."""
    fs = footprint(src, 0, 0, src.shape[1], src.shape[0], to_crs=dst.crs)
    fd = footprint(dst, 0, 0, dst.shape[1], dst.shape[0])
    d = fs.distance(fd)
    px_d = math.sqrt(abs(np.linalg.det(pairs.M3(dst.affine)[:2, :2])))
    px_s = math.sqrt(fs.area / max(1, src.shape[0] * src.shape[1]))
    return d / max(px_d, px_s)


def case_graph(mon: Monitor, rng: random.Random) -> None:
    cross = rng.random() < 0.35
    if cross:
        pr = pairs.cross_crs_pair(rng, max_n=32)
        if pr is None:
            return mon.skip("grid_intersect", "no common window")
        src, dst, place = pr
        kind = "cross|" + place
    else:
        src, dst, kind0, _l = pairs.same_crs_pair(rng, binary_exact=rng.random() < 0.5, max_n=32)
        kind = "same|" + kind0
    st, soy, sox, show = make_tiling(rng, src)
    dt, doy, dox, dhow = make_tiling(rng, dst)
    desc = {"src": gen.gbox_desc(src), "src_tiles": show, "dst": gen.gbox_desc(dst), "dst_tiles": dhow, "kind": kind}
    deps, e = call(dt.grid_intersect, st)
    if e is not None:
        return mon.fail("GeoboxTiles.grid_intersect", {**desc, "exc": e}, key="grid-intersect-raises", cls=kind)
    sp = {(r, c): footprint(src, sox[c], soy[r], sox[c + 1], soy[r + 1], to_crs=dst.crs) for r, c in itertools.product(range(len(soy) - 1), range(len(sox) - 1))}
    pxarea = abs(np.linalg.det(pairs.M3(dst.affine)[:2, :2]))
    Pl = np.linalg.inv(pairs.M3(src.affine)) @ pairs.M3(dst.affine)
    st_linear = (not cross) and abs(Pl[0, 1]) < 1e-8 and abs(Pl[1, 0]) < 1e-8 and abs(src.affine.b) < 1e-12 * abs(src.affine.a) and abs(src.affine.d) < 1e-12 * abs(src.affine.e)
    src_px_len = min(abs(src.affine.a), abs(src.affine.e)) if st_linear else 1.0
    missing, nedge = [], 0
    bad_index = [k for k in deps if not (0 <= k[0] < len(doy) - 1 and 0 <= k[1] < len(dox) - 1)] + \
                [s for v in deps.values() for s in v if not (0 <= s[0] < len(soy) - 1 and 0 <= s[1] < len(sox) - 1)]
    for r, c in itertools.product(range(len(doy) - 1), range(len(dox) - 1)):
        dp = footprint(dst, dox[c], doy[r], dox[c + 1], doy[r + 1])
        for sidx, spoly in sp.items():
            if not spoly.is_valid or not dp.is_valid:
                continue
            inter = dp.intersection(spoly)
            a = inter.area
            thr = max(0.02 * min(dp.area, spoly.area), 4 * pxarea) if cross else 1e-6 * min(dp.area, spoly.area)
            if a > thr and st_linear:
                # scale + translation only: the library snaps the pixel-to-pixel translation to whole pixels within 1e-3 source pixels (snap_affine),
                # so an overlap thinner than that is a sliver by its own definition; require twice that
                b = inter.bounds
                thin = min(b[2] - b[0], b[3] - b[1]) / src_px_len
                if thin < 2e-3:
                    continue
            if a > thr:
                nedge += 1
                if sidx not in [tuple(s) for s in deps.get((r, c), [])]:
                    missing.append(((r, c), sidx, a / min(dp.area, spoly.area)))
    nlisted = sum(len(v) for v in deps.values())
    sep = sep_px(src, dst)
    ok_complete = not missing and not bad_index
    ok_disjoint = not (sep > 2 and nlisted > 0)
    cls = kind + ("|disjoint" if sep > 2 else "|touching" if nedge == 0 else "|overlap")
    mon.check(ok_complete and ok_disjoint, "GeoboxTiles.grid_intersect", lambda: {**desc, "missing_edges": missing[:5], "bad_index": bad_index[:5], "separation_px": sep, "edges_listed": nlisted, "edges_required": nedge},
              key="grid-intersect-missing-edge" if not ok_complete else "grid-intersect-nonempty-disjoint", cls=cls,
              sig=hsig("g", gen.aff6(src.affine), tuple(src.shape), repr(show), gen.aff6(dst.affine), tuple(dst.shape), repr(dhow)), sample={**desc, "edges_listed": nlisted, "edges_required": nedge})
    mon.obs["edges_required_total"] += nedge
    mon.obs["edges_listed_total"] += nlisted


GLOBAL_SOURCES = [
    # (crs, affine args, shape): whole-world or hemisphere mosaics, far larger than any regional projection can represent
    ("EPSG:4326", (0.5, 0, -180, 0, -0.5, 90), (360, 720)),
    ("EPSG:4326", (1.0, 0, -180, 0, -1.0, 85), (170, 360)),
    ("EPSG:4326", (0.5, 0, 0, 0, -0.5, 0), (180, 360)),  # south-east quarter
    ("EPSG:3857", (80000, 0, -20000000, 0, -80000, 15000000), (375, 500)),  # strictly inside the projections' own limits
    ("EPSG:6933", (60000, 0, -17220000, 0, -60000, 7140000), (238, 574)),  # > 2 px inside the limits (see K5)
    # SMAP / EASE-Grid 2.0 global 36 km grid (M36, 964 x 406 cells): fills the projection's valid range exactly (known finding K5)
    ("EPSG:6933", (36032.220840584, 0, -17367530.45, 0, -36032.220840584, 7314540.83), (406, 964)),
]


def _buffer_leaves_projection(src, npx: float = 2.0) -> bool:
    """True when the source outline grown by npx pixels has no finite image in EPSG:4326 (oracle's transformer) although the outline itself has."""
    H, W = src.shape
    tr = gen.transformer(src.crs.proj.to_wkt(), "EPSG:4326")

    def finite(b):
        R = ring_px(-b, -b, W + b, H + b, 16)
        Wd = (pairs.M3(src.affine) @ np.c_[R, np.ones(len(R))].T)[:2]
        x, y = tr.transform(Wd[0], Wd[1])
        return bool(np.isfinite(x).all() and np.isfinite(y).all())

    return finite(0.0) and not finite(npx)


def case_graph_global(mon: Monitor, rng: random.Random) -> None:
    """Dependency graph of a regional destination (UTM / Albers / LAEA / national grid tile) on a global source mosaic: the ordinary
    'cut my tile out of the global product' request.  The oracle goes the well-defined way round: destination tile outlines are densified
    and taken to the *source* CRS with the oracle's own transformer, then intersected with the source tile rectangles there."""
    import shapely.geometry as sg
    from odc.geo.geobox import GeoBox

    scrs, aff, sshape = rng.choice(GLOBAL_SOURCES)
    src = gen.warm_view(GeoBox(sshape, Affine(*aff), scrs))
    entry = rng.choice([e for e in gen.CRS_WINDOWS if e[0] not in gen.GLOBAL_CRS])
    fam = rng.choice(["north-up", "north-up", "rotated", "mirror-y"])
    dst, _w = gen.window_geobox(rng, entry, npix=(rng.randint(8, 40), rng.randint(8, 40)), extent_deg=rng.choice([1.0, 2.0, 4.0]), fam=fam)
    NY, NX = src.shape
    t = (rng.choice([30, 45, 60, 90]), rng.choice([40, 60, 90, 120]))
    from odc.geo.geobox import GeoboxTiles

    st = GeoboxTiles(src, t)
    soy = [min(i * t[0], NY) for i in range(-(-NY // t[0]) + 1)]
    sox = [min(i * t[1], NX) for i in range(-(-NX // t[1]) + 1)]
    dt, doy, dox, dhow = make_tiling(rng, dst)
    desc = {"src": gen.gbox_desc(src), "src_tiles": t, "dst": gen.gbox_desc(dst), "dst_tiles": dhow, "kind": "cross|global-source"}
    deps, e = call(dt.grid_intersect, st)
    if e is not None:
        k5 = type(e).__name__ == "GEOSException" and "closed linestring" in str(e) and _buffer_leaves_projection(src)
        return mon.fail("GeoboxTiles.grid_intersect", {**desc, "exc": e, "source_outline_plus_2px_leaves_its_projection": k5},
                        key="footprint-buffer-leaves-projection" if k5 else "grid-intersect-raises", cls="cross|global-source")
    tr = gen.transformer(dst.crs.proj.to_wkt(), src.crs.proj.to_wkt())
    Minv = np.linalg.inv(pairs.M3(src.affine))
    missing, nedge = [], 0
    for r, c in itertools.product(range(len(doy) - 1), range(len(dox) - 1)):
        R = ring_px(dox[c], doy[r], dox[c + 1], doy[r + 1], 33)
        W = (pairs.M3(dst.affine) @ np.c_[R, np.ones(len(R))].T)[:2]
        x, y = tr.transform(W[0], W[1])
        if not (np.isfinite(x).all() and np.isfinite(y).all()):
            continue
        P = (Minv @ np.vstack([x, y, np.ones(len(x))]))[:2]  # destination tile outline in source pixel coordinates
        dp = sg.Polygon(P.T)
        if not dp.is_valid or dp.area == 0:
            continue
        dst_px = dp.area / max(1, (dox[c + 1] - dox[c]) * (doy[r + 1] - doy[r]))  # one destination pixel, in source pixels^2
        for sr, sc in itertools.product(range(len(soy) - 1), range(len(sox) - 1)):
            sp = sg.box(sox[sc], soy[sr], sox[sc + 1], soy[sr + 1])
            a = dp.intersection(sp).area
            if a > max(0.02 * min(dp.area, sp.area), 4 * dst_px):
                nedge += 1
                if (sr, sc) not in [tuple(s_) for s_ in deps.get((r, c), [])]:
                    missing.append(((r, c), (sr, sc), a / min(dp.area, sp.area)))
    nlisted = sum(len(v) for v in deps.values())
    if nedge == 0:
        return mon.skip("GeoboxTiles.grid_intersect", "global source: no required edge (tiny destination)")
    mon.check(not missing, "GeoboxTiles.grid_intersect", lambda: {**desc, "missing_edges": missing[:5], "edges_listed": nlisted, "edges_required": nedge}, key="grid-intersect-missing-edge",
              cls="cross|global-source|" + entry[0], sig=hsig("gg", scrs, sshape, t, gen.aff6(dst.affine), tuple(dst.shape), repr(dhow)), sample={**desc, "edges_listed": nlisted, "edges_required": nedge})
    mon.obs["edges_required_total"] += nedge
    mon.obs["edges_listed_total"] += nlisted


def case_graph_drift(mon: Monitor, rng: random.Random) -> None:
    """Same CRS, no rotation, pixel-size ratio within a fraction of a percent of an integer (10 m against 10.004 m, 20.008 m, 30.008 m ...) on rasters thousands of
    pixels across: the ratio must not be rounded, the difference accumulates to several pixels.  Oracle: interval arithmetic on tile edges in source pixels."""
    from odc.geo.geobox import GeoBox, GeoboxTiles

    r0 = rng.choice([10.0, 30.0, 0.00025])
    k = rng.choice([1, 1, 2, 3])
    eps = rng.choice([4e-4, -4e-4, 8e-4, 2.5e-4])
    up = rng.random() < 0.5  # which side is the coarser one
    rs_, rd_ = (r0, r0 * k * (1 + eps)) if up else (r0 * k * (1 + eps), r0)
    N = rng.choice([3000, 5000, 8000])
    sN, dN = (N, int(N / (k * (1 + eps))) - 7) if up else (int(N / (k * (1 + eps))) - 7, N)
    x0, y0 = rng.uniform(-1e5, 1e5) * r0, rng.uniform(-1e5, 1e5) * r0
    my = rng.choice([-1, -1, 1])
    src = GeoBox((sN, sN), Affine(rs_, 0, x0, 0, my * rs_, y0), "EPSG:32633")
    dst = GeoBox((dN, dN), Affine(rd_, 0, x0 + rng.randint(0, 5) * rs_, 0, my * rd_, y0 + my * rng.randint(0, 5) * rs_), "EPSG:32633")
    st_n, dt_n = rng.choice([250, 512, 1000]), rng.choice([200, 256, 500])
    st, dt = GeoboxTiles(src, (st_n, st_n)), GeoboxTiles(dst, (dt_n, dt_n))
    desc = {"src": gen.gbox_desc(src), "src_tiles": st_n, "dst": gen.gbox_desc(dst), "dst_tiles": dt_n, "kind": "same|near-integer-scale", "ratio": rd_ / rs_}
    deps, e = call(dt.grid_intersect, st)
    if e is not None:
        return mon.fail("GeoboxTiles.grid_intersect", {**desc, "exc": e}, key="grid-intersect-raises", cls="same|near-integer-scale")
    P = np.linalg.inv(pairs.M3(src.affine)) @ pairs.M3(dst.affine)  # dst px -> src px (diagonal + translation)
    edges = lambda n, t: [min(i * t, n) for i in range(-(-n // t) + 1)]
    se, de = edges(sN, st_n), edges(dN, dt_n)
    missing, nedge = [], 0
    for r in range(len(de) - 1):
        ya, yb = sorted((P[1, 1] * de[r] + P[1, 2], P[1, 1] * de[r + 1] + P[1, 2]))
        for c in range(len(de) - 1):
            xa, xb = sorted((P[0, 0] * de[c] + P[0, 2], P[0, 0] * de[c + 1] + P[0, 2]))
            listed = {tuple(s_) for s_ in deps.get((r, c), [])}
            for sr in range(len(se) - 1):
                oy_ = min(yb, se[sr + 1]) - max(ya, se[sr])
                if oy_ <= 0.01:
                    continue
                for sc in range(len(se) - 1):
                    ox_ = min(xb, se[sc + 1]) - max(xa, se[sc])
                    if ox_ > 0.01:  # more than a hundredth of a source pixel in both directions
                        nedge += 1
                        if (sr, sc) not in listed:
                            missing.append(((r, c), (sr, sc), round(min(ox_, oy_), 3)))
    mon.check(not missing, "GeoboxTiles.grid_intersect", lambda: {**desc, "missing_edges (dst tile, src tile, overlap in src px)": missing[:5], "n_missing": len(missing), "edges_required": nedge},
              key="grid-intersect-missing-edge", cls="same|near-integer-scale", sig=hsig("gd", r0, k, eps, up, N, st_n, dt_n, my))
    mon.obs["edges_required_total"] += nedge


def case_query_continental(mon: Monitor, rng: random.Random) -> None:
    """Continent-sized tiled rasters in a conic / azimuthal CRS queried with a large non-rectangular outline given in lon/lat or web mercator: the outline's
    bounding box in its own CRS says little about where it lands (edges bulge across tile boundaries)."""
    import shapely.affinity
    import shapely.geometry as sg
    from odc.geo import geom
    from odc.geo.geobox import GeoBox, GeoboxTiles

    gcrs, A, shape, (lon0, lat0), (rlon, rlat) = rng.choice([
        ("EPSG:3577", Affine(10_000, 0, -2_200_000, 0, -10_000, -1_000_000), (350, 420), (134.0, -25.0), (14.0, 9.0)),
        ("EPSG:3035", Affine(10_000, 0, 2_500_000, 0, -10_000, 5_500_000), (400, 450), (12.0, 52.0), (18.0, 10.0)),
        ("EPSG:3577", Affine(5_000, 0, -1_800_000, 0, -5_000, -1_200_000), (500, 700), (132.0, -24.0), (10.0, 7.0)),
    ])
    gb = gen.warm_view(GeoBox(shape, A, gcrs))
    t = (rng.choice([25, 40, 50]), rng.choice([30, 40, 60]))
    gbt = GeoboxTiles(gb, t)
    qcrs = rng.choice(["EPSG:4326", "EPSG:4326", "EPSG:3857"])
    kindq = rng.choice(["ellipse", "ellipse", "triangle", "diamond"])
    f = rng.uniform(0.5, 1.0)
    if kindq == "ellipse":
        q_ll = shapely.affinity.scale(sg.Point(lon0, lat0).buffer(1.0, 64), rlon * f, rlat * f)
    elif kindq == "triangle":
        q_ll = sg.Polygon([(lon0 - rlon * f, lat0 - rlat * f), (lon0 + rlon * f, lat0 - 0.2 * rlat), (lon0, lat0 + rlat * f)])
    else:
        q_ll = sg.Polygon([(lon0, lat0 - rlat * f), (lon0 + rlon * f, lat0), (lon0, lat0 + rlat * f), (lon0 - rlon * f, lat0)])
    q_ll = q_ll.segmentize(0.25)
    xs, ys = np.asarray(q_ll.exterior.coords).T
    if qcrs != "EPSG:4326":
        xs, ys = gen.transformer("EPSG:4326", qcrs).transform(xs, ys)
    query = geom.polygon(list(zip(np.asarray(xs).tolist(), np.asarray(ys).tolist())), qcrs)
    bx, by = gen.transformer(qcrs, gcrs).transform(xs, ys)
    q_native = sg.Polygon(list(zip(bx, by)))
    desc = {"gbox": gen.gbox_desc(gb), "tiles": t, "query_crs": qcrs, "query_kind": kindq, "query_bounds": list(query.geom.bounds)}
    if not q_native.is_valid:
        return mon.skip("tiles", "degenerate query")
    res, e = call(lambda: list(gbt.tiles(query)))
    if e is not None:
        return mon.fail("GeoboxTiles.tiles", {**desc, "exc": e}, key="tiles-raises")
    got = {tuple(i) for i in res}
    NY, NX = gb.shape
    must, may = set(), set()
    for r in range(-(-NY // t[0])):
        for c in range(-(-NX // t[1])):
            tp = footprint(gb, c * t[1], r * t[0], min((c + 1) * t[1], NX), min((r + 1) * t[0], NY))
            a = tp.intersection(q_native).area
            if a > 1e-4 * tp.area:  # the densified outline (0.25 degree steps) follows the true image to well below a hundredth of a tile
                must.add((r, c))
            if a > 0 or tp.distance(q_native) <= 0.01 * math.sqrt(tp.area):
                may.add((r, c))
    mon.check(must <= got <= may, "GeoboxTiles.tiles", lambda: {**desc, "n_got": len(got), "missing": sorted(must - got)[:8], "extra": sorted(got - may)[:8]},
              key="tiles-missing" if not must <= got else "tiles-extra", cls="geometry|other-crs|continental", sig=hsig("qc", gcrs, t, qcrs, kindq, f), sample={**desc, "n_got": len(got)})


def case_query_many_tiles(mon: Monitor, rng: random.Random) -> None:
    """Thousands of tiles (a 10 m national grid cut into small chunks) and queries that are not polygons: a line across the grid, a closed ring, scattered points - and a
    polygon for comparison.  Brute force over every tile with shapely; thin geometries have no area, so "required" means: the geometry runs through the tile's interior."""
    import shapely
    import shapely.geometry as sg
    from odc.geo import geom
    from odc.geo.geobox import GeoBox, GeoboxTiles

    ty, tx = rng.choice([(70, 80), (56, 64), (40, 130)])
    t = rng.choice([4, 5, 8])
    r = rng.choice([10.0, 30.0])
    A = Affine(r, 0, rng.randint(-50, 50) * r, 0, -r, rng.randint(-50, 50) * r)
    fam = "north-up"
    if rng.random() < 0.4:
        A, fam = A * Affine.rotation(rng.choice([20, -35, 60])), "rotated"
    gb = GeoBox((ty * t, tx * t), A, "EPSG:32633")
    gbt = GeoboxTiles(gb, (t, t))
    W, H = tx * t, ty * t
    P = lambda fx, fy: tuple(A * (fx * W, fy * H))
    kind = rng.choice(["line", "line", "ring", "multipoint", "polygon", "multiline"])
    if kind == "line":
        shp = sg.LineString([P(rng.uniform(0.02, 0.2), rng.uniform(0.05, 0.95)), P(rng.uniform(0.4, 0.6), rng.uniform(0.05, 0.95)), P(rng.uniform(0.8, 0.98), rng.uniform(0.05, 0.95))])
    elif kind == "multiline":
        shp = sg.MultiLineString([[P(0.05, 0.1), P(0.9, 0.2)], [P(0.1, 0.9), P(0.5, 0.4), P(0.95, 0.85)]])
    elif kind == "ring":
        shp = sg.LinearRing([P(0.1, 0.1), P(0.9, 0.15), P(0.85, 0.9), P(0.15, 0.8)])
    elif kind == "multipoint":
        shp = sg.MultiPoint([P(rng.uniform(0.02, 0.98), rng.uniform(0.02, 0.98)) for _ in range(rng.randint(3, 12))])
    else:
        shp = sg.Polygon([P(0.1, 0.1), P(0.9, 0.15), P(0.85, 0.9), P(0.5, 0.5), P(0.15, 0.8)])
    desc = {"gbox": gen.gbox_desc(gb), "tiles": [ty, tx], "tile_px": t, "family": fam, "query_kind": kind, "query": shp.wkt[:200]}
    res, e = call(lambda: list(gbt.tiles(geom.Geometry(shp, gb.crs))))
    if e is not None:
        return mon.fail("GeoboxTiles.tiles", {**desc, "exc": e}, key="tiles-raises", cls=f"many-tiles|{kind}")
    got = {tuple(i) for i in res}
    # every tile as a shapely polygon (vectorised), shrunk / grown by a hundredth of a pixel for the must / may sets
    iy, ix = np.meshgrid(np.arange(ty), np.arange(tx), indexing="ij")
    def boxes(eps):
        c = np.stack([np.stack([ix * t + eps, iy * t + eps], -1), np.stack([(ix + 1) * t - eps, iy * t + eps], -1), np.stack([(ix + 1) * t - eps, (iy + 1) * t - eps], -1), np.stack([ix * t + eps, (iy + 1) * t - eps], -1)], axis=2)
        w = np.stack([A.a * c[..., 0] + A.b * c[..., 1] + A.c, A.d * c[..., 0] + A.e * c[..., 1] + A.f], axis=-1)
        return shapely.polygons(w.reshape(-1, 4, 2))
    must = {(int(a), int(b)) for a, b in zip(iy.ravel()[shapely.intersects(boxes(0.01), shp)], ix.ravel()[shapely.intersects(boxes(0.01), shp)])}
    may_mask = shapely.intersects(boxes(-0.01), shp)
    may = {(int(a), int(b)) for a, b in zip(iy.ravel()[may_mask], ix.ravel()[may_mask])}
    ok = must <= got <= may
    mon.check(ok, "GeoboxTiles.tiles", lambda: {**desc, "n_got": len(got), "n_required": len(must), "missing": sorted(must - got)[:12], "extra": sorted(got - may)[:12]}, key="tiles-missing" if not must <= got else "tiles-extra",
              cls=f"many-tiles|{kind}", sig=hsig("MT", repr(desc)))


CASES = {"query-many-tiles": case_query_many_tiles, "query": case_query, "graph": case_graph, "graph-global": case_graph_global, "graph-drift": case_graph_drift, "query-continental": case_query_continental}


def run(mon: Monitor, tier: str, seed: int, shard: int, nshards: int) -> None:
    rng = random.Random(seed * 1000 + shard + 12)
    counts = {"query-many-tiles": 10, "query": 900, "graph": 500, "graph-global": 60, "graph-drift": 12, "query-continental": 16} if tier == "quick" else {"query-many-tiles": 150, "query": 15000, "graph": 8000, "graph-global": 1200, "graph-drift": 200, "query-continental": 300}
    for kind, n in counts.items():
        for _ in range(n):
            rs = rng.getrandbits(48)
            mon.case = {"kind": kind, "rs": rs}
            try:
                CASES[kind](mon, random.Random(rs))
            except Exception as e:
                mon.error(kind, e)
    mon.case = None
    mon.obs["tilings_that_are_crops_of_a_queried_parent"] += DERIVED["n"]
    if DERIVED["n"] >= 50:
        mon.ok("workload.derived-tilings")
    mon.floor("workload.derived-tilings", 1)
    for pt, n in [("GeoboxTiles.tiles", 500), ("GeoboxTiles.range_from_bbox", 300), ("GeoboxTiles.grid_intersect", 300), ("GeoboxTiles.tiles|geometry|same-crs|inside", 30),
                  ("GeoboxTiles.tiles|geometry|same-crs|outside", 10), ("GeoboxTiles.tiles|geometry|other-crs|inside", 10), ("GeoboxTiles.tiles|bbox|same-crs|inside", 5),
                  ("GeoboxTiles.tiles|geometry|same-crs|larger", 10), ("GeoboxTiles.tiles|geometry|same-crs|touch", 5)]:
        mon.floor(pt, n)
    mon.floor("GeoboxTiles.grid_intersect|same|far|disjoint", 10)
    mon.floor("GeoboxTiles.grid_intersect|same|near-integer-scale", 8)
    mon.floor("GeoboxTiles.tiles|geometry|other-crs|continental", 10)
    for c_ in ("EPSG:32633", "EPSG:3577", "EPSG:3035"):
        mon.floor("GeoboxTiles.grid_intersect|cross|global-source|" + c_, 2)
    mon.floor("GeoboxTiles.grid_intersect|cross|far|disjoint", 5)
    mon.floor("GeoboxTiles.grid_intersect|cross|shift|overlap", 5)
    mon.floor("GeoboxTiles.grid_intersect|same|rot|overlap", 5)
    mon.floor("GeoboxTiles.grid_intersect|same|subpix|overlap", 5)


def replay(mon: Monitor, case) -> None:
    mon.case = case
    CASES[case["kind"]](mon, random.Random(case["rs"]))
