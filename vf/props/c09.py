"""C09 - xarray geo-registration round-trips and survives array operations.

Every wrapped array travels with two *tracker* index vectors holding the original pixel index of each remaining row /
column and receiving the same positional operations.  After every step of a history the GeoBox recovered through the
.odc accessor must map every remaining element to the world location its original pixel had, and agree with the
coordinate labels.  Round trips and reprojection outputs are compared with the requested GeoBox (shape, CRS, corners to
1e-6 px); GCP boxes are compared structurally (known finding K2 makes == identity based).
"""
from __future__ import annotations

import copy
import pickle
import random

import numpy as np
from affine import Affine

from .. import gen, pairs
from ..kernel import Monitor, call, hsig

PID = "C09"
RULE = ("seeded GeoBoxes (7 affine families incl. rotated/sheared, GCP boxes, shapes incl. 1xN, Nx1, 1x1 with CRS) x ranks (y,x) (time,y,x) (y,x,band) x numpy/dask backing; histories of 1-6 "
        "steps from {positional slice with start/stop/step incl. negative steps, + - * >, astype, pickle round trip, copy}; reprojection of DataArrays and Datasets to GeoBoxes and to CRS "
        "strings incl. utm; distinct = distinct (geobox, rank, history) | (source, destination, container)")
ASSUMPTIONS = ["numpy 3x3 matrix algebra for pixel->world positions", "recovered GeoBoxes are compared to 1e-6 px at the four image corners, not bit for bit (transforms are rebuilt from float coordinate labels)",
               "single-row/column boxes without a CRS are outside the statement", "GCP boxes: structural comparison (shape, CRS, control points, pixel affine)"]
SHARDS = {"quick": 1, "thorough": 8}


def at(g, pts):
    pts = np.asarray(pts, dtype="float64")
    if getattr(g, "linear", True):
        return (pairs.M3(g.affine) @ np.c_[pts, np.ones(len(pts))].T)[:2].T
    x, y = g.pix2wld(pts[:, 0].copy(), pts[:, 1].copy())
    return np.stack([np.asarray(x, dtype="float64"), np.asarray(y, dtype="float64")], axis=1)


def gcp_same(a, b) -> bool:
    """Control-point boxes: same shape, CRS and number of control points, and the same pixel -> world mapping in the box's own pixel space (a zoomed / cropped box
    comes back with its control points re-expressed in its own pixels, so the comparison is on what the box *means*, on a 6 x 6 probe grid incl. the corners)."""
    try:
        if not (tuple(a.shape) == tuple(b.shape) and a.crs == b.crs and a._mapping._pix.shape == b._mapping._pix.shape):
            return False
        ny, nx = b.shape
        jj, ii = np.meshgrid(np.linspace(0, nx, 6), np.linspace(0, ny, 6))
        wa, wb = a.pix2wld(jj.ravel(), ii.ravel()), b.pix2wld(jj.ravel(), ii.ravel())
        wa, wb = np.stack([np.asarray(wa[0]), np.asarray(wa[1])]), np.stack([np.asarray(wb[0]), np.asarray(wb[1])])
        span = max(float(np.ptp(wb[0])), float(np.ptp(wb[1])), 1e-12)
        return bool(np.isfinite(wa).all() and np.abs(wa - wb).max() <= 1e-6 * span + 1e-9 * float(np.abs(wb).max()))
    except Exception:
        return False


def same_box(got, want) -> bool:
    if got is None:
        return False
    if not getattr(want, "linear", True):
        return type(got) is type(want) and gcp_same(got, want)
    if not hasattr(got, "affine"):
        return False
    if want.crs is not None and (got.crs is None or not got.crs.proj.equals(want.crs.proj)):
        return False  # the same CRS by pyproj's strict comparison, not merely one the library calls equal
    return gen.gbox_close(got, want, 1e-6) and (got.crs is None) == (want.crs is None)


def make_box(rng: random.Random):
    """-> (geobox, family)"""
    k = rng.random()
    if k < 0.12:
        from .c02 import make_gcp_box

        g, kind = make_gcp_box(rng)
        # derived boxes carry a pixel-side affine (scale, offset or both) on top of the control points
        how = rng.choice(["plain", "plain", "zoom_out", "zoom_to", "crop", "pad", "crop+zoom", "zoom+crop"])
        try:
            if how == "zoom_out":
                g = g.zoom_out(rng.choice([2, 3, 1.5]))
            elif how == "zoom_to":
                g = g.zoom_to((rng.randint(3, 40), rng.randint(3, 40)))
            elif how == "crop":
                g = g[rng.randint(0, 3): g.shape[0] - rng.randint(0, 3), rng.randint(1, 3): g.shape[1]]
            elif how == "pad":
                g = g.pad(rng.randint(1, 3), rng.randint(0, 2))
            elif how == "crop+zoom":
                g = g[2:, 1:].zoom_out(2)
            elif how == "zoom+crop":
                g = g.zoom_out(2)[1:, 1:]
        except Exception:
            how = "plain"
        return g, "gcp" if how == "plain" else "gcp|" + how
    crs = rng.choice(["EPSG:3857", "EPSG:4326", "EPSG:32633", "EPSG:3857", None])
    shp = rng.choice([(1, rng.randint(1, 12)), (rng.randint(1, 12), 1), (1, 1), (rng.randint(2, 20), rng.randint(2, 20)), (rng.randint(2, 20), rng.randint(2, 20))])
    res = rng.choice([10.0, 0.25, 30.0, 0.01, 0.5, 1 / 3]) if crs != "EPSG:4326" else rng.choice([0.01, 0.25, 0.001, 1 / 3600])
    mag = rng.choice([0, 1e3, 1e5, 1e6]) if crs != "EPSG:4326" else rng.choice([0, 10, 60])
    g, fam = gen.geobox(rng, crs=crs, shp=shp, res=res, mag=mag)
    if crs is not None and crs != "EPSG:4326" and int(abs(g.affine.c) * 7 + g.shape[0] * 3 + g.shape[1]) % 5 == 0:
        # user-defined CRSs (a PROJ string / custom WKT no authority lists, some of which merely resemble a registered CRS): what comes back through .odc must be that CRS
        from odc.geo.geobox import GeoBox

        custom = gen.CUSTOM_RASTER_CRS + ["+proj=aea +lat_0=0 +lon_0=132 +lat_1=-18 +lat_2=-36 +x_0=0 +y_0=0 +ellps=GRS80 +units=m +no_defs", "+proj=longlat +datum=WGS84 +no_defs"]
        g = GeoBox(g.shape, g.affine, custom[(g.shape[0] + 2 * g.shape[1]) % len(custom)])
        CUSTOM["n"] += 1
    return g, fam


CUSTOM = {"n": 0}


def wrap(rng: random.Random, g, rank: str, backing: str):
    import dask.array as da

    from odc.geo.xr import wrap_xr

    ny, nx = g.shape
    shape = {"yx": (ny, nx), "tyx": (2, ny, nx), "yxb": (ny, nx, 3)}[rank]
    data = np.arange(int(np.prod(shape)), dtype="int32").reshape(shape)
    if backing == "dask":
        data = da.from_array(data, chunks=tuple(max(1, s // 2) for s in shape))
    t = ["2020-01-01", "2020-01-02"] if rank == "tyx" else None
    name = rng.choice(["spatial_ref", "spatial_ref", "crs", "projection"])
    return wrap_xr(data, g, time=t, nodata=rng.choice([None, -1]), crs_coord_name=name)


def case_history(mon: Monitor, rng: random.Random) -> None:
    g, fam = make_box(rng)
    ny, nx = g.shape
    rank = rng.choice(["yx", "yx", "tyx", "yxb"])
    backing = rng.choice(["numpy", "numpy", "dask"])
    linear = getattr(g, "linear", True)
    thin = 1 in (ny, nx)
    desc = {"geobox": gen.gbox_desc(g) if linear else {"gcp": True, "shape": list(g.shape)}, "family": fam, "rank": rank, "backing": backing}
    if g.crs is None and thin:
        return mon.skip("roundtrip", "single row/column without CRS")
    xx, e = call(wrap, rng, g, rank, backing)
    if e is not None:
        return mon.fail("roundtrip", {**desc, "exc": e}, key="wrap-raises", cls=fam)
    g0, e = call(lambda: xx.odc.geobox)
    cls = fam + ("|thin" if thin else "")
    ok = e is None and same_box(g0, g)
    rot = fam in ("rotated", "sheared")
    mon.check(ok, "roundtrip", lambda: {**desc, "recovered": gen.gbox_desc(g0) if g0 is not None and hasattr(g0, "affine") else repr(g0)[:100], "exc": e},
              key="roundtrip-rotated-thin" if (rot and thin) else "roundtrip", cls=cls, sig=hsig("rt", repr(desc)), sample=desc)
    if not ok:
        return
    if linear and g0 is not None:
        mon.obs["roundtrip_bit_identical" if g0 == g else "roundtrip_equal_to_roundoff"] += 1
    c, e = call(lambda: (xx.odc.crs, xx.odc.spatial_dims, xx.odc.transform))
    ok_acc = e is None and c[0] == g.crs and tuple(c[1]) == tuple(g.dimensions)
    mon.check(ok_acc, "accessors", lambda: {**desc, "crs": str(c[0]) if c else None, "spatial_dims": c[1] if c else None, "exc": e}, key="accessors", cls=cls)
    # (histories on control-point boxes too: slicing gives them a pixel-side affine, and the accessor caches the box on the array - the pickled array must bring it along intact)
    # ---- history with trackers
    iy, ix = np.arange(ny), np.arange(nx)
    ydim, xdim = xx.odc.spatial_dims
    hist = []
    for step in range(rng.randint(1, 6)):
        op = rng.choice(["slice", "slice", "slice", "arith", "astype", "pickle", "copy", "cmp"])
        if op == "slice":
            def rs(n):
                a = rng.randint(0, n - 1)
                b = rng.randint(a + 1, n)
                st = rng.choice([1, 1, 1, 2, 3, -1, -2])
                if st > 0:
                    return slice(a, b, st)
                return slice(b - 1, a - 1 if a > 0 else None, st)
            sy, sx = rs(len(iy)), rs(len(ix))
            xx = xx.isel({ydim: sy, xdim: sx})
            iy, ix = iy[sy], ix[sx]
            hist.append(["slice", [sy.start, sy.stop, sy.step], [sx.start, sx.stop, sx.step]])
        elif op == "arith":
            if xx.dtype == bool:
                xx = xx.astype("int16")
            xx = rng.choice([lambda z: z * 2 + 1, lambda z: z - 3, lambda z: z + z, lambda z: -z])(xx)
            hist.append(["arith"])
        elif op == "cmp":
            xx = xx > 5
            hist.append([">"])
        elif op == "astype":
            xx = xx.astype(rng.choice(["float32", "int16", "float64"]))
            hist.append(["astype"])
        elif op == "pickle":
            xx = pickle.loads(pickle.dumps(xx))
            hist.append(["pickle"])
        else:
            xx = rng.choice([lambda z: z.copy(), copy.deepcopy, copy.copy])(xx)
            hist.append(["copy"])
        gg, e = call(lambda: xx.odc.geobox)
        wit = lambda extra=None: {**desc, "history": hist, "rows_left": iy[:8], "cols_left": ix[:8], **(extra or {})}
        thin_now = 1 in (len(iy), len(ix))
        if g.crs is None and thin_now:
            mon.skip("history", "single row/column without CRS")
            return
        if e is not None or gg is None:
            return mon.fail("history", wit({"exc": e, "geobox": None}), key="history-geobox-lost", cls=cls)
        if tuple(gg.shape) != (len(iy), len(ix)) or gg.crs != g.crs or (g.crs is not None and not gg.crs.proj.equals(g.crs.proj)):
            return mon.fail("history", wit({"shape": list(gg.shape), "crs": str(gg.crs)}), key="history-shape-crs", cls=cls)
        # every remaining element sits where its original pixel was
        jj, ii = np.meshgrid(np.arange(len(ix)) + 0.5, np.arange(len(iy)) + 0.5)
        ox, oy = np.meshgrid(ix + 0.5, iy + 0.5)
        if linear:
            got = at(gg, np.c_[jj.ravel(), ii.ravel()])
            want = at(g, np.c_[ox.ravel(), oy.ravel()])
            px = float(np.abs(pairs.M3(g.affine)[:2, :2]).sum())
        else:
            # control-point boxes: the original box's own mapping says where each original pixel is; the recovered box must say the same for what is left of them
            if getattr(gg, "linear", True):
                return mon.fail("history", wit({"why": "control-point box came back as an affine box"}), key="history-shape-crs", cls=cls)
            got = np.stack([np.asarray(v, dtype="float64").ravel() for v in gg.pix2wld(jj.ravel().copy(), ii.ravel().copy())], axis=1)
            want = np.stack([np.asarray(v, dtype="float64").ravel() for v in g.pix2wld(ox.ravel().astype("float64"), oy.ravel().astype("float64"))], axis=1)
            px = 2 * max(abs(g.resolution.x), abs(g.resolution.y))
            rot = True  # labels of such arrays are pixel indices, not world coordinates
        tol = 1e-6 * px * (100 if rot else 1) + 64 * np.spacing(max(1.0, float(np.abs(want).max())))
        err = float(np.abs(got - want).max())
        ok_pos = err <= tol
        ok_lab = True
        if not rot:
            labx, laby = xx[xdim].values, xx[ydim].values
            wx = at(g, np.c_[ix + 0.5, np.zeros(len(ix))])[:, 0]
            wy = at(g, np.c_[np.zeros(len(iy)), iy + 0.5])[:, 1]
            ok_lab = np.allclose(labx, wx, rtol=0, atol=tol) and np.allclose(laby, wy, rtol=0, atol=tol)
        mon.check(ok_pos and ok_lab, "history", lambda: wit({"max_position_error": err, "tolerance": tol, "labels_ok": bool(ok_lab), "recovered": gen.gbox_desc(gg)}),
                  key="history-position" if not ok_pos else "history-labels", cls=cls + ("|strided" if any(h[0] == "slice" and (abs(h[1][2]) > 1 or abs(h[2][2]) > 1) for h in hist) else "") + ("|reversed" if any(h[0] == "slice" and (h[1][2] < 0 or h[2][2] < 0) for h in hist) else ""),
                  sig=hsig("h", repr(desc), repr(hist)), sample=wit())
        if not (ok_pos and ok_lab):
            return
        rot = fam in ("rotated", "sheared")


def case_reproject(mon: Monitor, rng: random.Random) -> None:
    import dask.array as da
    import xarray as xr

    from odc.geo.geobox import GeoBox
    from odc.geo.xr import wrap_xr, xr_reproject

    cross = rng.random() < 0.55
    if cross:
        pr = pairs.cross_crs_pair(rng, max_n=24)
        if pr is None:
            return mon.skip("reproject", "no common window")
        src, dst, place = pr
    else:
        src, dst, k0, _l = pairs.same_crs_pair(rng, max_n=24, binary_exact=rng.random() < 0.5)
        place = k0
    H, W = src.shape
    container = rng.choice(["DataArray", "DataArray", "Dataset"])
    backing = rng.choice(["numpy", "dask"])
    how_kind = rng.choice(["geobox", "geobox", "crs", "crs-lower", "utm"]) if cross else rng.choice(["geobox", "geobox", "crs"])
    data = (np.arange(H * W).reshape(H, W) % 50 + 1).astype(rng.choice(["int16", "float32", "uint8"]))
    mk = (lambda a: da.from_array(a, chunks=(max(1, H // 2), max(1, W // 2)))) if backing == "dask" else (lambda a: a)
    coord_name = rng.choice(["spatial_ref", "spatial_ref", "crs", "projection"])
    xx = wrap_xr(mk(data), src, nodata=rng.choice([None, 0]), crs_coord_name=coord_name)
    xx.attrs.update({"crs": str(src.crs), "units": "furlongs"} if rng.random() < 0.5 else {"epsg": 0, "long_name": "thing"})
    rkw = {}
    if how_kind == "geobox":
        how, want = dst, dst
    else:
        how = {"crs": str(dst.crs), "crs-lower": str(dst.crs).lower(), "utm": "utm"}[how_kind]
        # the request may carry grid options; what it asks for is what the plain function computes for the source GeoBox (C11 judges that function), not what the accessor
        # - the entry point under observation here - says it would do
        from odc.geo.overlap import compute_output_geobox
        from odc.geo.types import AnchorEnum

        rkw = rng.choice([{}, {}, {}, {"anchor": "center"}, {"anchor": "edge"}, {"anchor": AnchorEnum.CENTER}, {"anchor": 0.25}, {"resolution": "same"}, {"tight": True}, {"anchor": "floating"}, {"resolution": "fit", "anchor": "center"}])
        want, e = call(compute_output_geobox, src, how, **rkw)
        if e is not None:
            return mon.skip("reproject", "output_geobox failed (C11's domain)")
        if rkw.get("resolution") == "same" and want.crs.units != src.crs.units:
            return mon.skip("reproject", "the source's pixel size kept across different units: not a meaningful request")
        if want.shape[0] * want.shape[1] > 20_000 or 0 in want.shape:
            return mon.skip("reproject", "requested grid too large for this check (e.g. the source's resolution kept across units)")
        via_acc, e_acc = call(xx.odc.output_geobox, how, **rkw)
        mon.check(e_acc is None and same_box(via_acc, want), "reproject.output_geobox", lambda: {"src": gen.gbox_desc(src), "how": how, "options": repr(rkw), "accessor": gen.gbox_desc(via_acc) if via_acc is not None else None,
                  "function": gen.gbox_desc(want), "exc": e_acc}, key="accessor-grid-differs", cls=("same-crs" if not cross else "cross") + ("|options" if rkw else ""))
    desc = {"src": gen.gbox_desc(src), "how": how_kind, "dst": gen.gbox_desc(want), "container": container, "backing": backing, "placement": place, "crs_coord_name": coord_name}
    cls = f"{container}|{'cross' if cross else 'same'}|{how_kind}"
    if container == "DataArray":
        out, e = call(xr_reproject, xx, how, **rkw) if rng.random() < 0.5 else call(xx.odc.reproject, how, **rkw)
        if e is not None:
            return mon.fail("reproject", {**desc, "exc": e}, key="reproject-raises", cls=cls)
        outs = {"": out}
    else:
        ds = xr.Dataset({"a": xx, "b": (xx * 2).astype("float32"), "t": xr.DataArray(np.arange(3), dims=("time",)), "scalar": xr.DataArray(7.5)})
        ds["b"].attrs.update(xx.attrs)
        if rng.random() < 0.5:
            ds = ds[["t", "b", "a", "scalar"]]
        ds.attrs["title"] = "keep or drop, not judged"
        ds_spatial = rng.choice([{}, {"crs": str(src.crs)}, {"crs": str(src.crs), "grid_mapping": coord_name}, {"crs_wkt": src.crs.wkt, "epsg": src.crs.epsg or 0}])
        ds.attrs.update(ds_spatial)
        desc["dataset_attrs"] = sorted(ds_spatial)
        out, e = call(xr_reproject, ds, how, **rkw) if rng.random() < 0.5 else call(ds.odc.reproject, how, **rkw)
        if e is not None:
            return mon.fail("reproject", {**desc, "exc": e}, key="reproject-raises", cls=cls)
        g_ds, e2 = call(lambda: out.odc.geobox)
        ok = e2 is None and same_box(g_ds, want) and out.odc.crs == want.crs
        mon.check(ok, "reproject.dataset", lambda: {**desc, "recovered": gen.gbox_desc(g_ds) if g_ds is not None else None, "crs": str(out.odc.crs) if e2 is None else None, "exc": e2},
                  key="dataset-reproject-crs" if (e2 is None and g_ds is not None and g_ds.crs != want.crs) else "reproject-geobox", cls=cls, sig=hsig("rd", repr(desc)))
        stale_ds = [k for k in ("crs", "crs_wkt", "grid_mapping", "gcps", "epsg") if k in out.attrs]
        mon.check(not stale_ds, "reproject.dataset-attrs", lambda: {**desc, "stale_dataset_attrs": stale_ds}, key="reproject-stale-attrs", cls=cls + ("|spatial-ds-attrs" if ds_spatial else ""), sig=hsig("rda", repr(desc)))
        ok_pass = "t" in out and "scalar" in out and np.array_equal(out["t"].values, np.arange(3)) and float(out["scalar"]) == 7.5 and out["t"].dims == ("time",)
        mon.check(ok_pass, "reproject.passthrough", lambda: {**desc, "vars": list(out.data_vars)}, key="passthrough", cls=cls)
        outs = {"a": out["a"], "b": out["b"]}
    for name, o in outs.items():
        gg, e = call(lambda: o.odc.geobox)
        ok_g = e is None and same_box(gg, want) and gg.crs == want.crs and o.odc.crs == want.crs
        stale = [k for k in ("crs", "crs_wkt", "grid_mapping", "gcps", "epsg") if k in o.attrs]
        ok_dims = tuple(o.odc.spatial_dims or ()) == tuple(want.dimensions) and tuple(o.shape[-2:]) == tuple(want.shape)
        kept = all(k in o.attrs for k in ("units", "long_name") if k in xx.attrs)
        mon.check(ok_g and not stale and ok_dims and kept, "reproject", lambda: {**desc, "variable": name, "recovered": gen.gbox_desc(gg) if gg is not None else None, "stale_attrs": stale, "dims_ok": ok_dims,
                  "other_attrs_kept": kept, "exc": e}, key="reproject-stale-attrs" if stale else "reproject-geobox", cls=cls, sig=hsig("r", repr(desc), name), sample=desc)
        if ok_g and getattr(gg, "linear", True):
            mon.obs["reproject_geobox_bit_identical" if gg == want else "reproject_geobox_equal_to_roundoff"] += 1
        # the registration of a reprojected array survives the same element-wise operations as any other array
        if ok_g:
            step = rng.choice(["+1", "astype", "*2", "pickle", "copy"])
            o2, e = call({"+1": lambda z: z + 1, "astype": lambda z: z.astype("float64"), "*2": lambda z: z * 2, "pickle": lambda z: pickle.loads(pickle.dumps(z)), "copy": lambda z: z.copy()}[step], o)
            g2, e2 = call(lambda: o2.odc.geobox) if e is None else (None, e)
            ok2 = e is None and e2 is None and same_box(g2, want) and g2.crs == want.crs and o2.odc.crs == want.crs
            mon.check(ok2, "reproject.then-op", lambda: {**desc, "variable": name, "op": step, "recovered": gen.gbox_desc(g2) if g2 is not None else None, "crs": str(getattr(g2, "crs", None))[:40], "exc": e or e2},
                      key="reproject-then-op-geobox", cls=cls + ("" if coord_name == "spatial_ref" else "|custom-crs-coord"), sig=hsig("ro", repr(desc), name, step))


CASES = {"history": case_history, "reproject": case_reproject}


def run(mon: Monitor, tier: str, seed: int, shard: int, nshards: int) -> None:
    rng = random.Random(seed * 1000 + shard + 9)
    counts = {"history": 1500, "reproject": 350} if tier == "quick" else {"history": 15000, "reproject": 3000}
    for kind, n in counts.items():
        for _ in range(n):
            rs = rng.getrandbits(48)
            mon.case = {"kind": kind, "rs": rs}
            try:
                CASES[kind](mon, random.Random(rs))
            except Exception as e:
                mon.error(kind, e)
    mon.case = None
    for pt, n in [("roundtrip", 600), ("history", 800), ("reproject", 150), ("reproject.dataset", 30), ("reproject.passthrough", 30), ("reproject.then-op", 150), ("roundtrip|gcp", 20), ("roundtrip|gcp|zoom_out", 5), ("roundtrip|gcp|zoom_to", 5), ("roundtrip|gcp|crop+zoom", 5), ("roundtrip|rotated|thin", 3),
                  ("roundtrip|north-up|thin", 10), ("history|rotated|strided|reversed", 3), ("history|north-up|strided", 10), ("reproject|Dataset|cross|utm", 1), ("reproject|DataArray|cross|geobox", 10),
                  ("reproject|Dataset|cross|geobox", 5), ("reproject.dataset-attrs", 40)]:
        mon.floor(pt, n)


def replay(mon: Monitor, case) -> None:
    mon.case = case
    CASES[case["kind"]](mon, random.Random(case["rs"]))
