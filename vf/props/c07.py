"""C07 - geometry reprojection and densification are faithful.

Post-condition monitors on Geometry.to_crs / Geometry.segmented / densify (every alias rebound), evaluated on every
call: direct stratified workload and calls from inside footprint(), GeoBox.to_crs, tile queries ...
Oracles: the oracle's own pyproj transformer applied vertex by vertex; plain numpy geometry for densification.
"""
from __future__ import annotations

import math
import random

import numpy as np

from .. import gen
from ..attach import attach, detach_all, calls, replay_call, oracle_section
from ..kernel import Monitor, call, hsig

PID = "C07"
RULE = ("11 geometry kinds x vertex clouds (on the axes, near them, 1e3..1e7 away) x edges in 16 directions incl. exactly vertical/horizontal x resolutions from 1/50 of the shortest "
        "edge to 10x the longest; CRS pairs from a table of 10 CRSs with lon/lat windows inside their valid areas, densification requested directly and via to_crs(resolution=); "
        "there-and-back conversions; distinct = distinct (entry point, geometry coordinates, request)")
ASSUMPTIONS = ["pyproj/PROJ (oracle's own transformer objects, never the library's cache) defines how a point maps", "shapely for area/length",
               "round trip bound 1e-6 m (1e-11 deg) same datum, 1e-2 m with a datum shift (EPSG:27700)"]
SHARDS = {"quick": 1, "thorough": 8}
SUITE_UNDER_MONITOR = True

_mon: Monitor = None  # type: ignore


def _err(label, e):
    _mon.error(label, e)


# --------------------------------------------------------------------------- densify contract
def judge_densify(point, coords, resolution, out, wit, cls, sig, sample=None):
    """coords/out: lists of (x, y[, z]) tuples."""
    a = np.asarray([c[:2] for c in coords], dtype="float64")
    b = np.asarray([c[:2] for c in out], dtype="float64")
    if len(a) < 2:
        return _mon.check(len(b) == len(a), point, wit({"why": "short input changed"}), key="densify-structure", cls=cls)
    b = b.reshape(-1, 2)
    scale = max(1.0, float(np.abs(a).max()))
    eps = 8 * math.ulp(scale)
    # (1) every output edge is short enough
    if len(b) >= 2:
        el = np.hypot(*(b[1:] - b[:-1]).T)
        if el.max() > resolution * (1 + 1e-9) + eps:
            i = int(el.argmax())
            return _mon.fail(point, wit({"why": "edge longer than resolution", "edge": [b[i].tolist(), b[i + 1].tolist()], "length": float(el.max()), "resolution": resolution}), key="densify-long-edge", cls=cls)
    # (2) original vertices retained in order, (3) added vertices lie on the segment they were inserted on
    i = 0  # next original vertex to be matched
    na = len(a)
    t_prev = 0.0  # position of the previous added vertex along the current edge: added vertices must advance from p to q
    for j in range(len(b)):
        if i < na and b[j, 0] == a[i, 0] and b[j, 1] == a[i, 1]:
            i += 1
            t_prev = 0.0
            continue
        if i == 0:
            return _mon.fail(point, wit({"why": "first vertex not retained"}), key="densify-vertices", cls=cls)
        if i == na:
            # only an exact repeat of the final vertex is harmless here
            if b[j, 0] == a[-1, 0] and b[j, 1] == a[-1, 1]:
                continue
            return _mon.fail(point, wit({"why": "vertices after the last original one", "vertex": b[j].tolist()}), key="densify-vertices", cls=cls)
        p, q = a[i - 1], a[i]
        seg = q - p
        L = math.hypot(seg[0], seg[1])
        if L == 0:
            return _mon.fail(point, wit({"why": "vertex inserted on a zero-length edge", "at": b[j].tolist()}), key="densify-off-edge", cls=cls)
        v = b[j] - p
        t = float(v[0] * seg[0] + v[1] * seg[1]) / (L * L)
        dist = abs(float(seg[0] * v[1] - seg[1] * v[0])) / L
        if dist > 1e-9 * scale + eps or not (-1e-9 <= t <= 1 + 1e-9):
            return _mon.fail(point, wit({"why": "added vertex off its edge", "vertex": b[j].tolist(), "edge": [p.tolist(), q.tolist()], "distance": dist, "t": t}), key="densify-off-edge", cls=cls)
        if t < t_prev - 1e-9:
            return _mon.fail(point, wit({"why": "added vertices run backwards along their edge", "vertex": b[j].tolist(), "edge": [p.tolist(), q.tolist()], "t": t, "t_previous": t_prev}), key="densify-backwards", cls=cls)
        t_prev = t
    if i != na:
        return _mon.fail(point, wit({"why": "original vertex missing", "vertex": a[i].tolist(), "index": i}), key="densify-vertices", cls=cls)
    _mon.ok(point, cls=cls, sig=sig, sample=sample)


def post_densify(args, kw, res, exc, snap):
    coords, resolution = args[0], args[1]
    if not (isinstance(resolution, (int, float)) and resolution > 0 and math.isfinite(resolution)) or len(coords) == 0:
        return _mon.skip("densify", "non-positive or non-finite resolution")
    a = np.asarray([c[:2] for c in coords], dtype="float64")
    if not np.all(np.isfinite(a)):
        return _mon.skip("densify", "non-finite coordinates")
    wit = lambda extra=None: {"coords": [list(c) for c in coords[:8]], "n_in": len(coords), "resolution": resolution, "n_out": None if res is None else len(res), **(extra or {})}
    if exc is not None:
        return _mon.fail("densify", wit({"exc": exc}), key="densify-raises")
    seg = a[1:] - a[:-1] if len(a) > 1 else np.zeros((0, 2))
    on_axis = bool(len(a) and (np.abs(a[:, 0]).min() == 0 or np.abs(a[:, 1]).min() == 0))
    near = bool(len(a) and np.abs(a).min() < resolution)
    vertical = bool(len(seg) and np.any((seg[:, 0] == 0) & (seg[:, 1] != 0)))
    cls = ("on-axis" if on_axis else "near-axis" if near else "far") + ("|vertical" if vertical else "")
    judge_densify("densify", coords, resolution, res, wit, cls, hsig("d", a.tobytes(), resolution), sample=wit())


def _parts(g):
    """Flatten a shapely geometry into [(type, [coords rings...])] preserving order."""
    t = g.geom_type
    if t in ("Point", "LineString", "LinearRing"):
        return [(t, [np.asarray(g.coords, dtype="float64").reshape(-1, 2 if not g.has_z else 3)[:, :2]])] if not g.is_empty else [(t, [])]
    if t == "Polygon":
        if g.is_empty:
            return [(t, [])]
        return [(t, [np.asarray(g.exterior.coords)[:, :2]] + [np.asarray(i.coords)[:, :2] for i in g.interiors])]
    out = [(t + ":" + str(len(g.geoms)), [])]
    for sub in g.geoms:
        out.extend(_parts(sub))
    return out


def post_segmented(args, kw, res, exc, snap):
    self, resolution = args[0], (args[1] if len(args) > 1 else kw.get("resolution"))
    if not (isinstance(resolution, (int, float)) and resolution > 0 and math.isfinite(resolution)):
        return _mon.skip("Geometry.segmented", "non-positive or non-finite resolution")
    g = self.geom
    wit = lambda extra=None: {"wkt": g.wkt[:400], "resolution": resolution, **(extra or {})}
    if g.is_empty and g.geom_type not in ("GeometryCollection",):
        # the statement quantifies over points, lines, rings, polygons, multi-geometries and collections; an empty
        # LineString/Polygon has no edge to judge (the library raises IndexError on it: observation, not verdict)
        _mon.obs["segmented_on_empty_" + ("raises" if exc is not None else "ok")] += 1
        return _mon.skip("Geometry.segmented", "empty geometry")
    if exc is not None:
        return _mon.fail("Geometry.segmented", wit({"exc": exc}), key="segmented-raises", cls=g.geom_type)
    r = res.geom
    pa, pb = _parts(g), _parts(r)
    if res.crs != self.crs or r.geom_type != g.geom_type or [p[0] for p in pa] != [p[0] for p in pb] or [len(p[1]) for p in pa] != [len(p[1]) for p in pb]:
        return _mon.fail("Geometry.segmented", wit({"why": "type / part structure / crs changed", "out": r.wkt[:300]}), key="segmented-structure", cls=g.geom_type)
    scale = max(1.0, max((float(np.abs(c).max()) for p in pa for c in p[1] if len(c)), default=1.0))
    for (t, ra), (_, rb) in zip(pa, pb):
        for ca, cb in zip(ra, rb):
            if t == "Point":
                if not np.array_equal(ca, cb):
                    return _mon.fail("Geometry.segmented", wit({"why": "point moved"}), key="segmented-structure", cls=g.geom_type)
                continue
            bad = []
            judge = lambda point, coords, rs, out, w, cls, sig, sample=None: None
            # reuse the densify judge through a local recorder
            n_before = _mon.n_fail
            judge_densify("Geometry.segmented.ring", [tuple(x) for x in ca], resolution, [tuple(x) for x in cb], wit, g.geom_type, None)
            if _mon.n_fail != n_before:
                return
    tol_rel = 1e-9
    ok_al = abs(r.area - g.area) <= tol_rel * max(abs(g.area), scale * scale * 1e-6) + 1e-9 * scale * max(g.length, 1e-300) and abs(r.length - g.length) <= tol_rel * max(g.length, scale)
    nv_in, nv_out = sum(len(c) for p in pa for c in p[1]), sum(len(c) for p in pb for c in p[1])
    _mon.check(ok_al, "Geometry.segmented", lambda: wit({"why": "area/length changed", "area": [g.area, r.area], "length": [g.length, r.length]}), key="segmented-area-length",
               cls=g.geom_type, sig=hsig("s", g.wkb, resolution), sample=wit({"vertices": [nv_in, nv_out]}))
    _mon.obs["vertices_added"] += nv_out - nv_in


def post_to_crs(args, kw, res, exc, snap):
    self = args[0]
    crs = args[1] if len(args) > 1 else kw.get("crs")
    resolution = args[2] if len(args) > 2 else kw.get("resolution")
    wrapdateline = args[3] if len(args) > 3 else kw.get("wrapdateline", False)
    check_and_fix = kw.get("check_and_fix", False)
    from odc.geo.crs import CRS

    if isinstance(crs, str) and crs.lower().startswith("utm"):
        return _mon.skip("Geometry.to_crs", "utm keyword")
    try:
        target = crs if isinstance(crs, CRS) else CRS(crs)
    except Exception:
        return _mon.skip("Geometry.to_crs", "unparsable target")
    g = self.geom
    wit = lambda extra=None: {"wkt": g.wkt[:300], "src": str(self.crs)[:30], "dst": str(target)[:30], "resolution": resolution, **(extra or {})}
    if self.crs is None:
        return _mon.check(isinstance(exc, ValueError), "Geometry.to_crs", lambda: wit({"exc": exc, "res": repr(res)[:100]}), key="to_crs-no-crs-accepted", cls="no-crs", sig=hsig("t0", g.wkb))
    same = self.crs.proj.equals(target.proj)
    if same:
        return _mon.check(exc is None and res is self, "Geometry.to_crs", lambda: wit({"exc": exc, "same_object": res is self}), key="to_crs-same-crs-not-identity", cls="same-crs",
                          sig=hsig("t1", g.wkb, str(target)))
    if check_and_fix:
        return _mon.skip("Geometry.to_crs", "check_and_fix (may legitimately restructure)")
    if wrapdateline:
        # chopping only concerns geometries that reach the antimeridian: anywhere else the keyword must change nothing (densification included)
        allc = [c for p in _parts(g) for c in p[1] if len(c)]
        if not allc:
            return _mon.skip("Geometry.to_crs", "wrapdateline on an empty geometry")
        xy = np.concatenate(allc)
        lon, _lat = gen.transformer(self.crs.proj.to_wkt(), "EPSG:4326").transform(xy[:, 0], xy[:, 1])
        if not np.isfinite(lon).all() or np.abs(lon).max() > 170:
            return _mon.skip("Geometry.to_crs", "wrapdateline near the antimeridian (may legitimately restructure)")
    if exc is not None:
        key = "to_crs-raises"
        if wrapdateline:
            # K6 in its other guise: the bogus segment makes the chop try to split a geometry 170+ degrees away from the antimeridian, and GEOS cannot split collections
            with oracle_section():
                _plain, e_plain = call(lambda: self.to_crs(target, resolution) if resolution is not None else self.to_crs(target))
            if e_plain is None and "Splitting" in str(exc):
                key = "antimeridian-chop-far-from-antimeridian"
        return _mon.fail("Geometry.to_crs", wit({"exc": exc, "wrapdateline": bool(wrapdateline)}), key=key)
    src_geom = g
    if resolution == "auto":
        return _mon.skip("Geometry.to_crs", "auto resolution")
    if resolution is not None and math.isfinite(resolution):
        if resolution <= 0:
            return _mon.skip("Geometry.to_crs", "non-positive resolution")
        with oracle_section():
            src_geom = self.segmented(resolution).geom  # densification has its own monitor
    r = res.geom
    pa, pb = _parts(src_geom), _parts(r)
    if res.crs != target or r.geom_type != g.geom_type or [p[0] for p in pa] != [p[0] for p in pb] or [[len(c) for c in p[1]] for p in pa] != [[len(c) for c in p[1]] for p in pb]:
        key = "to_crs-structure"
        if wrapdateline and res.crs == target and len(pb) > len(pa) and not g.is_empty:
            # K6: cut into more parts although no vertex is within 10 degrees of the antimeridian; same point set (area / length preserved against the un-chopped conversion)
            with oracle_section():
                plain = self.to_crs(target, resolution) if resolution is not None else self.to_crs(target)
            same_set = abs(r.area - plain.geom.area) <= 1e-4 * max(plain.geom.area, 1e-300) and abs(r.length - plain.geom.length) <= 0.5 * max(r.length, 1e-300)
            if same_set:
                key = "antimeridian-chop-far-from-antimeridian"
        return _mon.fail("Geometry.to_crs", wit({"why": "crs / type / part structure / vertex count changed", "out": r.wkt[:200], "out_crs": str(res.crs)[:30], "wrapdateline": bool(wrapdateline), "parts": [len(pa), len(pb)]}), key=key, cls=g.geom_type)
    tr = gen.transformer(self.crs.proj.to_wkt(), target.proj.to_wkt())
    worst = 0.0
    for (t, ra), (_, rb) in zip(pa, pb):
        for ca, cb in zip(ra, rb):
            if len(ca) == 0:
                continue
            x, y = tr.transform(ca[:, 0], ca[:, 1])
            want = np.stack([x, y], axis=1)
            fin = np.isfinite(want).all(axis=1)
            if not np.array_equal(fin, np.isfinite(cb).all(axis=1)):
                return _mon.fail("Geometry.to_crs", wit({"why": "non-finite pattern differs"}), key="to_crs-vertex", cls=g.geom_type)
            if fin.any():
                d = np.abs(cb[fin] - want[fin]) / np.maximum(1.0, np.abs(want[fin]))
                worst = max(worst, float(d.max()))
    densified = src_geom is not g
    _mon.check(worst <= 1e-12, "Geometry.to_crs", lambda: wit({"why": "vertex not where the projection library maps it", "max_rel_diff": worst}), key="to_crs-vertex",
               cls=("custom-crs|" if ("+proj" in str(self.crs) or "+proj" in str(target)) else "") + ("wrapdateline|" if wrapdateline else "") + ("densified|" if densified else "") + g.geom_type,
               sig=hsig("t", g.wkb, str(self.crs), str(target), resolution), sample=wit())
    _mon.obs["to_crs_bit_identical" if worst == 0 else "to_crs_within_1e-12"] += 1


def install(mon: Monitor) -> None:
    global _mon
    _mon = mon
    from odc.geo import geom as G

    attach(G, "densify", post=post_densify, on_error=_err, label="densify")
    attach(G.Geometry, "segmented", post=post_segmented, on_error=_err, label="Geometry.segmented")
    attach(G.Geometry, "to_crs", post=post_to_crs, on_error=_err, label="Geometry.to_crs")


# --------------------------------------------------------------------------- workload
KINDS = ["point", "line", "ring", "polygon", "polygon-hole", "multipoint", "multiline", "multipolygon", "collection", "empty-polygon", "empty-collection"]
DIRS = [(math.cos(k * math.pi / 8), math.sin(k * math.pi / 8)) for k in range(16)]


def make_shape(rng: random.Random, kind: str, origin, size: float):
    """Shapely geometry of the given kind around `origin` with features of about `size`."""
    import shapely.geometry as sg

    ox, oy = origin

    def pt():
        return (ox + rng.uniform(-size, size), oy + rng.uniform(-size, size))

    def path(n):
        p = [pt()]
        for _ in range(n - 1):
            dx, dy = rng.choice(DIRS)
            if abs(dx) < 1e-12:
                dx = 0.0
            if abs(dy) < 1e-12:
                dy = 0.0
            L = size * rng.choice([0.01, 0.1, 0.5, 1, 2])
            p.append((p[-1][0] + dx * L, p[-1][1] + dy * L))
        return p

    def poly(c=None, r=None, hole=False):
        cx, cy = c or pt()
        r = r or size * rng.uniform(0.2, 1)
        n = rng.choice([3, 4, 4, 6])
        a0 = rng.choice([0, math.pi / 4, rng.uniform(0, 1)])
        shell = [(cx + r * math.cos(a0 + 2 * math.pi * k / n), cy + r * math.sin(a0 + 2 * math.pi * k / n)) for k in range(n)]
        if n == 4 and rng.random() < 0.5:
            shell = [(cx - r, cy - r), (cx + r, cy - r), (cx + r, cy + r), (cx - r, cy + r)]  # exactly axis-parallel edges
        holes = [[(cx - r / 4, cy - r / 4), (cx + r / 4, cy - r / 4), (cx, cy + r / 4)]] if hole else []
        return sg.Polygon(shell, holes)

    if kind == "point":
        return sg.Point(*pt())
    if kind == "line":
        return sg.LineString(path(rng.randint(2, 6)))
    if kind == "ring":
        return sg.LinearRing(list(poly().exterior.coords)[:-1])
    if kind == "polygon":
        return poly()
    if kind == "polygon-hole":
        return poly(hole=True)
    if kind == "multipoint":
        return sg.MultiPoint([pt() for _ in range(3)])
    if kind == "multiline":
        return sg.MultiLineString([path(2), path(3)])
    if kind == "multipolygon":
        return sg.MultiPolygon([poly((ox - 3 * size, oy), size), poly((ox + 3 * size, oy + size), size * 0.7, hole=True)])
    if kind == "collection":
        return sg.GeometryCollection([sg.Point(*pt()), sg.LineString(path(3)), poly()])
    if kind == "empty-polygon":
        return sg.Polygon()
    return sg.GeometryCollection()


def drive_densify(mon: Monitor, rng: random.Random, n: int) -> None:
    from odc.geo import geom as G

    for _ in range(n):
        kind = rng.choice(KINDS)
        mag = rng.choice([0, 0, 1, 1e3, 1e5, 1e7])
        origin = rng.choice([(0.0, 0.0), (mag, 0.0), (0.0, -mag), (mag, mag), (rng.uniform(-mag, mag), rng.uniform(-mag, mag))])
        size = rng.choice([1.0, 100.0, 1e4, 0.01])
        shp = make_shape(rng, kind, origin, size)
        if rng.random() < 0.15:
            # the classic: an edge with both end points on / near an axis
            import shapely.geometry as sg

            L = size * rng.choice([1, 10, 100])
            ang = rng.choice([45, 135, 225, 315, 30, 60, rng.uniform(0, 360)])
            ox_, oy_ = origin
            shp = rng.choice([sg.LineString([(0, 0), (0, L)]), sg.LineString([(0, -L), (0, L), (L, L)]), sg.LineString([(1e-9, 0), (1e-9, L)]),
                              sg.Polygon([(0, 0), (0, L), (L, L), (L, 0)]), sg.LineString([(-L, 0), (L, 0)]),
                              sg.LineString([(ox_, oy_), (ox_ + L * math.cos(math.radians(ang)), oy_ + L * math.sin(math.radians(ang)))]),
                              sg.LineString([(ox_, oy_), (ox_ + 3 * L, oy_ + 4 * L)]), sg.Polygon([(ox_, oy_), (ox_ + 3 * L, oy_), (ox_ + 3 * L, oy_ + 4 * L)])])
        g = G.Geometry(shp, rng.choice(["EPSG:3857", None, "EPSG:32633"]))
        edges = [math.hypot(q[0] - p[0], q[1] - p[1]) for part in _parts(shp) for c in part[1] for p, q in zip(c[:-1], c[1:])]
        edges = [e for e in edges if e > 0] or [size]
        res = max(rng.choice([min(edges) / 50, min(edges) / 3, min(edges), max(edges) / 7.5, max(edges), max(edges) * 10, size / 10,
                              # just below an edge length: the edge must still be split (once)
                              max(edges) * 0.999, max(edges) * 0.8, max(edges) * 0.72, min(edges) * 0.9, rng.choice(edges) * rng.uniform(0.5, 1.0)]), max(edges) / 400)
        try:
            g.segmented(res)
            if rng.random() < 0.2 and len(edges) > 0 and kind in ("line", "ring"):
                G.densify(list(shp.coords), res)
        except Exception:
            pass


def shared_edge_shapes(ox: float, oy: float, L: float):
    """Geometries in which one edge occurs more than once within the same object, walked in either direction: mosaics of adjacent tiles, a polygon
    together with its outline, a line retracing itself, a hole touching... (an edge's densification must not depend on where else the edge occurs)."""
    import shapely.geometry as sg

    def bx(i, j, w=1.0, h=1.0):
        return sg.box(ox + i * L, oy + j * L, ox + (i + w) * L, oy + (j + h) * L)  # shapely's box(): (maxx,miny) first, counter-clockwise

    def bx_cw(i, j):
        return sg.Polygon([(ox + i * L, oy + j * L), (ox + i * L, oy + (j + 1) * L), (ox + (i + 1) * L, oy + (j + 1) * L), (ox + (i + 1) * L, oy + j * L)])

    tri = sg.Polygon([(ox, oy), (ox + 3 * L, oy + 0.7 * L), (ox + 1.1 * L, oy + 2.6 * L)])
    a, b, c = (ox, oy), (ox + 2.3 * L, oy + 1.1 * L), (ox + 2.0 * L, oy - 1.7 * L)
    return {
        "tiles-row": sg.MultiPolygon([bx(0, 0), bx(1, 0), bx(2, 0)]),
        "tiles-col": sg.MultiPolygon([bx(0, 0), bx(0, 1), bx(0, 2)]),
        "tiles-2x2": sg.MultiPolygon([bx(0, 0), bx(1, 0), bx(0, 1), bx(1, 1)]),
        "tiles-2x2-cw": sg.MultiPolygon([bx_cw(1, 1), bx_cw(0, 1), bx_cw(1, 0), bx_cw(0, 0)]),
        "tiles-mixed": sg.MultiPolygon([bx_cw(0, 0), bx(1, 0), bx_cw(1, 1)]),
        "poly+outline": sg.GeometryCollection([tri, sg.LineString(list(tri.exterior.coords))]),
        "outline-rev+poly": sg.GeometryCollection([sg.LineString(list(tri.exterior.coords)[::-1]), tri]),
        "box+outline": sg.GeometryCollection([bx(0, 0, 2, 1), sg.LineString(list(bx(0, 0, 2, 1).exterior.coords)[::-1]), sg.LinearRing(list(bx(0, 0, 2, 1).exterior.coords)[:-1])]),
        "retrace": sg.LineString([a, b, a, b, c, b]),
        "retrace-rev": sg.LineString([b, a, b, c, b, a]),
        "multiline-repeat": sg.MultiLineString([[a, b], [b, a], [a, b, c], [c, b]]),
        "multiline-repeat-rev": sg.MultiLineString([[b, a], [a, b], [c, b, a]]),
        "hole-is-neighbour": sg.MultiPolygon([sg.Polygon(bx(0, 0, 3, 3).exterior.coords, [list(bx(1, 1).exterior.coords)]), bx(1, 1)]),
    }


def drive_shared_edges(mon: Monitor, rng: random.Random, n_random: int) -> None:
    """Deterministic part: every shape x resolutions that split each edge into 2..13 pieces, plain and through to_crs(resolution=); seeded part: other origins / sizes."""
    from odc.geo import geom as G

    def one(shp, L, crs, frac):
        g = G.Geometry(shp, crs)
        call(g.segmented, L * frac)
        mon.obs["shared_edge_geometries"] += 1
        if crs is not None and rng.random() < 0.5:
            call(g.to_crs, "EPSG:3857" if crs != "EPSG:3857" else "EPSG:32633", L * frac)

    for ox, oy, L, crs in [(0.0, 0.0, 1000.0, "EPSG:32633"), (500_000.0, 6_100_000.0, 12_000.0, "EPSG:32633"), (-3.0, 40.0, 0.5, "EPSG:4326"), (1.0, 2.0, 3.0, None)]:
        for name, shp in shared_edge_shapes(ox, oy, L).items():
            for frac in (0.45, 0.081, 0.3):
                one(shp, L, crs, frac)
    for _ in range(n_random):
        L = rng.choice([1.0, 250.0, 1e4])
        ox, oy = rng.uniform(-1e5, 1e5), rng.uniform(-1e5, 1e5)
        shapes = shared_edge_shapes(ox, oy, L)
        one(shapes[rng.choice(sorted(shapes))], L, rng.choice(["EPSG:32633", "EPSG:3857", None]), rng.uniform(0.05, 0.9))


def drive_fine(mon: Monitor, rng: random.Random) -> None:
    """Very fine densification of long edges: a 185 km scene footprint at 50 m needs 3700 points per side."""
    import shapely.geometry as sg
    from odc.geo import geom as G

    for k, pts_per_edge in enumerate([1500, 4000, 1100, 2500, 9000, 1001]):
        L = rng.choice([185_000.0, 3.9, 1e6])
        ox_, oy_ = rng.uniform(-1e5, 1e5), rng.uniform(-1e5, 1e5)
        shp = [sg.LineString([(ox_, oy_), (ox_ + 0.6 * L, oy_ + 0.8 * L)]), sg.Polygon([(ox_, oy_), (ox_ + L, oy_ + 0.05 * L), (ox_ + 0.9 * L, oy_ + L), (ox_ - 0.1 * L, oy_ + 0.9 * L)]),
               sg.LinearRing([(ox_, oy_), (ox_ + L, oy_), (ox_, oy_ + 0.3 * L)])][k % 3]
        call(G.Geometry(shp, "EPSG:32633").segmented, L / pts_per_edge)
        mon.obs["fine_densifications_over_1000_points_per_edge"] += 1


def drive_to_crs(mon: Monitor, rng: random.Random, n: int) -> None:
    from odc.geo import geom as G

    wins = gen.CRS_WINDOWS
    for it in range(n):
        e1, e2 = rng.sample(wins, 2)
        lo = (max(e1[1], e2[1]), min(e1[3], e2[3]))
        la = (max(e1[2], e2[2]), min(e1[4], e2[4]))
        if lo[0] >= lo[1] or la[0] >= la[1]:
            continue
        size_deg = rng.choice([0.01, 0.1, 0.5])
        lon, lat = rng.uniform(lo[0] + 2 * size_deg, lo[1] - 2 * size_deg), rng.uniform(la[0] + 2 * size_deg, la[1] - 2 * size_deg) if la[1] - la[0] > 4 * size_deg else (la[0] + la[1]) / 2
        kind = rng.choice(KINDS)
        shp_ll = make_shape(rng, kind, (lon, lat), size_deg / 3)
        # express in e1's CRS with the oracle's transformer
        import shapely.ops

        tr = gen.transformer("EPSG:4326", e1[0])
        shp1 = shapely.ops.transform(lambda x, y, z=None: tr.transform(x, y), shp_ll) if e1[0] != "EPSG:4326" else shp_ll
        g1 = G.Geometry(shp1, e1[0])
        resolution = None
        if rng.random() < 0.3 and not shp1.is_empty:
            span = max(shp1.bounds[2] - shp1.bounds[0], shp1.bounds[3] - shp1.bounds[1], 1e-9)
            resolution = span / rng.choice([3, 10, 40])
        target = rng.choice([e2[0], e2[0].lower(), int(e2[0].split(":")[1])])
        if rng.random() < 0.15:
            # same request with wrapdateline=True (geometries stay well away from the antimeridian: the result must not depend on the keyword)
            call(g1.to_crs, target, resolution, wrapdateline=True) if resolution is not None else call(g1.to_crs, target, wrapdateline=True)
        g2, exc = call(g1.to_crs, target, resolution) if resolution is not None else call(g1.to_crs, target)
        if exc is not None or resolution is not None or shp1.is_empty:
            continue
        if it % 2:
            continue
        back, exc = call(g2.to_crs, e1[0])
        if exc is not None:
            mon.fail("roundtrip", {"src": e1[0], "dst": e2[0], "exc": exc}, key="to_crs-raises")
            continue
        a = np.concatenate([c for p in _parts(shp1) for c in p[1]] or [np.zeros((0, 2))])
        b = np.concatenate([c for p in _parts(back.geom) for c in p[1]] or [np.zeros((0, 2))])
        if a.shape != b.shape or len(a) == 0:
            mon.check(a.shape == b.shape, "roundtrip", {"src": e1[0], "dst": e2[0], "shapes": [a.shape, b.shape]}, key="roundtrip-structure")
            continue
        shift = e1[0] in gen.DATUM_SHIFT or e2[0] in gen.DATUM_SHIFT
        unit = 1e-5 if e1[0] == "EPSG:4326" else 1.0  # degrees -> metre-equivalent
        bound = (1e-2 if shift else 1e-6) * unit
        d = float(np.abs(a - b).max())
        mon.check(d <= bound, "roundtrip", lambda: {"src": e1[0], "dst": e2[0], "max_abs_diff": d, "bound": bound, "kind": kind}, key="roundtrip-precision",
                  cls=("datum-shift" if shift else "same-datum"), sig=hsig("rt", e1[0], e2[0], a.tobytes()))
    # K6 witness (British National Grid, easting 177424 m): reproduced on every run
    import shapely.geometry as sg

    call(G.Geometry(sg.Polygon([(176164.0, 404451.0), (180113.0, 404266.0), (180421.0, 410888.0), (176478.0, 411073.0)]), "EPSG:27700").to_crs, "EPSG:4326", 680.0, wrapdateline=True)
    # same CRS in another spelling returns the very same object; no CRS refuses
    for _ in range(max(20, n // 50)):
        shp = make_shape(rng, rng.choice(KINDS[:9]), (10.0, 20.0), 1.0)
        g = G.Geometry(shp, "EPSG:4326")
        for t in ("epsg:4326", 4326, g.crs, g.crs.proj.to_wkt()):
            call(g.to_crs, t)
        call(G.Geometry(shp, None).to_crs, "EPSG:3857")
        # "already there" holds whatever else is asked for and whatever state the shape is in: invalid outlines (bow-tie, overlapping parts, hole outside the shell)
        # with check_and_fix / resolution / wrapdateline come back as the very same object too
        import shapely.geometry as sg_

        for bad in (sg_.Polygon([(9.0, 19.0), (11.0, 21.0), (11.0, 19.0), (9.0, 21.0)]), sg_.MultiPolygon([sg_.box(9, 19, 10.5, 20.5), sg_.box(10, 20, 11, 21)]),
                    sg_.Polygon([(9, 19), (11, 19), (11, 21), (9, 21)], [[(20, 30), (21, 30), (20.5, 31)]]), shp):
            gb_ = G.Geometry(bad, rng.choice(["EPSG:4326", "epsg:4326"]))
            kw_ = rng.choice([{"check_and_fix": True}, {"check_and_fix": True, "resolution": 0.3}, {"resolution": 0.5}, {"wrapdateline": True}, {"check_and_fix": True, "wrapdateline": True}])
            call(gb_.to_crs, rng.choice(["EPSG:4326", 4326, "epsg:4326", gb_.crs]), **kw_)
            mon.obs["same_crs_requests_with_options"] += 1


LOOKALIKES = gen.LOOKALIKES


def drive_lookalikes(mon: Monitor, rng: random.Random, n: int) -> None:
    """Distinct CRSs that resemble each other, both reprojected to/from the same third CRS in one process (every call is judged by post_to_crs)."""
    from odc.geo import geom as G
    from odc.geo.crs import CRS
    import shapely.ops

    for _ in range(n):
        custom, reg, win = rng.choice(LOOKALIKES)
        other = rng.choice(["EPSG:4326", "EPSG:4326", "EPSG:3857"])
        size = rng.choice([0.01, 0.1, 0.5])
        lon, lat = rng.uniform(win[0] + 2 * size, win[2] - 2 * size), rng.uniform(win[1] + 2 * size, win[3] - 2 * size)
        shp_ll = make_shape(rng, rng.choice(KINDS[:9]), (lon, lat), size / 3)
        if other == "EPSG:4326":
            g = G.Geometry(shp_ll, other)
        else:
            tr = gen.transformer("EPSG:4326", other)
            g = G.Geometry(shapely.ops.transform(lambda x, y, z=None: tr.transform(x, y), shp_ll), other)
        order = [custom, reg] if rng.random() < 0.5 else [reg, custom]
        # fresh CRS objects half of the time: the caches must not care which object spells the CRS
        for c in order:
            target = CRS(c) if rng.random() < 0.5 else c
            out, exc = call(g.to_crs, target)
            if exc is None and not out.is_empty:
                call(out.to_crs, other)


def drive_oneoff(mon: Monitor, rng: random.Random, n: int) -> None:
    """Per-tile one-off projections (local LAEA / transverse-Mercator CRSs made up on the fly and dropped again): hundreds of distinct CRSs in one process.
    Whatever is cached along the way, every conversion there and back is judged like any other (post_to_crs)."""
    import gc

    import shapely.geometry as sg
    from odc.geo import geom as G

    for i in range(n):
        lon0, lat0 = rng.uniform(-170, 170), rng.uniform(-70, 70)
        proj = rng.choice(["+proj=laea +lat_0={lat:.4f} +lon_0={lon:.4f} +x_0=0 +y_0=0 +datum=WGS84 +units=m +no_defs", "+proj=tmerc +lat_0={lat:.4f} +lon_0={lon:.4f} +k=1 +x_0=0 +y_0=0 +datum=WGS84 +units=m +no_defs",
                           "+proj=aeqd +lat_0={lat:.4f} +lon_0={lon:.4f} +datum=WGS84 +units=m +no_defs"]).format(lat=lat0, lon=lon0)
        poly = sg.Polygon([(-40_000, -30_000), (50_000, -35_000), (45_000, 40_000), (-42_000, 38_000)], [[(-5_000, -5_000), (5_000, -4_000), (0, 6_000)]])
        g = G.Geometry(poly, proj)
        out, exc = call(g.to_crs, "EPSG:4326")
        if exc is None:
            call(out.to_crs, proj)
        del g, out
        if i % 16 == 0:
            gc.collect()
    mon.obs["one_off_crs_conversions"] += n


GEOGRAPHIC = ["EPSG:4326", "OGC:CRS84", "EPSG:4269", "EPSG:4258", "+proj=longlat +ellps=GRS80 +no_defs",
              # rotated-pole grids of regional climate models (CORDEX EUR-11, a generic one): geographic CRSs on the same datum whose coordinates are NOT lon/lat
              "+proj=ob_tran +o_proj=longlat +o_lon_p=0 +o_lat_p=39.25 +lon_0=18 +datum=WGS84 +no_defs", "+proj=ob_tran +o_proj=longlat +o_lon_p=0 +o_lat_p=60 +lon_0=-170 +ellps=WGS84 +no_defs"]


def drive_geographic_pairs(mon: Monitor, rng: random.Random, n: int) -> None:
    """Geographic to geographic: same datum never implies same coordinates (every call is judged vertex by vertex by post_to_crs)."""
    import pyproj
    from odc.geo import geom as G

    if len(GEOGRAPHIC) == 7:
        # the same rotated pole the way netCDF readers build it (CF grid mapping; WGS 84 ensemble datum like EPSG:4326) and a plain-datum lon/lat to pair with the PROJ spelling
        GEOGRAPHIC.append(pyproj.CRS.from_cf({"grid_mapping_name": "rotated_latitude_longitude", "grid_north_pole_latitude": 39.25, "grid_north_pole_longitude": -162.0}).to_wkt())
        GEOGRAPHIC.append("+proj=longlat +datum=WGS84 +no_defs")

    for _ in range(n):
        a, b = rng.sample(GEOGRAPHIC, 2)
        lon, lat = rng.uniform(-20, 40), rng.uniform(30, 65)
        shp_ll = make_shape(rng, rng.choice(KINDS[:9]), (lon, lat), rng.choice([0.05, 0.5, 2.0]))
        g0 = G.Geometry(shp_ll, "EPSG:4326")
        g1, exc = (g0, None) if a == "EPSG:4326" else call(g0.to_crs, a)
        if exc is None and not g1.is_empty:
            g2, exc = call(g1.to_crs, b)
            if exc is None and rng.random() < 0.5:
                call(g2.to_crs, a)


def drive_indirect(mon: Monitor, rng: random.Random, n: int) -> None:
    before = dict(calls)
    for _ in range(n):
        entry = rng.choice(gen.CRS_WINDOWS[1:])
        g, _w = gen.window_geobox(rng, entry, npix=(16, 16))
        try:
            g.footprint("EPSG:4326", 1)
            g.geographic_extent
            g.to_crs("EPSG:4326")
            g.extent.to_crs("EPSG:4326", resolution=abs(g.resolution.x) * 4)
        except Exception as e:
            mon.error("indirect", e)
    mon.notes["indirect_calls"] = {k: calls[k] - before.get(k, 0) for k in calls}


def run(mon: Monitor, tier: str, seed: int, shard: int, nshards: int) -> None:
    install(mon)
    try:
        rng = random.Random(seed * 1000 + shard + 7)
        q = tier == "quick"
        drive_densify(mon, rng, 5000 if q else 60000)
        drive_fine(mon, rng)
        drive_shared_edges(mon, rng, 150 if q else 3000)
        drive_to_crs(mon, rng, 2500 if q else 40000)
        drive_lookalikes(mon, rng, 150 if q else 2500)
        drive_oneoff(mon, rng, 260 if q else 1500)
        drive_geographic_pairs(mon, rng, 120 if q else 2000)
        drive_indirect(mon, rng, 40 if q else 500)
        for pt, n in [("densify", 2000), ("Geometry.segmented", 2000), ("Geometry.to_crs", 1000), ("roundtrip", 200), ("densify|on-axis|vertical", 20), ("densify|far", 200),
                      ("densify|near-axis", 50), ("Geometry.to_crs|same-crs", 20), ("Geometry.to_crs|no-crs", 10), ("roundtrip|datum-shift", 20), ("roundtrip|same-datum", 100),
                      ("Geometry.to_crs|densified|Polygon", 10), ("Geometry.to_crs|MultiPolygon", 20), ("Geometry.to_crs|GeometryCollection", 20), ("Geometry.segmented|Polygon", 100),
                      ("Geometry.segmented|LinearRing", 50), ("Geometry.to_crs|custom-crs|Polygon", 15), ("Geometry.to_crs|wrapdateline|densified|Polygon", 2), ("Geometry.to_crs|wrapdateline|densified|LineString", 2), ("Geometry.segmented|GeometryCollection", 50), ("Geometry.segmented|MultiPolygon", 100), ("Geometry.segmented|MultiLineString", 40)]:
            mon.floor(pt, n)
    finally:
        detach_all()


def replay(mon: Monitor, case) -> None:
    install(mon)
    try:
        if case and case.get("kind") == "call":
            replay_call(case)
        else:
            mon.error("replay", "case is not a recorded call")
    finally:
        detach_all()
