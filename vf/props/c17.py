"""C17 - ROI (slice) helpers agree with numpy slicing semantics.

Oracle: numpy itself (`X = np.arange(n)` and index sets).  Post-condition monitors are attached to
every helper named in the property, the driver enumerates the small domain exhaustively and adds
seeded N-D tuples and point envelopes; calls made from inside other library code are judged too.
"""
from __future__ import annotations

import itertools
import math
import random
import warnings

import numpy as np

from .. import gen
from ..attach import attach, detach_all, calls, replay_call
from ..kernel import Monitor, hsig

PID = "C17"
RULE = ("exhaustive 1-D enumeration for array lengths n<=N_MAX over every slice with start/stop in {None,-n-2..n+2} and every int index, "
        "all ordered pairs of non-negative slices for the intersections, pads 0..4, scales 1..5; seeded 2-D/3-D tuples; seeded point "
        "envelopes with NaN/inf and outliers 1e3..1e300, paddings and alignments; distinct = distinct (helper, arguments) in domain")
ASSUMPTIONS = ["numpy basic slicing is the reference semantics", "slices with a step other than None/1 are outside the statement (counted, not judged)"]
SHARDS = {"quick": 1, "thorough": 8}
SUITE_UNDER_MONITOR = True

_mon: Monitor = None  # type: ignore


def _err(label, e):
    _mon.error(label, e)


def _sl(s):
    return (s.start, s.stop, s.step) if isinstance(s, slice) else s


def _dims(roi, shape):
    """Pair up roi entries and lengths for 1-D or N-D calls."""
    if isinstance(roi, (tuple, list)):
        sh = shape if isinstance(shape, (tuple, list)) else (shape,)
        return list(zip(roi, sh)), True
    if isinstance(shape, (tuple, list)):
        (shape,) = shape
    return [(roi, shape)], False


def _plain(s) -> bool:
    return isinstance(s, (int, np.integer)) or (isinstance(s, slice) and s.step in (None, 1)
                                                  and all(v is None or isinstance(v, (int, np.integer)) for v in (s.start, s.stop)))


def _select(n: int, s):
    """Index set numpy selects from range(n) for slice/int `s` (int behaves as a length-1 slice)."""
    X = np.arange(n)
    if isinstance(s, slice):
        return X[s]
    i = int(s)
    if i < -n or i >= n:
        return None  # numpy raises IndexError
    if i < 0:
        i += n
    return X[i:i + 1]


def post_normalise(args, kw, res, exc, snap):
    roi, shape = args
    dims, is_seq = _dims(roi, shape)
    out = list(res) if (is_seq and exc is None) else [res]
    for k, (s, n) in enumerate(dims):
        if not _plain(s) or not isinstance(n, (int, np.integer)) or n < 0 or n > 4096:
            _mon.skip("roi_normalise", "stepped-or-huge")
            continue
        want = _select(n, s)
        if want is None:
            _mon.skip("roi_normalise", "index-out-of-range")
            continue
        if exc is not None:
            _mon.fail("roi_normalise", {"roi": _sl(s), "n": n, "exc": exc}, key="normalise-raises")
            continue
        ns = out[k]
        X = np.arange(n)
        ok = isinstance(ns, slice) and ns.start is not None and ns.stop is not None and np.array_equal(X[ns], want)
        rng_cls = "int" if not isinstance(s, slice) else ("out-of-range" if any(v is not None and not (-n <= v <= n) for v in (s.start, s.stop)) else
                                                        "negative" if any(v is not None and v < 0 for v in (s.start, s.stop)) else
                                                        "open" if (s.start is None or s.stop is None) else "plain")
        _mon.check(ok, "roi_normalise", {"roi": _sl(s), "n": n, "normalised": _sl(ns), "selected": X[ns] if isinstance(ns, slice) else None, "expected": want},
                   key="normalise-neg-oor" if (rng_cls == "out-of-range") else "normalise-select", cls=rng_cls,
                   sig=hsig("norm", _sl(s), n), sample={"roi": _sl(s), "n": n, "normalised": _sl(ns)})


def _nonneg(s) -> bool:
    if isinstance(s, (int, np.integer)):
        return s >= 0
    return isinstance(s, slice) and s.stop is not None and s.stop >= 0 and (s.start is None or s.start >= 0) and s.step in (None, 1)


def _as_slice(s):
    return slice(int(s), int(s) + 1) if isinstance(s, (int, np.integer)) else slice(s.start or 0, s.stop)


def _isect3_1d(a, b, a_, b_, ab, point):
    n = max(_as_slice(a).stop, _as_slice(b).stop, 0) + 2
    if n > 4096:
        return _mon.skip(point, "huge")
    X = np.arange(n)
    A, B = X[_as_slice(a)], X[_as_slice(b)]
    common = np.intersect1d(A, B)
    ok = all(isinstance(v, slice) for v in (a_, b_, ab))
    ok = ok and np.array_equal(A[a_], B[b_]) and np.array_equal(A[a_], X[ab]) and np.array_equal(X[ab], common)
    ok = ok and ab.start >= 0 and ab.stop >= ab.start  # the common region is reported in normalised form
    _mon.check(bool(ok), point, {"a": _sl(a), "b": _sl(b), "a'": _sl(a_), "b'": _sl(b_), "ab'": _sl(ab), "common": common},
               key="isect3", cls="disjoint" if len(common) == 0 else "overlap", sig=hsig("i3", _sl(a), _sl(b)),
               sample={"a": _sl(a), "b": _sl(b), "ab'": _sl(ab)})


def post_slice_intersect3(args, kw, res, exc, snap):
    a, b = args
    if not (_nonneg(a) and _nonneg(b)):
        return _mon.check(isinstance(exc, ValueError), "slice_intersect3", {"a": _sl(a), "b": _sl(b), "exc": exc, "res": res},
                          key="isect3-accepts-unnormalised", cls="rejects")
    if exc is not None:
        return _mon.fail("slice_intersect3", {"a": _sl(a), "b": _sl(b), "exc": exc}, key="isect3-raises")
    _isect3_1d(a, b, *res, "slice_intersect3")


def post_roi_intersect3(args, kw, res, exc, snap):
    a, b = args
    if not (all(map(_nonneg, a)) and all(map(_nonneg, b)) and len(a) == len(b)):
        return _mon.skip("roi_intersect3", "unnormalised")
    if exc is not None:
        return _mon.fail("roi_intersect3", {"a": [_sl(x) for x in a], "b": [_sl(x) for x in b], "exc": exc}, key="isect3-raises")
    aa, bb, cc = res
    ok = len(aa) == len(bb) == len(cc) == len(a)
    if not ok:
        return _mon.fail("roi_intersect3", {"a": a, "b": b, "res": res}, key="isect3-arity")
    for k in range(len(a)):
        _isect3_1d(a[k], b[k], aa[k], bb[k], cc[k], "roi_intersect3")


def post_roi_intersect(args, kw, res, exc, snap):
    a, b = args
    seq = isinstance(a, (tuple, list))
    aa = list(a) if seq else [a]
    bb = list(b) if isinstance(b, (tuple, list)) else [b]
    if not (all(map(_nonneg, aa)) and all(map(_nonneg, bb))):
        return _mon.skip("roi_intersect", "unnormalised")
    if exc is not None:
        return _mon.fail("roi_intersect", {"a": [_sl(x) for x in aa], "b": [_sl(x) for x in bb], "exc": exc}, key="isect-raises")
    rr = list(res) if seq else [res]
    for x, y, r in zip(aa, bb, rr):
        n = max(_as_slice(x).stop, _as_slice(y).stop, 0) + 2
        if n > 4096:
            _mon.skip("roi_intersect", "huge")
            continue
        X = np.arange(n)
        common = np.intersect1d(X[_as_slice(x)], X[_as_slice(y)])
        ok = isinstance(r, slice) and r.start is not None and 0 <= r.start <= r.stop and np.array_equal(X[r], common)
        _mon.check(bool(ok), "roi_intersect", {"a": _sl(x), "b": _sl(y), "res": _sl(r), "common": common}, key="isect",
                   cls="disjoint" if len(common) == 0 else "overlap", sig=hsig("i", _sl(x), _sl(y)), sample={"a": _sl(x), "b": _sl(y), "res": _sl(r)})


def post_roi_pad(args, kw, res, exc, snap):
    roi, pad, shape = args
    dims, is_seq = _dims(roi, shape)
    if not isinstance(pad, (int, np.integer)) or pad < 0:
        return _mon.skip("roi_pad", "negative-pad")
    out = list(res) if (is_seq and exc is None) else [res]
    for k, (s, n) in enumerate(dims):
        if not _plain(s) or n > 4096:
            _mon.skip("roi_pad", "stepped-or-huge")
            continue
        sel = _select(n, s)
        if sel is None:
            _mon.skip("roi_pad", "index-out-of-range")
            continue
        if exc is not None:
            _mon.fail("roi_pad", {"roi": _sl(s), "pad": pad, "n": n, "exc": exc}, key="pad-raises")
            continue
        p = out[k]
        X = np.arange(n)
        ok = isinstance(p, slice) and p.start is not None and 0 <= p.start and p.stop <= n
        if ok and len(sel) > 0:
            want = X[max(0, sel[0] - pad):min(n, sel[-1] + 1 + pad)]
            ok = np.array_equal(X[p], want)
        elif ok:
            # an empty region has a position only when its bounds are in range; it may grow by at most pad per side
            ok = (p.stop - p.start) <= 2 * pad
        _mon.check(bool(ok), "roi_pad", {"roi": _sl(s), "pad": pad, "n": n, "res": _sl(p), "selected": sel}, key="pad",
                   cls="empty" if len(sel) == 0 else "nonempty", sig=hsig("pad", _sl(s), pad, n), sample={"roi": _sl(s), "pad": pad, "n": n, "res": _sl(p)})


def _norm_dims(roi):
    rr = list(roi) if isinstance(roi, (tuple, list)) else [roi]
    return rr, isinstance(roi, (tuple, list))


def _in_range_norm(s) -> bool:
    """normalised slice/int describing an index set without numpy clamping/wrapping."""
    if isinstance(s, (int, np.integer)):
        return s >= 0
    return isinstance(s, slice) and s.step in (None, 1) and s.stop is not None and (s.start or 0) >= 0 and s.stop >= (s.start or 0)


def post_roi_shape(args, kw, res, exc, snap):
    rr, _ = _norm_dims(args[0])
    if any(isinstance(s, slice) and s.stop is None for s in rr):
        return _mon.check(isinstance(exc, ValueError), "roi_shape", {"roi": [_sl(s) for s in rr], "exc": exc}, key="shape-open", cls="open-ended")
    if not all(map(_in_range_norm, rr)):
        return _mon.skip("roi_shape", "not-normalised")
    if exc is not None:
        return _mon.fail("roi_shape", {"roi": [_sl(s) for s in rr], "exc": exc}, key="shape-raises")
    want = tuple(len(np.arange(_as_slice(s).stop + 1)[_as_slice(s)]) for s in rr)
    _mon.check(tuple(res) == want, "roi_shape", {"roi": [_sl(s) for s in rr], "res": res, "want": want}, key="shape",
               cls=f"{len(rr)}d", sig=hsig("shape", tuple(_sl(s) for s in rr)), sample={"roi": [_sl(s) for s in rr], "res": list(res)})


def _nonneg_plain(s) -> bool:
    """like _in_range_norm but start > stop allowed: numpy selects nothing, no clamping or wrapping is involved."""
    if isinstance(s, (int, np.integer)):
        return s >= 0
    return isinstance(s, slice) and s.step in (None, 1) and s.stop is not None and s.stop >= 0 and (s.start or 0) >= 0


def post_roi_is_empty(args, kw, res, exc, snap):
    rr, _ = _norm_dims(args[0])
    if not all(map(_nonneg_plain, rr)):
        return _mon.skip("roi_is_empty", "not-normalised")
    if exc is not None:
        return _mon.fail("roi_is_empty", {"roi": [_sl(s) for s in rr], "exc": exc}, key="empty-raises")
    want = any(len(np.arange(_as_slice(s).stop + 1)[_as_slice(s)]) == 0 for s in rr)
    nrev = sum(1 for s in rr if isinstance(s, slice) and (s.start or 0) > s.stop)
    _mon.check(bool(res) == want, "roi_is_empty", {"roi": [_sl(s) for s in rr], "res": res}, key="empty", cls=("empty" if want else "nonempty") + (f"|reversed-axes={min(nrev, 2)}" if nrev else ""),
               sig=hsig("empty", tuple(_sl(s) for s in rr)))


def post_roi_is_full(args, kw, res, exc, snap):
    roi, shape = args
    dims, _ = _dims(roi, shape) if isinstance(roi, (tuple, list)) else ([(roi, shape if not isinstance(shape, tuple) else shape[0])], False)
    if exc is not None:
        return _mon.fail("roi_is_full", {"roi": roi, "shape": shape, "exc": exc}, key="full-raises")
    want = True
    for s, n in dims:
        if not _plain(s) or n > 4096:
            return _mon.skip("roi_is_full", "stepped-or-huge")
        if isinstance(s, slice) and any(v is not None and v < 0 for v in (s.start, s.stop)):
            return _mon.skip("roi_is_full", "negative-offsets")  # documented for (0,..)->shape regions
        if isinstance(s, slice) and s.stop is not None and s.stop > n:
            return _mon.skip("roi_is_full", "beyond-shape")
        sel = _select(n, s)
        if sel is None:
            return _mon.skip("roi_is_full", "index-out-of-range")
        want = want and len(sel) == n
    _mon.check(bool(res) == want, "roi_is_full", {"roi": [(_sl(s), n) for s, n in dims], "res": res, "want": want}, key="full",
               cls="full" if want else "crop", sig=hsig("full", tuple((_sl(s), n) for s, n in dims)))


def post_roi_center(args, kw, res, exc, snap):
    rr, is_seq = _norm_dims(args[0])
    if not all(map(_in_range_norm, rr)):
        return _mon.skip("roi_center", "not-normalised")
    if exc is not None:
        return _mon.fail("roi_center", {"roi": [_sl(s) for s in rr], "exc": exc}, key="center-raises")
    out = list(res) if is_seq else [res]
    ok = True
    for s, c in zip(rr, out):
        sl = _as_slice(s)
        # centre of pixels [start, stop) in pixel-edge coordinates
        ok = ok and c == (sl.start + sl.stop) / 2
    _mon.check(ok, "roi_center", {"roi": [_sl(s) for s in rr], "res": res}, key="center", sig=hsig("center", tuple(_sl(s) for s in rr)))


def post_scaled_down_roi(args, kw, res, exc, snap):
    roi, scale = args
    if not (all(map(_in_range_norm, roi)) and isinstance(scale, (int, np.integer)) and scale >= 1):
        return _mon.skip("scaled_down_roi", "precondition")
    if exc is not None:
        return _mon.fail("scaled_down_roi", {"roi": [_sl(s) for s in roi], "scale": scale, "exc": exc}, key="sdroi-raises")
    ok = True
    for s, d in zip(roi, res):
        u0, u1 = d.start * scale, d.stop * scale
        if s.stop > s.start:
            ok = ok and u0 <= s.start and u1 >= s.stop and s.start - u0 < scale and u1 - s.stop < scale
        else:
            ok = ok and d.stop - d.start <= 1
    _mon.check(bool(ok), "scaled_down_roi", {"roi": [_sl(s) for s in roi], "scale": scale, "res": [_sl(s) for s in res]}, key="scaled-down",
               sig=hsig("sd", tuple(_sl(s) for s in roi), scale), sample={"roi": [_sl(s) for s in roi], "scale": int(scale), "res": [_sl(s) for s in res]})


def post_scaled_up_roi(args, kw, res, exc, snap):
    roi, scale = args[0], args[1]
    shape = args[2] if len(args) > 2 else kw.get("shape")
    if not (all(map(_in_range_norm, roi)) and isinstance(scale, (int, np.integer)) and scale >= 1):
        return _mon.skip("scaled_up_roi", "precondition")
    if exc is not None:
        return _mon.fail("scaled_up_roi", {"roi": [_sl(s) for s in roi], "scale": scale, "exc": exc}, key="suroi-raises")
    sh = None
    if shape is not None:
        from odc.geo import shape_

        sh = tuple(shape_(shape))
    ok = True
    for k, (s, u) in enumerate(zip(roi, res)):
        a, b = s.start * scale, s.stop * scale
        if sh is not None:
            a, b = min(a, sh[k]), min(b, sh[k])
        ok = ok and (u.start, u.stop) == (a, b)
    _mon.check(bool(ok), "scaled_up_roi", {"roi": [_sl(s) for s in roi], "scale": scale, "shape": sh, "res": [_sl(s) for s in res]}, key="scaled-up",
               cls="clamped" if sh is not None else "free", sig=hsig("su", tuple(_sl(s) for s in roi), scale, sh))


def post_scaled_down_shape(args, kw, res, exc, snap):
    shape, scale = args
    if not (isinstance(scale, (int, np.integer)) and scale >= 1 and all(isinstance(v, (int, np.integer)) and v >= 0 for v in shape)):
        return _mon.skip("scaled_down_shape", "precondition")
    if exc is not None:
        return _mon.fail("scaled_down_shape", {"shape": shape, "scale": scale, "exc": exc}, key="sdshape-raises")
    want = tuple(-(-int(n) // int(scale)) for n in shape)
    _mon.check(tuple(res) == want, "scaled_down_shape", {"shape": shape, "scale": scale, "res": res, "want": want}, key="scaled-down-shape",
               sig=hsig("sds", tuple(map(int, shape)), int(scale)))


class _UB:
    """numeric-UB monitor: numpy RuntimeWarnings (invalid cast, overflow) raised inside the helper."""

    def __enter__(self):
        self._cm = warnings.catch_warnings(record=True)
        self.log = self._cm.__enter__()
        warnings.simplefilter("always")
        self._err = np.errstate(invalid="warn", over="warn")
        self._err.__enter__()
        return self

    def __exit__(self, *a):
        self._err.__exit__(*a)
        self._cm.__exit__(*a)
        return False


def _model_points(xy, ny, nx, padding, align):
    """Unbounded-integer reference for the point envelope."""
    keep = np.isfinite(xy).all(axis=1)
    pts = xy[keep]
    if len(pts) == 0:
        return None, pts
    out = []
    for k, n in ((0, nx), (1, ny)):
        lo = math.floor(float(pts[:, k].min())) - padding
        hi = math.ceil(float(pts[:, k].max())) + padding
        if align is not None:
            lo = lo - (lo % align)
            hi = hi + (-hi % align)
        out.append((min(max(lo, 0), n), min(max(hi, 0), n)))
    return out, pts


def post_roi_from_points(args, kw, res, exc, snap):
    names = ("xy", "shape", "padding", "align")
    p = {"padding": 0, "align": None}
    p.update(dict(zip(names, args)))
    p.update(kw)
    xy, padding, align = np.asarray(p["xy"], dtype="float64"), p["padding"], p["align"]
    padding, align = int(padding), (None if align is None else int(align))  # the model computes in unbounded integers whatever type the caller used
    from odc.geo import shape_

    ny, nx = shape_(p["shape"])
    ub = snap[1] if snap else None
    wit = lambda extra=None: {"xy": xy[:12], "npts": len(xy), "shape": [ny, nx], "padding": padding, "align": align,
                              "res": [_sl(s) for s in res] if res is not None else None, **(extra or {})}
    if xy.ndim != 2 or xy.shape[1] != 2 or padding < 0 or (align is not None and align < 1):
        return _mon.skip("roi_from_points", "precondition")
    if exc is not None:
        return _mon.fail("roi_from_points", wit({"exc": exc}), key="points-raises")
    model, pts = _model_points(xy, ny, nx, padding, align)
    far = bool(len(pts) and np.abs(pts).max() >= 2.0**30)
    cls = ("empty" if model is None else "far-outlier" if far else "plain") + ("+nonfinite" if len(pts) != len(xy) else "")
    if ub is not None and ub.log:
        msgs = sorted({str(w.message)[:80] for w in ub.log if issubclass(w.category, RuntimeWarning)})
        if msgs:
            return _mon.fail("roi_from_points", wit({"numeric_ub": msgs}), key="points-overflow" if far else "points-numeric-ub", cls=cls)
    ry, rx = res
    if model is None:
        ok = (rx.stop - rx.start) == 0 and (ry.stop - ry.start) == 0
        return _mon.check(ok, "roi_from_points", wit(), key="points-empty", cls=cls, sig=hsig("pts0", ny, nx, len(xy)))
    (mx0, mx1), (my0, my1) = model
    ok_within = 0 <= rx.start <= rx.stop <= nx and 0 <= ry.start <= ry.stop <= ny
    inside = pts[(pts[:, 0] >= 0) & (pts[:, 0] <= nx) & (pts[:, 1] >= 0) & (pts[:, 1] <= ny)]
    ok_contains = True
    if len(inside):
        x0, x1 = math.floor(inside[:, 0].min()) - padding, math.ceil(inside[:, 0].max()) + padding
        y0, y1 = math.floor(inside[:, 1].min()) - padding, math.ceil(inside[:, 1].max()) + padding
        ok_contains = rx.start <= max(0, x0) and rx.stop >= min(nx, x1) and ry.start <= max(0, y0) and ry.stop >= min(ny, y1)
    ok_align = True
    if align is not None:
        ok_align = all(v % align == 0 or v == n for v, n in ((rx.start, nx), (rx.stop, nx), (ry.start, ny), (ry.stop, ny)))
    ok_exact = True
    if not far:
        ok_exact = (rx.start, rx.stop, ry.start, ry.stop) == (mx0, mx1, my0, my1)
    ok = ok_within and ok_contains and ok_align and ok_exact
    key = ("points-overflow" if far else "points-envelope") if not (ok_within and ok_contains) else "points-align" if not ok_align else "points-exact"
    _mon.check(bool(ok), "roi_from_points", lambda: wit({"model_x": [mx0, mx1], "model_y": [my0, my1], "within": ok_within,
               "contains": bool(ok_contains), "aligned": ok_align, "exact": ok_exact}), key=key, cls=cls,
               sig=hsig("pts", xy.tobytes(), ny, nx, padding, align), sample={"xy": xy[:4].tolist(), "shape": [ny, nx], "padding": padding, "align": align, "res": [_sl(ry), _sl(rx)]})
    # non-finite points are ignored: same answer on the finite subset
    if len(pts) != len(xy):
        from odc.geo import roi as R

        again = getattr(R.roi_from_points, "__vf_original__", R.roi_from_points)(pts.copy(), (ny, nx), padding, align)
        _mon.check(tuple(map(_sl, again)) == tuple(map(_sl, res)), "roi_from_points.nonfinite", wit({"on_finite_subset": [_sl(s) for s in again]}), key="points-nonfinite")


def post_roi_boundary(args, kw, res, exc, snap):
    roi = args[0]
    pps = args[1] if len(args) > 1 else kw.get("pts_per_side", 2)
    if not all(map(_in_range_norm, roi)) or pps < 2:
        return _mon.skip("roi_boundary", "precondition")
    if exc is not None:
        return _mon.fail("roi_boundary", {"roi": [_sl(s) for s in roi], "pts_per_side": pps, "exc": exc}, key="boundary-raises")
    yy, xx = roi
    pts = np.asarray(res, dtype="float64")
    big = max(xx.stop, yy.stop, 1)
    tol = big * 2e-7  # float32 output
    on_edge = (np.isclose(pts[:, 0], xx.start, atol=tol) | np.isclose(pts[:, 0], xx.stop, atol=tol)
               | np.isclose(pts[:, 1], yy.start, atol=tol) | np.isclose(pts[:, 1], yy.stop, atol=tol))
    inside = (pts[:, 0] >= xx.start - tol) & (pts[:, 0] <= xx.stop + tol) & (pts[:, 1] >= yy.start - tol) & (pts[:, 1] <= yy.stop + tol)
    corners = {(float(x), float(y)) for x in (xx.start, xx.stop) for y in (yy.start, yy.stop)}
    got = {(round(float(x)), round(float(y))) for x, y in pts}
    has_corners = all((round(cx), round(cy)) in got for cx, cy in corners)
    ok = pts.ndim == 2 and pts.shape[1] == 2 and len(pts) == 4 * (pps - 1) and bool(on_edge.all()) and bool(inside.all()) and has_corners
    _mon.check(ok, "roi_boundary", lambda: {"roi": [_sl(s) for s in roi], "pts_per_side": pps, "pts": pts}, key="boundary",
               sig=hsig("bnd", tuple(_sl(s) for s in roi), pps), sample={"roi": [_sl(s) for s in roi], "pts_per_side": pps, "n": len(pts)})


def install(mon: Monitor) -> None:
    global _mon
    _mon = mon
    from odc.geo import roi as R

    for name, post in [("roi_normalise", post_normalise), ("slice_intersect3", post_slice_intersect3), ("roi_intersect3", post_roi_intersect3),
                       ("roi_intersect", post_roi_intersect), ("roi_pad", post_roi_pad), ("roi_shape", post_roi_shape),
                       ("roi_is_empty", post_roi_is_empty), ("roi_is_full", post_roi_is_full), ("roi_center", post_roi_center),
                       ("scaled_down_roi", post_scaled_down_roi), ("scaled_up_roi", post_scaled_up_roi),
                       ("scaled_down_shape", post_scaled_down_shape), ("roi_boundary", post_roi_boundary)]:
        attach(R, name, post=post, on_error=_err, label=name)
    attach(R, "roi_from_points", post=post_roi_from_points, on_error=_err, label="roi_from_points", around=_UB)


# --------------------------------------------------------------------------- workloads
def drive_1d(mon: Monitor, n_max: int, shard: int, nshards: int) -> None:
    from odc.geo import roi as R

    for n in range(1, n_max + 1):
        if n % nshards != shard % nshards and nshards > 1:
            continue
        vals = [None] + list(range(-n - 2, n + 3))
        slices = [slice(a, b) for a in vals for b in vals] + list(range(-n, n))
        for s in slices:
            try:
                ns = R.roi_normalise(s, n)
            except Exception:
                continue
            for pad in range(0, 5):
                try:
                    R.roi_pad(s, pad, n)
                except Exception:
                    pass
            if isinstance(s, slice):
                try:
                    R.roi_is_full(s, n)
                except Exception:
                    pass
            if isinstance(ns, slice) and ns.start is not None and 0 <= ns.start <= ns.stop:
                R.roi_shape(ns), R.roi_is_empty(ns), R.roi_center(ns), R.roi_is_full(ns, n)
        for s in (slice(None, None), slice(2, None), slice(None, 3)):
            try:
                R.roi_shape(s)
            except ValueError:
                pass
        ns_all = [slice(a, b) for a in range(0, n + 1) for b in range(a, n + 1)] + list(range(0, n))
        for a, b in itertools.product(ns_all, repeat=2):
            R.slice_intersect3(a, b)
            R.roi_intersect(a, b)
        for bad in (slice(-1, 2), slice(0, None), slice(1, -1)):
            for good in (slice(0, n),):
                for pair in ((bad, good), (good, bad)):
                    try:
                        R.slice_intersect3(*pair)
                    except ValueError:
                        pass
        for s in ns_all:
            if not isinstance(s, slice):
                continue
            for sc in range(1, 6):
                d = R.scaled_down_roi((s, s), sc)
                u = R.scaled_up_roi(d, sc)
                R.scaled_up_roi(d, sc, (n, n))
                if s.stop > s.start:
                    ok = all(uu.start <= s.start and uu.stop >= s.stop and s.start - uu.start < sc and uu.stop - s.stop < sc for uu in u)
                    mon.check(ok, "scale-down-up", {"roi": _sl(s), "scale": sc, "down": [_sl(x) for x in d], "up": [_sl(x) for x in u]}, key="scale-roundtrip",
                              sig=hsig("sdu", _sl(s), sc))
        for sc in range(1, 6):
            R.scaled_down_shape((n,), sc)
            R.scaled_down_shape((n, n + 3, 1), sc)


def drive_nd(mon: Monitor, rng: random.Random, count: int) -> None:
    from odc.geo import roi as R

    def rs(n):
        k = rng.random()
        if k < 0.15:
            return rng.randint(-n, n - 1)
        a = rng.choice([None] + list(range(-n - 2, n + 3)))
        b = rng.choice([None] + list(range(-n - 2, n + 3)))
        return slice(a, b)

    def rn(n):
        a = rng.randint(0, n)
        return slice(a, rng.randint(a, n))

    prv = random.Random(rng.getrandbits(32) ^ 0x17)  # (one draw from the main stream; the number-type decisions below come from this private stream)

    def npints(roi_, typ):
        """The same region with numpy integer bounds - what np.searchsorted / argmax / shape arithmetic on arrays hand over."""
        cv = lambda v: None if v is None else typ(v)
        # (a bare index stays a Python int: the helpers are typed `int | slice` and test isinstance(s, int); a numpy integer *index* raises AttributeError - loud, and outside
        # what the statement quantifies over; recorded in DESIGN as an observation)
        return tuple(slice(cv(s.start), cv(s.stop)) if isinstance(s, slice) else s for s in roi_)

    for _ in range(count):
        nd = rng.choice([2, 2, 3])
        shape = tuple(rng.randint(1, 12) for _ in range(nd))
        roi = tuple(rs(n) for n in shape)
        typ = prv.choice([None, None, np.int64, np.int32, np.intp])
        if typ is not None:
            roi = npints(roi, typ)
            mon.obs["regions_with_numpy_integer_bounds"] += 1
        try:
            R.roi_normalise(roi, shape)
            R.roi_pad(roi, rng.randint(0, 4), shape)
        except Exception:
            pass
        a = tuple(rn(n) for n in shape)
        b = tuple(rn(n) for n in shape)
        if typ is not None:
            a, b = npints(a, typ), npints(b, prv.choice([typ, np.int64, int]))
            if prv.random() < 0.5:
                shape = tuple(typ(n) for n in shape)
        R.roi_intersect3(a, b)
        R.roi_intersect(a, b)
        R.roi_shape(a), R.roi_is_empty(a), R.roi_is_full(a, shape), R.roi_center(a)
        # emptiness of regions the library itself hands out: pads of regions beyond the image come back reversed (start > stop)
        off = tuple(slice(n + rng.randint(0, 4), n + rng.randint(0, 6)) if rng.random() < 0.7 else rn(n) for n in shape)
        for q in (off, tuple(slice(s.stop, s.start) if rng.random() < 0.6 else s for s in a)):
            try:
                R.roi_is_empty(q)
                R.roi_is_empty(R.roi_pad(q, rng.randint(0, 2), shape))
            except Exception:
                pass
        if nd == 2:
            R.roi_boundary(a, rng.choice([2, 3, 5]))
        # numpy cross-check on a real N-D array
        X = np.arange(int(np.prod(shape))).reshape(shape)
        a_, b_, ab = R.roi_intersect3(a, b)
        ok = np.array_equal(X[a][a_], X[b][b_]) and np.array_equal(X[a][a_], X[ab])
        mon.check(bool(ok), "roi_intersect3.nd", {"shape": shape, "a": [_sl(s) for s in a], "b": [_sl(s) for s in b], "ab": [_sl(s) for s in ab]}, key="isect3-nd",
                  cls=f"{nd}d", sig=hsig("i3nd", shape, tuple(map(_sl, a)), tuple(map(_sl, b))))


def drive_points(mon: Monitor, rng: random.Random, count: int) -> None:
    from odc.geo import roi as R

    nprng = np.random.default_rng(rng.randint(0, 2**31))
    for _ in range(count):
        ny, nx = rng.choice([1, 7, 100, 256, 1000]), rng.choice([1, 9, 100, 512, 4000])
        k = rng.choice([1, 2, 5, 40, 1, 2, 5, 40, 0])  # 0: a selection that matched nothing
        mode = rng.choice(["inside", "straddle", "outside", "inside"])
        if mode == "inside":
            xy = nprng.uniform([0, 0], [nx, ny], size=(k, 2))
        elif mode == "straddle":
            xy = nprng.uniform([-nx, -ny], [2 * nx, 2 * ny], size=(k, 2))
        else:
            side = rng.choice([(-3, 0), (2, 0), (0, -3), (0, 2)])
            xy = nprng.uniform([0, 0], [nx, ny], size=(k, 2)) + np.array(side) * [nx, ny]
        if rng.random() < 0.3:
            xy = np.floor(xy)  # exact pixel corners
        extra = []
        if rng.random() < 0.35:
            mag = rng.choice([1e3, 1e6, 2.0**31, 1e10, 3e18, 1e19, 1e100, 1e300])
            for _k in range(rng.randint(1, 2)):
                e = [rng.uniform(0, nx), rng.uniform(0, ny)]
                e[rng.randint(0, 1)] = mag * rng.choice([1, -1])
                extra.append(e)
        if rng.random() < 0.3:
            for _k in range(rng.randint(1, 3)):
                extra.append(rng.choice([[math.nan, 5.0], [3.0, math.inf], [-math.inf, math.nan], [math.nan, math.nan], [1e10, math.nan]]))
        if extra:
            xy = np.vstack([xy, np.array(extra)])
            nprng.shuffle(xy)
        if rng.random() < 0.03:
            xy = np.array([[math.nan, 1.0], [math.inf, 2.0]])
        pad = rng.choice([0, 0, 1, 3, 16])
        align = rng.choice([None, None, 1, 4, 16, 7])
        # how the points arrive: another memory layout, a read-only array, single precision, a numpy-integer image shape
        form = gen.ARRAY_FORMS[int(nprng.integers(0, len(gen.ARRAY_FORMS)))] if len(xy) else "plain"
        xy = gen.array_form(np.array(xy, dtype="float64"), form)
        if xy.size == 0:
            pass
        elif int(nprng.integers(0, 6)) == 0 and np.isfinite(xy).all() and np.abs(xy).max() < 1e6:
            xy = xy.astype("float32")
        elif int(nprng.integers(0, 4)) == 0 and np.isfinite(xy).all():
            # pixel indices as they come out of np.nonzero / image libraries: small integer types, signed and unsigned (padding and alignment arithmetic must not wrap in them)
            it = ["uint8", "uint16", "uint32", "uint64", "int8", "int16", "int32"][int(nprng.integers(0, 7))]
            info = np.iinfo(it)
            fl = np.floor(xy)
            if fl.min() >= info.min and fl.max() <= info.max:
                xy = fl.astype(it)
                mon.obs["point_arrays_of_small_integer_type"] += 1
        elif int(nprng.integers(0, 12)) == 0 and np.isfinite(xy).all():
            # single precision coordinates beyond 2**24 in a correspondingly wide image
            big = int(nprng.choice([2**24 + 4096, 2**25 + 10, 3 * 2**24]))
            xy = (np.abs(xy) % 1000 + [big, 0]).astype("float32")
            nx = big + 2000
        if int(nprng.integers(0, 4)) == 0:
            ny, nx = np.int64(ny), np.int32(nx)
        if int(nprng.integers(0, 3)) == 0:
            # padding / alignment as numpy scalars of a narrow type (values read from an array or a config table)
            tnp = [np.uint8, np.uint16, np.int16, np.uint32, np.int64][int(nprng.integers(0, 5))]
            if align is not None:
                align = tnp(align)
            if int(nprng.integers(0, 2)) == 0:
                pad = tnp(pad)
            mon.obs["numpy_scalar_padding_or_alignment"] += 1
        try:
            R.roi_from_points(xy, (ny, nx), pad, align)
        except Exception:
            pass


def drive_indirect(mon: Monitor, rng: random.Random, count: int) -> None:
    """Library code that uses the helpers internally."""
    from affine import Affine
    from odc.geo.geobox import GeoBox
    from odc.geo.overlap import compute_reproject_roi

    before = dict(calls)
    for _ in range(count):
        try:
            g = GeoBox((rng.randint(1, 60), rng.randint(1, 60)), Affine(10, 0, rng.uniform(-1e5, 1e5), 0, -10, rng.uniform(-1e5, 1e5)), "epsg:3857")
            h = g.translate_pix(rng.randint(-70, 70), rng.randint(-70, 70)).zoom_out(rng.choice([1, 2, 1.5, 0.5]))
            compute_reproject_roi(g, h, padding=rng.choice([None, 0, 2]), align=rng.choice([None, 4]))
            compute_reproject_roi(g, h.to_crs("epsg:4326") if rng.random() < 0.2 else h.rotate(10))
            _ = g[rng.randint(0, g.shape[0] - 1):, :rng.randint(1, g.shape[1])]
        except Exception as e:
            mon.error("indirect", e)
    mon.notes["indirect_calls"] = {k: calls[k] - before.get(k, 0) for k in calls if calls[k] - before.get(k, 0) > 0}


def run(mon: Monitor, tier: str, seed: int, shard: int, nshards: int) -> None:
    install(mon)
    try:
        rng = random.Random(seed * 1000 + shard + 17)
        if tier == "quick":
            drive_1d(mon, 6, 0, 1)
            drive_nd(mon, rng, 3000)
            drive_points(mon, rng, 6000)
            drive_indirect(mon, rng, 150)
            mon.notes["n_max_exhaustive"] = 6
        else:
            drive_1d(mon, 9 if nshards > 1 else 8, shard, nshards)
            drive_nd(mon, rng, 40000)
            drive_points(mon, rng, 80000)
            drive_indirect(mon, rng, 1000)
            mon.notes["n_max_exhaustive"] = 9
        mon.exhaustive = True
        for pt, n in [("roi_normalise", 500), ("slice_intersect3", 500), ("roi_intersect3", 500), ("roi_intersect", 500), ("roi_pad", 500),
                      ("roi_shape", 500), ("roi_is_empty", 500), ("roi_is_full", 500), ("roi_center", 500), ("scaled_down_roi", 100),
                      ("scaled_up_roi", 100), ("scaled_down_shape", 10), ("roi_from_points", 1000), ("roi_boundary", 100),
                      ("roi_normalise|out-of-range", 50), ("roi_normalise|negative", 50), ("roi_normalise|open", 50), ("roi_normalise|int", 20),
                      ("roi_is_empty|empty|reversed-axes=1", 20), ("roi_is_empty|empty|reversed-axes=2", 20), ("roi_from_points|far-outlier", 50), ("roi_from_points|plain", 200), ("roi_from_points|plain+nonfinite", 20),
                      ("roi_from_points.nonfinite", 50), ("slice_intersect3|disjoint", 100), ("slice_intersect3|overlap", 100)]:
            mon.floor(pt, n)
    finally:
        detach_all()


def replay(mon: Monitor, case) -> None:
    install(mon)
    try:
        if not replay_call(case):
            mon.error("replay", "case is not a recorded call")
    finally:
        detach_all()
