"""C05 - the parallel (dask) COG writer produces a correct, overview-first GeoTIFF.

The bytes of every file produced by save_cog_with_dask(...).compute() are examined by two independent readers
(rasterio/GDAL and tifffile page/tag inspection), and the part-writer history of the same run is recorded at the
MPUFileSink boundary.  Task execution order is randomised (seeded random topological order for the sync scheduler,
thread pools with 2-8 workers).
"""
from __future__ import annotations

import os
import random
import shutil
import tempfile

import numpy as np
from affine import Affine

from .. import gen
from ..attach import attach, detach_all
from ..kernel import Monitor, call, hsig, WORK_DIR

PID = "C05"
RULE = ("seeded configurations: image shapes 1..200 per axis (incl. narrower than a tile, 1xN, Nx1) x layout YX / YXS(3,4 and n via GeoBox) / SYX(1-4 samples, band chunks 1 or all) x 8 dtypes x "
        "blocksize lists [32] [64,32] [(48,16),16] [20] [16] x compression deflate/zstd/lzw/none x predictor on/off x nodata None/0/-9999/255 x source chunkings incl. 1-pixel and non-dividing x "
        "spill {0,1KiB,64KiB,default} x writes_per_chunk 1-3 x stats on/off, incl. >20 tiles (repartition path) and >4 bags (concat path); execution orders: seeded random topological (sync) "
        "and threads 2-8; distinct = distinct (configuration, order signature)")
ASSUMPTIONS = ["rasterio/GDAL and tifffile as independent readers", "random (incompressible) pixel data so parts exceed the 4096-byte file sink minimum", "overview values are only constrained for nearest resampling"]
SHARDS = {"quick": 1, "thorough": 16}

_mon: Monitor = None  # type: ignore
_sink_log = {}


def _err(label, e):
    _mon.error(label, e)


def _post_sink_call(args, kw, res, exc, snap):
    sink, part, data = args[0], args[1], args[2]
    if exc is None:
        _sink_log.setdefault(str(sink._dst), {"calls": [], "final": []})["calls"].append((int(part), len(data)))


def _post_sink_final(args, kw, res, exc, snap):
    sink, parts = args[0], args[1]
    _sink_log.setdefault(str(sink._dst), {"calls": [], "final": []})["final"].append([p["PartNumber"] for p in parts])


class _BodyS3:
    """Fake S3 client (one ordered log) that also keeps the uploaded bodies so the object can be assembled and read back."""

    def __init__(self):
        from ..fakes import FakeS3

        self._f = FakeS3()
        self.log = self._f.log
        self.bodies = {}

    def create_multipart_upload(self, **kw):
        return self._f.create_multipart_upload(**kw)

    def upload_part(self, **kw):
        self.bodies[int(kw["PartNumber"])] = bytes(kw["Body"])
        return self._f.upload_part(**kw)

    def complete_multipart_upload(self, **kw):
        self.completed = [p["PartNumber"] for p in kw["MultipartUpload"]["Parts"]]
        return self._f.complete_multipart_upload(**kw)

    def assembled(self) -> bytes:
        return b"".join(self.bodies[i] for i in getattr(self, "completed", sorted(self.bodies)))


def install(mon: Monitor) -> None:
    global _mon
    _mon = mon
    from odc.geo.cog._mpu_fs import MPUFileSink

    attach(MPUFileSink, "__call__", post=_post_sink_call, on_error=_err, label="MPUFileSink.__call__")
    attach(MPUFileSink, "finalise", post=_post_sink_final, on_error=_err, label="MPUFileSink.finalise")


# --------------------------------------------------------------------------- layout rule re-derived from the statement
def expected_layout(ny: int, nx: int, tile_yx):
    """(levels, padded shape): levels = smallest c with dim>>c <= tile, maximised over axes; pad to a multiple of 2**levels."""
    def c(dim, t):
        k = 0
        while t < dim:
            dim //= 2
            k += 1
        return k
    lv = max(c(ny, tile_yx[0]), c(nx, tile_yx[1]))
    p = 2**lv
    return lv, (-(-ny // p) * p, -(-nx // p) * p)


def norm_tile(b):
    up = lambda v: -(-v // 16) * 16
    if isinstance(b, int):
        return (up(b), up(b))
    return (up(b[0]), up(b[1]))


DTYPES = ["uint8", "int8", "uint16", "int16", "uint32", "int32", "float32", "float64"]


def make_config(rng: random.Random):
    ny = rng.choice([1, 2, 7, 16, 33, 70, 129, 200, rng.randint(1, 200), rng.randint(257, 600)])
    nx = rng.choice([1, 2, 3, 4, 5, 16, 40, 100, 150, rng.randint(1, 200), rng.randint(257, 400)])
    layout = rng.choice(["YX", "YX", "SYX", "YXS"])
    ns = 1
    if layout == "SYX":
        ns = rng.choice([1, 2, 3, 4])
    elif layout == "YXS":
        ns = rng.choice([3, 4, 3, 2, 5])
    dtype = rng.choice(DTYPES)
    cy, cx = rng.choice([1, 5, 16, 32, 64, 200]), rng.choice([1, 7, 16, 32, 200])
    if ny * nx > 8000:
        cy, cx = max(cy, 16), max(cx, 16)
    band_chunk = rng.choice([1, ns])
    nodata = rng.choice([None, None, 0, 255 if dtype == "uint8" else 100 if dtype == "int8" else 9999 if dtype in ("uint16", "uint32") else -9999])
    bs = rng.choice([[16], [32], [32, 16], [(48, 16), 16], [20], [64, 32], [(32, 64)], None, [64, 16], [128, 16]])  # the last two: few large main tiles, many small overview tiles
    comp = rng.choice(["deflate", "zstd", "lzw", "none", "deflate", "zstd", "lzw", "none", "lerc", "lerc_deflate", "lerc_zstd"])
    # codec settings travel as extra keywords in GDAL style; none of them may change what the pixels decode to
    comp_kw = rng.choice({"deflate": [None, {"zlevel": 9}, {"level": 3}], "zstd": [None, {"zstd_level": 9}, {"level": 15}], "lzw": [None], "none": [None], "lerc": [None, {"max_z_error": 0}],
                          "lerc_deflate": [None, {"zlevel": 6}, {"ZLEVEL": 9}], "lerc_zstd": [None, {"zstd_level": 9}, {"max_z_error": 0, "zstd_level": 5}]}[comp])
    cfg = dict(ny=ny, nx=nx, layout=layout, ns=ns, dtype=dtype, chunks=[cy, cx], band_chunk=band_chunk, nodata=nodata, blocksize=bs, compression=comp,
               predictor=rng.choice([None, None, True, False]) if comp in ("deflate", "zstd", "lzw") else rng.choice([None, False]), comp_kw=comp_kw, spill_sz=rng.choice([0, 1 << 10, 1 << 16, None]), writes_per_chunk=rng.choice([None, 1, 2, 3]),
               stats=rng.choice([True, False, True]), bigtiff=rng.choice([True, True, False]), scheduler=rng.choice(["sync", "sync", "threads"]), workers=rng.choice([2, 4, 8]),
               order_seed=rng.randint(0, 10**6), data_seed=rng.randint(0, 10**6), crs=rng.choice(["EPSG:3857", "EPSG:4326", "EPSG:32633"]), dest=rng.choice(["file", "file", "file", "s3"]), data_kind=rng.choice(["random", "random", "patchy", "constant"]))
    # pixel magnitudes: ordinary; huge (timestamps, accumulated counts, 1e17..1e150 floats: per-band statistics then render to very long decimal strings); tiny; special (NaN / inf
    # among floats, values at the ends of the integer range); and the 64-bit integer types
    cfg["magnitude"] = rng.choice(["ordinary", "ordinary", "ordinary", "huge", "huge", "tiny", "special"])
    if rng.random() < 0.15:
        cfg["crs"] = rng.choice(gen.CUSTOM_RASTER_CRS)  # user-defined CRS without an authority code
    cfg["aborted_first"] = rng.random() < 0.12
    if rng.random() < 0.12:
        cfg["dtype"] = rng.choice(["int64", "uint64"])
        cfg["nodata"] = rng.choice([None, 0, -9999 if cfg["dtype"] == "int64" else 9999])
        if cfg["compression"].startswith("lerc"):
            cfg["compression"], cfg["comp_kw"] = "deflate", None  # LERC has no 64-bit integer mode
    if cfg["compression"].startswith("lerc") and cfg["magnitude"] == "special" and cfg["dtype"].startswith("float"):
        cfg["magnitude"] = "huge"  # the LERC codec itself decodes NaN as 0 (imagecodecs.lerc_decode(lerc_encode([nan])) == [0.]): not a configuration that can round-trip
    if cfg["dest"] == "s3" and cfg["spill_sz"] == 0:
        cfg["spill_sz"] = 1 << 10  # for the S3 writer spill_sz=0 means "assemble in memory, do not upload" (returns the chunk)
    return cfg


def run_config(mon: Monitor, cfg, workdir: str) -> None:
    import dask.array as da
    import rasterio
    import tifffile
    import xarray as xr

    from odc.geo.cog import save_cog_with_dask
    from odc.geo.geobox import GeoBox
    from odc.geo.xr import xr_coords
    from ..daskorder import random_order

    ny, nx, layout, ns, dtype = cfg["ny"], cfg["nx"], cfg["layout"], cfg["ns"], cfg["dtype"]
    r = 0.001 if cfg["crs"] == "EPSG:4326" else 10.0
    ox_, oy_ = gen.crs_origin(cfg["crs"], r)
    gb = GeoBox((ny, nx), Affine(r, 0, ox_, 0, -r, oy_), cfg["crs"])
    shape = {"YX": (ny, nx), "SYX": (ns, ny, nx), "YXS": (ny, nx, ns)}[layout]
    nprng = np.random.default_rng(cfg["data_seed"])
    dt = np.dtype(dtype)
    mag = cfg.get("magnitude", "ordinary")
    if dt.kind == "f":
        data = nprng.uniform(-1000, 1000, size=shape).astype(dt)
        if mag == "huge":
            data = (nprng.uniform(0.5, 1.5, size=shape) * 10.0 ** int(nprng.choice([17, 17, 30] if dt.itemsize == 4 else [17, 17, 60, 150]))).astype(dt)
        elif mag == "tiny":
            data = (nprng.uniform(-1, 1, size=shape) * 1e-30).astype(dt)
        elif mag == "special":
            u = nprng.uniform(size=shape)
            data[u < 0.2] = np.nan
            data[(u > 0.2) & (u < 0.23)] = np.inf
            data[(u > 0.23) & (u < 0.26)] = -np.inf
    else:
        info = np.iinfo(dt)
        data = nprng.integers(max(info.min, -30000), min(info.max, 30000), size=shape, dtype=np.int64).astype(dt)
        if mag == "huge" and dt.itemsize >= 4:
            data = np.array(info.max - 40000, dtype=dt) + nprng.integers(0, 30000, size=shape, dtype=np.int64).astype(dt)
        elif mag == "special":
            ext = np.array([info.min, info.min + 1, info.max - 1, info.max], dtype=dt)
            u = nprng.uniform(size=shape)
            data[u < 0.3] = ext[nprng.integers(0, 4, size=int((u < 0.3).sum()))]
    from .c15 import _patches

    _patches(data, layout, cfg.get("data_kind", "random"), None, nprng)  # constant areas: whole tiles / chunks of one value
    nodata = cfg["nodata"]
    if nodata is not None:
        data[data == nodata] = data.flat[0] if data.flat[0] != nodata else 1  # nodata value stays reserved for padding
    ydim, xdim = gb.dimensions
    dims = {"YX": (ydim, xdim), "SYX": ("band", ydim, xdim), "YXS": (ydim, xdim, "band")}[layout]
    cy, cx = cfg["chunks"]
    chunks = {"YX": (cy, cx), "SYX": (cfg["band_chunk"], cy, cx), "YXS": (cy, cx, cfg["band_chunk"])}[layout]  # pixel-interleaved sources may be split along the sample axis too
    if cfg.get("irregular_chunks") or (cfg.get("irregular_chunks") is None and cfg["data_seed"] % 5 == 0 and min(ny, nx) > 4):
        # irregular source chunking (a cropped or concatenated array): chunks of cy and of about cy/2 alternating - the largest chunk is still cy (D37)
        def irr(n, c):
            out, k = [], 0
            while sum(out) < n:
                out.append(min(c if k % 2 == 0 else max(1, c // 2), n - sum(out))); k += 1
            return tuple(out)
        sp = (irr(ny, cy), irr(nx, cx))
        chunks = {"YX": sp, "SYX": (cfg["band_chunk"], *sp), "YXS": (*sp, cfg["band_chunk"])}[layout]
        mon.obs["irregular_source_chunkings"] += 1
    # how the array declares its nodata: the `nodata` attribute, the CF `_FillValue` attribute alone (data opened from NetCDF / Zarr), or both
    nd_attr = cfg.get("nodata_attr") or ["nodata", "nodata", "_FillValue", "both"][cfg["data_seed"] % 4]
    attrs = {} if nodata is None else {"nodata": nodata} if nd_attr == "nodata" else {"_FillValue": nodata} if nd_attr == "_FillValue" else {"nodata": nodata, "_FillValue": nodata}
    if nodata is not None:
        mon.obs["nodata_declared_via|" + nd_attr] += 1
    # what dask wraps may be Fortran ordered, a reversed / strided view or read-only (memory-mapped, frozen cache): same pixels, the oracle keeps `data`
    form = cfg.get("array_form") or random.Random(cfg["data_seed"]).choice(gen.ARRAY_FORMS)
    handed = gen.array_form(data.copy(), form)
    mon.obs["sources|" + form] += 1
    xx = xr.DataArray(da.from_array(handed, chunks=chunks), dims=dims, coords=xr_coords(gb), attrs=attrs)
    kw = dict(compression=cfg["compression"], stats=cfg["stats"], bigtiff=cfg["bigtiff"], **(cfg.get("comp_kw") or {}))
    if cfg["blocksize"] is not None:
        kw["blocksize"] = [tuple(b) if isinstance(b, (list, tuple)) else b for b in cfg["blocksize"]]
    if cfg["predictor"] is not None:
        kw["predictor"] = cfg["predictor"]
    if cfg["spill_sz"] is not None:
        kw["spill_sz"] = cfg["spill_sz"]
    if cfg["writes_per_chunk"] is not None:
        kw["writes_per_chunk"] = cfg["writes_per_chunk"]
    fn = os.path.join(workdir, f"c05_{cfg['data_seed']}_{cfg['order_seed']}.tif")
    _sink_log.pop(fn, None)
    to_s3 = cfg.get("dest") == "s3"
    s3 = _BodyS3() if to_s3 else None
    order_sig = None
    wit = lambda extra=None: {**cfg, **(extra or {})}
    if cfg.get("aborted_first") and not to_s3:
        # an earlier attempt at the same destination that died half way (one source chunk raised): same layout, other pixels.  Whatever it left on disk must not
        # find its way into the file written now
        other = np.bitwise_xor(data.view(np.uint8), 0x5A).view(data.dtype).reshape(data.shape) if dt.kind in "iu" else (-data - 1.0).astype(dt)
        nb = da.from_array(other, chunks=chunks).numblocks
        # (dask's depth-first order reaches the first block of the image last: most parts are on disk by then; seeded alternative: a block in the middle)
        victim = tuple(0 for _ in nb) if cfg["order_seed"] % 3 else tuple(n // 2 for n in nb)

        def boom(block, block_info=None):
            if block_info and tuple(block_info[0]["chunk-location"]) == victim:
                raise RuntimeError("source chunk failed (injected)")
            return block

        xbad = xr.DataArray(da.from_array(other, chunks=chunks).map_blocks(boom, dtype=dt), dims=dims, coords=xr_coords(gb), attrs=attrs)
        _, e_bad = call(lambda: save_cog_with_dask(xbad, fn, **kw).compute(scheduler="sync"))
        left = [os.path.join(r, f) for r, _d, fs in os.walk(workdir) for f in fs if os.path.basename(fn) in r and r != workdir]
        mon.obs["aborted_earlier_saves" + ("|left-part-files" if left else "|left-nothing") + ("" if e_bad is not None else "|did-not-fail")] += 1
        _sink_log.pop(fn, None)
        if left and e_bad is not None:
            mon.ok("workload.aborted-first", cls="left-part-files")

    def go():
        nonlocal order_sig
        if to_s3:
            from odc.geo.cog import _s3

            saved = (_s3.MultiPartUpload.s3_client, _s3._dask_client)
            _s3.MultiPartUpload.s3_client = lambda self: s3
            _s3._dask_client = lambda: None
            try:
                fut = save_cog_with_dask(xx, f"s3://bkt/{os.path.basename(fn)}", **kw)
                with random_order(cfg["order_seed"]) as sig:
                    skw = {"num_workers": cfg["workers"]} if cfg["scheduler"] == "threads" else {}
                    out = fut.compute(scheduler=cfg["scheduler"], **skw)
                    order_sig = sig()
            finally:
                _s3.MultiPartUpload.s3_client, _s3._dask_client = saved
            with open(fn, "wb") as f:
                f.write(s3.assembled())
            return out
        fut = save_cog_with_dask(xx, fn, **kw)
        with random_order(cfg["order_seed"]) as sig:
            skw = {"num_workers": cfg["workers"]} if cfg["scheduler"] == "threads" else {}
            out = fut.compute(scheduler=cfg["scheduler"], **skw)
            order_sig = sig()
        return out

    cls = f"{layout}|{'thin' if min(ny, nx) == 1 else 'narrow' if min(ny, nx) < 16 else 'regular'}"
    res, exc = call(go)
    try:
        if exc is not None:
            import traceback

            tb = traceback.extract_tb(exc.__traceback__)
            where = next((f"{os.path.basename(f.filename)}:{f.name}:{f.lineno}" for f in reversed(tb) if "odc/geo" in f.filename), "?")
            key = "save-raises-thin" if min(ny, nx) == 1 else "save-raises"
            return mon.fail("save", wit({"exc": exc, "at": where}), key=key, cls=cls)
        # ---- layout rule
        if cfg["blocksize"] is None:
            dcy, dcx = xx.data.chunksize[dims.index(ydim)], xx.data.chunksize[dims.index(xdim)]
            bl = [(dcy, dcx), max(1, int(max(dcy, dcx) // 2))]  # default rule: chunk-sized tiles, overviews half that, never below the smallest legal tile
        else:
            bl = kw["blocksize"]
        tiles = [norm_tile(b) for b in bl]
        levels, padded = expected_layout(ny, nx, tiles[-1])
        tiles = (tiles + [tiles[-1]] * (levels + 1))[: levels + 1]
        fill = 0 if nodata is None else nodata
        exp = data[None] if layout == "YX" else (data if layout == "SYX" else data.transpose(2, 0, 1))
        # ---- reader 1: rasterio / GDAL
        with rasterio.open(fn) as src:
            back = src.read()
            ok_shape = back.shape == (exp.shape[0], padded[0], padded[1])
            ok_pix = back.shape[0] == exp.shape[0] and back.shape[1] >= ny and back.shape[2] >= nx and np.array_equal(back[:, :ny, :nx], exp, equal_nan=dt.kind == "f") and str(back.dtype) == dtype
            ok_pad = bool((back[:, ny:, :] == fill).all() and (back[:, :, nx:] == fill).all())
            ok_geo = src.transform.almost_equals(gb.transform, 1e-12 * max(1.0, abs(gb.transform.c))) and gen.crs_read_back_ok(src.crs, cfg["crs"], gb.transform.c, gb.transform.f)
            ok_nodata = (src.nodata == nodata) or (nodata is None and src.nodata is None)
            ovr = [src.overviews(b + 1) for b in range(src.count)]
            ok_ovr_gdal = all(o == [2 ** (k + 1) for k in range(levels)] for o in ovr)
            tiled = src.is_tiled if hasattr(src, "is_tiled") else True
            blk = src.block_shapes
        mon.check(ok_shape and ok_pix and ok_pad and ok_geo and ok_nodata, "gdal-readback", lambda: wit({"shape": back.shape, "expected_shape": (exp.shape[0], *padded), "pixels_ok": ok_pix, "padding_ok": ok_pad,
                  "georef_ok": ok_geo, "nodata_ok": ok_nodata, "npixdiff": int((back[:, :ny, :nx] != exp).sum()) if back.shape[1] >= ny and back.shape[2] >= nx and back.shape[0] == exp.shape[0] else None}),
                  key="band-first-cube-ambiguous" if (layout == "SYX" and ns == ny == nx) else "band-first-narrow" if (layout == "SYX" and nx in (3, 4) and not ok_pix) else "readback-pixels" if not ok_pix else "readback-shape" if not ok_shape else "readback-padding" if not ok_pad else "readback-georef",
                  cls=cls, sig=hsig("c", repr(cfg), order_sig), sample=wit({"levels": levels, "padded": padded}))
        mon.check(ok_ovr_gdal and all(b[0] % 16 == 0 and b[1] % 16 == 0 for b in blk), "gdal-structure", lambda: wit({"overviews": ovr, "expected_levels": levels, "block_shapes": blk}), key="gdal-structure", cls=cls)
        # ---- reader 2: tifffile page / tag inspection
        fsize = os.path.getsize(fn)
        with tifffile.TiffFile(fn) as tf:
            pages = list(tf.pages)
            ok_pages = len(pages) == levels + 1
            intervals = []
            per_level = []
            shapes = []
            ok_tiles = True
            for li, pg in enumerate(pages):
                offs, cnts = list(pg.dataoffsets), list(pg.databytecounts)
                live = [(o, c) for o, c in zip(offs, cnts) if c > 0]
                intervals += [(o, o + c, li) for o, c in live]
                per_level.append((min(o for o, _ in live), max(o for o, _ in live)) if live else None)
                ishape = (pg.imagelength, pg.imagewidth)
                shapes.append(ishape)
                ok_tiles = ok_tiles and pg.is_tiled and pg.tilelength % 16 == 0 and pg.tilewidth % 16 == 0
                if li < len(tiles):
                    ok_tiles = ok_tiles and (pg.tilelength, pg.tilewidth) == tuple(tiles[li])
                ok_tiles = ok_tiles and all(c > 0 for c in cnts)  # incompressible data: every tile present
            intervals.sort()
            gaps = [(a[1], b[0]) for a, b in zip(intervals, intervals[1:]) if a[1] != b[0]]
            ok_bytes = bool(intervals) and not gaps and intervals[-1][1] == fsize
            ok_half = ok_pages and shapes[0] == tuple(padded) and all(shapes[i + 1] == (shapes[i][0] // 2, shapes[i][1] // 2) and shapes[i][0] % 2 == 0 and shapes[i][1] % 2 == 0 for i in range(len(shapes) - 1))
            # overview data first, smaller levels earlier
            ok_order = all(per_level[j] is not None and per_level[i] is not None and per_level[j][1] < per_level[i][0] for i in range(len(per_level)) for j in range(i + 1, len(per_level)))
            # decode with tifffile and compare
            lv0 = pages[0].asarray()
            if layout == "YXS":
                lv0 = lv0.transpose(2, 0, 1) if lv0.ndim == 3 else lv0[None]
            elif lv0.ndim == 2:
                lv0 = lv0[None]
            ok_dec = lv0.shape[0] == exp.shape[0] and lv0.shape[1] >= ny and lv0.shape[2] >= nx and np.array_equal(lv0[:, :ny, :nx], exp, equal_nan=dt.kind == "f")
            ok_nn = True
            prev = lv0
            vy, vx = ny, nx  # extent of real (un-padded) pixels at the previous level
            for pg in pages[1:]:
                cur = pg.asarray()
                if layout == "YXS":
                    cur = cur.transpose(2, 0, 1) if cur.ndim == 3 else cur[None]
                elif cur.ndim == 2:
                    cur = cur[None]
                if cur.shape[1] * 2 != prev.shape[1] or cur.shape[2] * 2 != prev.shape[2]:
                    ok_nn = False
                    break
                four = np.stack([prev[:, 0::2, 0::2], prev[:, 0::2, 1::2], prev[:, 1::2, 0::2], prev[:, 1::2, 1::2]])
                exact = None
                if cur.dtype.kind in "iu" and cur.dtype.itemsize == 8:
                    # overviews are made by GDAL's warper, which carries 64-bit integers as doubles: beyond 2^53 the copy is the nearest double (and saturates at the ends of
                    # the range), not the exact value.  The statement promises exact pixels at full resolution only; what is judged here is that each overview pixel comes
                    # from its own 2x2 parent block, so blocks holding such values are compared as doubles, and left alone where even that is ambiguous (|v| >= 2^63)
                    lim = 2.0 ** 63
                    f4 = four.astype("float64")
                    exact = (np.abs(f4) < lim).all(axis=0)
                    four, cur = f4, cur.astype("float64")
                eq = (four == cur[None]) | (np.isnan(four) & np.isnan(cur[None]) if cur.dtype.kind == "f" else False)
                vy, vx = vy // 2, vx // 2  # judged where the whole 2x2 parent block is real data (padding values of overviews are not specified)
                hit = eq.any(axis=0) if exact is None else (eq.any(axis=0) | ~exact)
                ok_nn = ok_nn and bool(hit[:, :vy, :vx].all())
                prev = cur
        mon.check(ok_pages and ok_tiles and ok_half, "tiff-structure", lambda: wit({"pages": len(pages), "expected_levels": levels, "shapes": shapes, "expected_padded": padded, "tiles_ok": ok_tiles,
                  "tiles": [(p.tilelength, p.tilewidth) for p in pages], "expected_tiles": tiles}), key="tiff-structure", cls=cls)
        mon.check(ok_bytes, "tiff-bytes", lambda: wit({"gaps_or_overlaps": gaps[:5], "last_end": intervals[-1][1] if intervals else None, "file_size": fsize}), key="tile-bytes-gap-or-overlap", cls=cls)
        mon.check(ok_order, "tiff-order", lambda: wit({"offset_ranges_per_level": per_level}), key="overviews-not-first", cls=cls)
        mon.check(ok_dec, "tiff-decode", lambda: wit({"shape": lv0.shape}), key="tifffile-decode-differs", cls=cls)
        mon.check(ok_nn, "overview-values", lambda: wit({}), key="overview-not-from-parent-block", cls=cls)
        # ---- part-writer history at the sink boundary
        log = _sink_log.get(fn)
        if to_s3:
            creates = [e for e in s3.log if e[0] == "create"]
            ups = [e for e in s3.log if e[0] == "upload_part"]
            comps = [e for e in s3.log if e[0] == "complete"]
            ids = [e[4] for e in ups]
            ok_hist = (len(creates) == 1 and len(comps) == 1 and all(e[3] == creates[0][3] for e in ups + comps) and len(set(ids)) == len(ids) and comps[0][4] == sorted(ids)
                       and all(1 <= i <= 10_000 for i in ids) and all(e[5] >= 5 * (1 << 20) for e in sorted(ups, key=lambda e: e[4])[:-1]) and sum(e[5] for e in ups) == fsize)
            mon.check(ok_hist, "s3-history", lambda: wit({"log": [e[:5] + (e[5:] if e[0] == "upload_part" else ()) for e in s3.log][:12], "file_size": fsize}), key="s3-history", cls=f"parts={min(len(ids), 4)}")
            mon.obs["s3_parts_written"] += len(ids)
        elif log is None or not log["calls"]:
            mon.inconclusive("sink history not observed")
        else:
            ids = [p for p, _ in log["calls"]]
            sizes = dict(log["calls"])
            srt = sorted(ids)
            ok_hist = len(set(ids)) == len(ids) and len(log["final"]) == 1 and log["final"][0] == srt and sum(sizes.values()) == fsize and all(sizes[i] >= 4096 for i in srt[:-1])
            mon.check(ok_hist, "sink-history", lambda: wit({"parts": sorted(log["calls"]), "finalise": log["final"], "file_size": fsize}), key="sink-history", cls=f"parts={min(len(ids), 4)}{'+' if len(ids) > 4 else ''}")
            mon.obs["parts_written"] += len(ids)
        if order_sig:
            _orders.add((cfg["scheduler"], order_sig))
    finally:
        for p in (fn,):
            try:
                os.remove(p)
            except OSError:
                pass
        shutil.rmtree(os.path.join(workdir, f".{os.path.basename(fn)}.parts"), ignore_errors=True)


_orders = set()


def _guarded(mon: Monitor, cfg, workdir: str) -> None:
    """A file the independent readers cannot even open or decode is a violation of the property, not a monitor error."""
    import signal
    import threading

    import tifffile

    class _Hang(BaseException):
        pass

    def _on_alarm(signum, frame):
        raise _Hang("wall-clock")

    # logical bound: the layout pass writes a header and one (empty) entry per tile; no configuration has more than ~10^4 tiles
    orig_write, nwrites = tifffile.FileHandle.write, [0]

    def counted(self, *a, **k):
        nwrites[0] += 1
        if nwrites[0] > WRITE_BOUND:
            raise _Hang("logical")
        return orig_write(self, *a, **k)

    tifffile.FileHandle.write = counted
    armed = threading.current_thread() is threading.main_thread()
    if armed:
        old = signal.signal(signal.SIGALRM, _on_alarm)
        signal.alarm(CONFIG_WATCHDOG_S)
    try:
        run_config(mon, cfg, workdir)
    except _Hang as h:
        if str(h) == "logical":
            mon.fail("save", {**cfg, "why": f"more than {WRITE_BOUND} writes through tifffile's file handle while laying out / reading one small file: the call does not terminate"}, key="save-does-not-terminate")
        else:
            mon.error("config-watchdog", TimeoutError(f"configuration did not finish within {CONFIG_WATCHDOG_S} s (wall clock: inconclusive, not a verdict): {cfg}"))
    except Exception as e:  # noqa: BLE001
        import traceback

        tb = traceback.extract_tb(e.__traceback__)
        reader = any(("rasterio" in f.filename or "tifffile" in f.filename or "imagecodecs" in f.filename) for f in tb)
        if reader:
            mon.fail("readers", {**cfg, "exc": e, "where": [f"{os.path.basename(f.filename)}:{f.name}" for f in tb][-4:]}, key="file-unreadable")
        else:
            mon.error("config", e)
    finally:
        tifffile.FileHandle.write = orig_write
        if armed:
            signal.alarm(0)
            signal.signal(signal.SIGALRM, old)


CONFIG_WATCHDOG_S = 300
WRITE_BOUND = 2_000_000

PINNED = [
    # tall tiles: 31 added pixels make a second tile row (second guise of D36, thorough seed 9)
    dict(ny=33, nx=337, layout="YX", ns=1, dtype="uint32", chunks=[200, 16], band_chunk=1, nodata=0, blocksize=[[48, 16], 16], compression="lzw", predictor=True, spill_sz=0, writes_per_chunk=1, stats=True, bigtiff=True, scheduler="sync", workers=2, order_seed=38, data_seed=38, crs="EPSG:3857"),    # irregular source chunking whose largest chunk equals the tile size (D37)
    dict(ny=64, nx=64, layout="YX", ns=1, dtype="uint16", chunks=[16, 64], band_chunk=1, nodata=None, blocksize=None, compression="deflate", predictor=None, spill_sz=None, writes_per_chunk=None, stats=True, bigtiff=True, scheduler="sync", workers=2, order_seed=36, data_seed=36, crs="EPSG:3857", irregular_chunks=True),
    dict(ny=70, nx=100, layout="SYX", ns=2, dtype="int16", chunks=[16, 16], band_chunk=1, nodata=-9999, blocksize=[16], compression="zstd", predictor=None, spill_sz=1024, writes_per_chunk=2, stats=False, bigtiff=True, scheduler="threads", workers=4, order_seed=37, data_seed=37, crs="EPSG:4326", irregular_chunks=True),    # more than 16 tiles across and not a multiple of 2**levels: the padded layout has whole tile rows / columns the data does not have (D36)
    dict(ny=520, nx=100, layout="YX", ns=1, dtype="uint16", chunks=[64, 64], band_chunk=1, nodata=None, blocksize=[16], compression="deflate", predictor=None, spill_sz=None, writes_per_chunk=None, stats=True, bigtiff=True, scheduler="sync", workers=2, order_seed=33, data_seed=33, crs="EPSG:3857"),
    dict(ny=257, nx=300, layout="SYX", ns=2, dtype="int16", chunks=[64, 64], band_chunk=1, nodata=-9999, blocksize=[16], compression="zstd", predictor=None, spill_sz=4096, writes_per_chunk=2, stats=False, bigtiff=False, scheduler="threads", workers=4, order_seed=34, data_seed=34, crs="EPSG:4326"),
    dict(ny=300, nx=257, layout="YXS", ns=3, dtype="uint8", chunks=[100, 64], band_chunk=3, nodata=None, blocksize=[16], compression="lzw", predictor=None, spill_sz=None, writes_per_chunk=None, stats=True, bigtiff=True, scheduler="sync", workers=2, order_seed=35, data_seed=35, crs="EPSG:32633"),    # five pyramid levels, a first overview of more than 20 tiles, nothing spilled before the end (C05-10: repartitioned + concatenated bags reach the append step as one-shot iterators)
    dict(ny=150, nx=140, layout="YX", ns=1, dtype="uint8", chunks=[64, 64], band_chunk=1, nodata=None, blocksize=[16], compression="deflate", predictor=None, spill_sz=0, writes_per_chunk=None, stats=True, bigtiff=True, scheduler="sync", workers=2, order_seed=31, data_seed=31, crs="EPSG:3857"),
    dict(ny=200, nx=170, layout="YXS", ns=3, dtype="int16", chunks=[32, 32], band_chunk=3, nodata=-9999, blocksize=[16], compression="zstd", predictor=None, spill_sz=0, writes_per_chunk=2, stats=False, bigtiff=False, scheduler="threads", workers=4, order_seed=32, data_seed=32, crs="EPSG:4326"),    # nodata declared through the CF _FillValue attribute only (C05-9)
    dict(ny=70, nx=100, layout="YX", ns=1, dtype="int16", chunks=[32, 32], band_chunk=1, nodata=-9999, blocksize=[32], compression="deflate", predictor=None, spill_sz=None, writes_per_chunk=None, stats=True, bigtiff=True, scheduler="sync", workers=2, order_seed=30, data_seed=30, crs="EPSG:3857", nodata_attr="_FillValue"),    # a save that died half way at the same destination, then the real one: same layout, fixed-size (uncompressed) tiles, parts spilled early (C05-8 / C18-8: part files of equal size kept)
    dict(ny=256, nx=240, layout="YX", ns=1, dtype="uint16", chunks=[64, 64], band_chunk=1, nodata=None, blocksize=[64], compression="none", predictor=None, spill_sz=1024, writes_per_chunk=2, stats=False, bigtiff=True, scheduler="sync", workers=2, order_seed=28, data_seed=28, crs="EPSG:3857", aborted_first=True),
    dict(ny=200, nx=150, layout="SYX", ns=2, dtype="float32", chunks=[64, 64], band_chunk=1, nodata=None, blocksize=[32], compression="none", predictor=None, spill_sz=0, writes_per_chunk=3, stats=True, bigtiff=True, scheduler="threads", workers=4, order_seed=29, data_seed=29, crs="EPSG:4326", aborted_first=True),    # very large magnitudes in every band with statistics on (seeded change C05-7: header room reserved for the statistics text, offsets computed before it is patched in)
    dict(ny=70, nx=100, layout="SYX", ns=2, dtype="float64", chunks=[32, 32], band_chunk=1, nodata=None, blocksize=[32], compression="deflate", predictor=None, spill_sz=None, writes_per_chunk=None, stats=True, bigtiff=True, scheduler="sync", workers=2, order_seed=25, data_seed=25, crs="EPSG:3857", magnitude="huge"),
    dict(ny=64, nx=48, layout="YX", ns=1, dtype="int64", chunks=[16, 16], band_chunk=1, nodata=None, blocksize=[16], compression="zstd", predictor=None, spill_sz=1024, writes_per_chunk=2, stats=True, bigtiff=False, scheduler="threads", workers=4, order_seed=26, data_seed=26, crs="EPSG:4326", magnitude="huge"),
    dict(ny=33, nx=40, layout="YXS", ns=3, dtype="float32", chunks=[16, 16], band_chunk=3, nodata=None, blocksize=[16], compression="lzw", predictor=None, spill_sz=None, writes_per_chunk=None, stats=True, bigtiff=True, scheduler="sync", workers=2, order_seed=27, data_seed=27, crs="EPSG:32633", magnitude="special"),
    # LERC with a secondary codec and that codec's effort keyword (C05-6: the effort must not become LERC's error tolerance)
    dict(ny=70, nx=100, layout="YX", ns=1, dtype="int16", chunks=[32, 32], band_chunk=1, nodata=None, blocksize=[32], compression="lerc_zstd", comp_kw={"zstd_level": 9}, predictor=None, spill_sz=None, writes_per_chunk=None, stats=True, bigtiff=True, scheduler="sync", workers=2, order_seed=23, data_seed=23, crs="EPSG:3857"),
    dict(ny=64, nx=48, layout="SYX", ns=2, dtype="float32", chunks=[16, 16], band_chunk=1, nodata=-9999, blocksize=[16], compression="lerc_deflate", comp_kw={"zlevel": 6}, predictor=None, spill_sz=1024, writes_per_chunk=2, stats=False, bigtiff=True, scheduler="threads", workers=4, order_seed=24, data_seed=24, crs="EPSG:4326"),
    # pixel-interleaved source split along the sample axis, spatial chunks equal to the (default) tile (C05-4)
    dict(ny=64, nx=96, layout="YXS", ns=3, dtype="uint8", chunks=[32, 32], band_chunk=1, nodata=None, blocksize=None, compression="deflate", predictor=None, spill_sz=None, writes_per_chunk=None, stats=True, bigtiff=True, scheduler="sync", workers=2, order_seed=21, data_seed=21, crs="EPSG:3857"),
    dict(ny=70, nx=40, layout="YXS", ns=4, dtype="int16", chunks=[16, 16], band_chunk=1, nodata=-9999, blocksize=[16], compression="zstd", predictor=None, spill_sz=1024, writes_per_chunk=2, stats=False, bigtiff=True, scheduler="threads", workers=4, order_seed=22, data_seed=22, crs="EPSG:4326"),
    # fewer full-resolution tiles than overview tiles (sub-stream grouping by size instead of by level would put full-resolution data first: C05-3)
    dict(ny=256, nx=256, layout="YX", ns=1, dtype="uint8", chunks=[128, 128], band_chunk=1, nodata=None, blocksize=[128, 32], compression="deflate", predictor=None, spill_sz=None, writes_per_chunk=None, stats=True, bigtiff=True, scheduler="sync", workers=2, order_seed=19, data_seed=19, crs="EPSG:3857"),
    dict(ny=200, nx=150, layout="SYX", ns=2, dtype="int16", chunks=[64, 64], band_chunk=1, nodata=None, blocksize=[128, 16], compression="zstd", predictor=None, spill_sz=4096, writes_per_chunk=2, stats=False, bigtiff=True, scheduler="threads", workers=4, order_seed=20, data_seed=20, crs="EPSG:32633"),
    # uncompressed x a level that is exactly one tile (D32: tifffile's contiguous shortcut consumed the endless empty-tile iterator)
    dict(ny=16, nx=16, layout="YX", ns=1, dtype="uint8", chunks=[16, 16], band_chunk=1, nodata=None, blocksize=[16], compression="none", predictor=None, spill_sz=None, writes_per_chunk=None, stats=True, bigtiff=True, scheduler="sync", workers=2, order_seed=16, data_seed=16, crs="EPSG:3857"),
    dict(ny=128, nx=128, layout="SYX", ns=2, dtype="int16", chunks=[64, 64], band_chunk=1, nodata=-9999, blocksize=[64], compression="none", predictor=False, spill_sz=1024, writes_per_chunk=2, stats=False, bigtiff=False, scheduler="threads", workers=4, order_seed=17, data_seed=17, crs="EPSG:32633"),
    dict(ny=143, nx=16, layout="YXS", ns=4, dtype="uint16", chunks=[200, 200], band_chunk=1, nodata=None, blocksize=None, compression="none", predictor=None, spill_sz=None, writes_per_chunk=None, stats=True, bigtiff=False, scheduler="sync", workers=2, order_seed=18, data_seed=18, crs="EPSG:4326"),
    # incompressible tiles > 4 KiB x spill threshold 4 KiB: an un-started left section above the minimum write size merges with a right section that already spilled (C05-2)
    dict(ny=256, nx=256, layout="YX", ns=1, dtype="uint8", chunks=[64, 64], band_chunk=1, nodata=None, blocksize=[64], compression="deflate", predictor=None, spill_sz=4096, writes_per_chunk=None, stats=False, bigtiff=True, scheduler="sync", workers=2, order_seed=14, data_seed=14, crs="EPSG:3857"),
    dict(ny=256, nx=200, layout="SYX", ns=2, dtype="uint16", chunks=[64, 64], band_chunk=1, nodata=None, blocksize=[64, 32], compression="zstd", predictor=None, spill_sz=4096, writes_per_chunk=2, stats=True, bigtiff=True, scheduler="threads", workers=4, order_seed=15, data_seed=15, crs="EPSG:32633", dest="s3"),
    # default tile sizes derived from single-pixel dask chunks (D31)
    dict(ny=1, nx=1, layout="YX", ns=1, dtype="uint16", chunks=[1, 1], band_chunk=1, nodata=None, blocksize=None, compression="deflate", predictor=None, spill_sz=None, writes_per_chunk=None, stats=True, bigtiff=True, scheduler="sync", workers=2, order_seed=11, data_seed=11, crs="EPSG:3857"),
    dict(ny=1, nx=40, layout="YX", ns=1, dtype="int16", chunks=[1, 1], band_chunk=1, nodata=-9999, blocksize=None, compression="lzw", predictor=False, spill_sz=65536, writes_per_chunk=1, stats=True, bigtiff=True, scheduler="sync", workers=2, order_seed=12, data_seed=12, crs="EPSG:4326"),
    dict(ny=12, nx=9, layout="SYX", ns=2, dtype="float32", chunks=[1, 1], band_chunk=1, nodata=None, blocksize=None, compression="zstd", predictor=None, spill_sz=0, writes_per_chunk=2, stats=False, bigtiff=False, scheduler="threads", workers=4, order_seed=13, data_seed=13, crs="EPSG:32633"),
    dict(ny=129, nx=100, layout="SYX", ns=2, dtype="int16", chunks=[32, 32], band_chunk=1, nodata=-9999, blocksize=[32, 16], compression="zstd", predictor=None, spill_sz=None, writes_per_chunk=None, stats=True, bigtiff=True, scheduler="threads", workers=4, order_seed=8, data_seed=8, crs="EPSG:3857", dest="s3"),
    # K4 (known finding): band-first cube, ns == ny == nx: both layouts match the GeoBox and the shape heuristic picks band-last although the DataArray dims say otherwise
    dict(ny=2, nx=2, layout="SYX", ns=2, dtype="float64", chunks=[200, 200], band_chunk=2, nodata=-9999, blocksize=[16], compression="lzw", predictor=True, spill_sz=0, writes_per_chunk=None, stats=True, bigtiff=True, scheduler="sync", workers=8, order_seed=765388, data_seed=116416, crs="EPSG:3857"),
    # D20: single row / column and 2x100 with [32,16]; D21: band-first 3-4 px wide; repartition (>20 tiles) and concat (>4 bags) paths
    dict(ny=1, nx=40, layout="YX", ns=1, dtype="uint16", chunks=[1, 16], band_chunk=1, nodata=None, blocksize=[32, 16], compression="deflate", predictor=None, spill_sz=None, writes_per_chunk=None, stats=True, bigtiff=True, scheduler="sync", workers=2, order_seed=1, data_seed=1, crs="EPSG:3857"),
    dict(ny=70, nx=1, layout="YX", ns=1, dtype="float32", chunks=[16, 1], band_chunk=1, nodata=-9999, blocksize=[16], compression="zstd", predictor=True, spill_sz=0, writes_per_chunk=2, stats=False, bigtiff=True, scheduler="threads", workers=4, order_seed=2, data_seed=2, crs="EPSG:4326"),
    dict(ny=2, nx=100, layout="YX", ns=1, dtype="uint8", chunks=[2, 32], band_chunk=1, nodata=255, blocksize=[32, 16], compression="lzw", predictor=None, spill_sz=1024, writes_per_chunk=None, stats=True, bigtiff=False, scheduler="sync", workers=2, order_seed=3, data_seed=3, crs="EPSG:3857"),
    dict(ny=7, nx=3, layout="SYX", ns=3, dtype="int16", chunks=[5, 7], band_chunk=1, nodata=None, blocksize=[16], compression="deflate", predictor=None, spill_sz=None, writes_per_chunk=None, stats=True, bigtiff=True, scheduler="sync", workers=2, order_seed=4, data_seed=4, crs="EPSG:3857"),
    dict(ny=40, nx=4, layout="SYX", ns=2, dtype="uint16", chunks=[16, 4], band_chunk=2, nodata=0, blocksize=[16], compression="none", predictor=None, spill_sz=65536, writes_per_chunk=3, stats=False, bigtiff=True, scheduler="threads", workers=8, order_seed=5, data_seed=5, crs="EPSG:32633"),
    dict(ny=200, nx=150, layout="YX", ns=1, dtype="float64", chunks=[64, 32], band_chunk=1, nodata=None, blocksize=[16], compression="zstd", predictor=None, spill_sz=1024, writes_per_chunk=1, stats=True, bigtiff=True, scheduler="sync", workers=2, order_seed=6, data_seed=6, crs="EPSG:3857"),
    dict(ny=129, nx=100, layout="SYX", ns=4, dtype="uint8", chunks=[32, 32], band_chunk=1, nodata=None, blocksize=[32, 16], compression="deflate", predictor=None, spill_sz=0, writes_per_chunk=2, stats=True, bigtiff=True, scheduler="threads", workers=4, order_seed=7, data_seed=7, crs="EPSG:3857"),
]


def run(mon: Monitor, tier: str, seed: int, shard: int, nshards: int) -> None:
    install(mon)
    _orders.clear()
    WORK_DIR.mkdir(parents=True, exist_ok=True)
    workdir = tempfile.mkdtemp(prefix=f"c05-{os.getpid()}-", dir=str(WORK_DIR))
    try:
        rng = random.Random(seed * 1000 + shard + 5)
        if shard == 0:
            for cfg in PINNED:
                mon.case = {"kind": "cfg", "cfg": cfg}
                _guarded(mon, cfg, workdir)
        for _ in range(70 if tier == "quick" else 600):
            cfg = make_config(random.Random(rng.getrandbits(48)))
            mon.case = {"kind": "cfg", "cfg": cfg}
            _guarded(mon, cfg, workdir)
        mon.case = None
        mon.obs["distinct_orders_sync"] = len({o for s, o in _orders if s == "sync"})
        mon.obs["distinct_orders_threads"] = len({o for s, o in _orders if s == "threads"})
        for pt, n in [("gdal-readback", 60), ("tiff-structure", 60), ("tiff-bytes", 60), ("tiff-order", 60), ("tiff-decode", 60), ("overview-values", 60), ("sink-history", 40), ("s3-history", 8),
                      ("gdal-readback|YX|thin", 2), ("gdal-readback|SYX|regular", 2), ("gdal-readback|YXS|regular", 2)] + ([("workload.aborted-first|left-part-files", 1)] if shard == 0 else []):
            mon.floor(pt, n)
    finally:
        detach_all()
        shutil.rmtree(workdir, ignore_errors=True)


def replay(mon: Monitor, case) -> None:
    install(mon)
    WORK_DIR.mkdir(parents=True, exist_ok=True)
    workdir = tempfile.mkdtemp(prefix=f"c05-{os.getpid()}-", dir=str(WORK_DIR))
    try:
        mon.case = case
        _guarded(mon, case["cfg"], workdir)
    finally:
        detach_all()
        shutil.rmtree(workdir, ignore_errors=True)
