"""C19 - value objects: equality, hashing, pickling, tokens and caches are coherent.

Three monitors:
 A. relation checker over seeded families of near-identical values per type (each member varies one field):
    reflexive / symmetric / transitive equality, equal => equal hash (hashable types), unequal => different dask
    token, copy / unpickled clone => equal and same token;
 B. CRS construction routes (int, str any case, WKT2, PROJJSON, pyproj object, CRS object, pickle) pairwise equal,
    judged only where pyproj itself says the route is lossless;
 C. histories of CRS construction / drop / gc / transformer requests: str, hash and token of a specification are
    compared with values recorded in pristine subprocesses (one per construction route), and a hook on the
    transformer cache checks that every transformer handed out converts between exactly the requested CRSs
    (metadata + probe points against a transformer freshly built by the oracle).
"""
from __future__ import annotations

import copy
import gc
import itertools
import json
import os
import pickle
import random
import subprocess
import sys

import numpy as np
from affine import Affine

from .. import gen
from ..attach import attach, detach_all, calls
from ..kernel import Monitor, call, hsig, ROOT

PID = "C19"
RULE = ("A: per type (CRS, BoundingBox, Geometry, GeoBox, GCPGeoBox, Tiles, VariableSizedTiles, GeoboxTiles, XY family, GridSpec) seeded families of 8-20 near-identical values, "
        "all ordered pairs and triples; B: seeded pool of EPSG codes (projected + geographic 2D) x 8 construction routes; C: seeded histories of 300-3000 steps over the same pool "
        "(construct / drop / gc.collect / transformer request / re-construct) with enough churn to exceed any plausible cache bound; distinct = distinct (family member pair | code,route | history step)")
ASSUMPTIONS = ["pyproj equality decides which construction routes are lossless", "a transformer freshly built by the oracle is the reference for probe points",
               "PYTHONHASHSEED is pinned so hashes are comparable across the pristine subprocesses"]
SHARDS = {"quick": 1, "thorough": 4}

_mon: Monitor = None  # type: ignore


def _err(label, e):
    _mon.error(label, e)


def tok(x):
    from dask.base import tokenize

    return tokenize(x)


def _same_crs_by_pyproj(sa: str, sb: str) -> bool:
    import pyproj

    try:
        return bool(pyproj.CRS.from_user_input(sa).equals(pyproj.CRS.from_user_input(sb)))
    except Exception:
        return False


def crs_str_of(x):
    """Spelling of the CRS(es) carried by a value (for the K1 classifier)."""
    from odc.geo.crs import CRS

    if isinstance(x, CRS):
        return str(x)
    for attr in ("crs",):
        c = getattr(x, attr, None)
        if isinstance(c, CRS):
            return str(c)
    base = getattr(x, "base", None)
    if base is not None and getattr(base, "crs", None) is not None:
        return str(base.crs)
    return None


# --------------------------------------------------------------------------- A. relation families
def families(rng: random.Random):
    import pyproj
    from odc.geo import CRS, geom, ixy_, iyx_, res_, resxy_, resyx_, shape_, wh_, xy_, yx_
    from odc.geo.gcp import GCPGeoBox, GCPMapping
    from odc.geo.geobox import GeoBox, GeoboxTiles
    from odc.geo.geom import BoundingBox
    from odc.geo.gridspec import GridSpec
    from odc.geo.roi import Tiles, VariableSizedTiles

    wkt4326 = pyproj.CRS.from_epsg(4326).to_wkt()
    crss = ["EPSG:3857", "epsg:3857", "EPSG:32633", None, "EPSG:4326", wkt4326, 4326]
    fams = {}
    r = rng.choice([10.0, 0.5, 30.0, 1 / 3])
    tx, ty = rng.uniform(-1e5, 1e5), rng.uniform(-1e5, 1e5)
    A = Affine(r, 0, tx, 0, -r, ty)
    ny, nx = rng.randint(2, 40), rng.randint(2, 40)
    gb = lambda shape=(ny, nx), aff=A, crs="EPSG:3857": GeoBox(shape, aff, crs)
    fams["GeoBox"] = [gb(), gb(), gb((nx, ny)) if nx != ny else gb((ny + 1, nx)), gb((ny, nx + 1)), gb((ny + 1, nx)),
                      gb(aff=Affine(r, 0, tx, 0, -r, math_nextafter(ty))), gb(aff=Affine(r, 0, math_nextafter(tx), 0, -r, ty)), gb(aff=Affine(r * 2, 0, tx, 0, -r, ty)),
                      gb(aff=Affine(r, 0, tx, 0, r, ty)), gb(aff=Affine(r, 1e-9, tx, 0, -r, ty)), gb(aff=Affine(r, 0, tx, -1e-9, -r, ty)), gb(aff=A * Affine.translation(1, 0)),
                      gb(aff=Affine.rotation(30) * A)] + [gb(crs=c) for c in crss[1:]]
    bt = (rng.randint(2, 6), rng.randint(2, 6))
    B = (bt[0] * 3 - 1, bt[1] * 3 - 1)
    fams["Tiles"] = [Tiles(B, bt), Tiles(B, bt), Tiles((B[0] + 1, B[1] + 1), bt), Tiles((B[0] - 1, B[1] - 1), bt) if bt[0] > 2 and bt[1] > 2 else Tiles((B[0] + 1, B[1]), bt),
                     Tiles((B[0], B[1] + 1), bt), Tiles((B[0] + 1, B[1]), bt), Tiles(B, (bt[0] + 1, bt[1])), Tiles(B, (bt[0], bt[1] + 1)), Tiles((B[1], B[0]), (bt[1], bt[0])),
                     Tiles((B[0] * 2, B[1] * 2), (bt[0] * 2, bt[1] * 2)), Tiles((10, 10), (4, 4)), Tiles((11, 11), (4, 4)), Tiles((12, 12), (4, 4))]
    V = VariableSizedTiles
    fams["VariableSizedTiles"] = [V(((4, 4, 2), (5, 5))), V(((4, 4, 2), (5, 5))), V(((4, 4, 3), (5, 5))), V(((4, 6), (5, 5))), V(((5, 5), (4, 4, 2))), V(((4, 2, 4), (5, 5))),
                                  V(((2, 4, 4), (5, 5))), V(((4, 4, 2), (5, 4, 1))), V(((10,), (10,))), V(((4, 4, 2), (10,))), V(((4, 4, 2, 0), (5, 5))), V(((1,) * 10, (5, 5))),
                                  # same flat run of chunk sizes, cut into rows / columns at different places
                                  V(((10, 20), (30,))), V(((10,), (20, 30))), V(((30, 0), (30,))), V(((30,), (0, 30))), V(((5, 5), (5, 5))), V(((5,), (5, 5, 5))), V(((5, 5, 5), (5,)))]
    g10 = GeoBox((10, 10), A, "EPSG:3857")
    T = GeoboxTiles
    fams["GeoboxTiles"] = [T(g10, (4, 4)), T(g10, (4, 4)), T(g10, (5, 5)), T(g10.crop((11, 11)), (4, 4)), T(g10.crop((12, 12)), (4, 4)), T(g10, ((4, 4, 2), (4, 4, 2))), T(g10, ((4, 6), (4, 4, 2))),
                           T(GeoBox((10, 10), A, "EPSG:32633"), (4, 4)), T(GeoBox((10, 10), A * Affine.translation(1, 0), "EPSG:3857"), (4, 4)), T(g10, (4, 5)), T(g10, (10, 10)), T(g10, ((10,), (10,))),
                           T(g10, ((10, 0), (10,))), T(g10, ((10,), (0, 10))), T(g10, ((10,), (10, 0)))]
    x0, y0 = rng.uniform(-100, 100), rng.uniform(-50, 50)
    bb = lambda l=x0, b=y0, r_=x0 + 10, t=y0 + 5, crs="EPSG:4326": BoundingBox(l, b, r_, t, crs)
    fams["BoundingBox"] = [bb(), bb(), bb(l=x0 - 1), bb(b=y0 - 1), bb(r_=x0 + 11), bb(t=y0 + 6), bb(t=math_nextafter(y0 + 5)), bb(l=y0, b=x0) if x0 != y0 else bb(l=x0 + 0.5)] + [bb(crs=c) for c in crss if c != "EPSG:4326"]
    gm = lambda s, crs="EPSG:4326": geom.Geometry(s, crs)
    import shapely.geometry as sg

    ring = [(x0, y0), (x0 + 1, y0), (x0 + 1, y0 + 1), (x0, y0 + 1)]
    fams["Geometry"] = [gm(sg.Polygon(ring)), gm(sg.Polygon(ring)), gm(sg.Polygon(ring[1:] + ring[:1])), gm(sg.Polygon(ring[::-1])), gm(sg.Polygon(ring[:3] + [(x0, y0 + 1.5)])),
                        gm(sg.LinearRing(ring)), gm(sg.LineString(ring + ring[:1])), gm(sg.MultiPoint(ring)), gm(sg.Point(*ring[0])), gm(sg.Point(ring[0][0], math_nextafter(ring[0][1]))),
                        gm(sg.Polygon(ring, [[(x0 + 0.2, y0 + 0.2), (x0 + 0.4, y0 + 0.2), (x0 + 0.3, y0 + 0.4)]])), gm(sg.MultiPolygon([sg.Polygon(ring)])), gm(sg.GeometryCollection([sg.Polygon(ring)])),
                        gm(sg.Polygon())] + [gm(sg.Polygon(ring), c) for c in crss if c != "EPSG:4326"]
    a, b = rng.randint(1, 9), rng.randint(10, 19)
    fams["XY"] = [xy_(a, b), xy_(a, b), xy_(b, a), yx_(b, a), yx_(a, b), xy_(float(a), float(b)), ixy_(a, b), iyx_(b, a), resxy_(a, b), resxy_(a, -b), res_(a), res_(float(a)), resyx_(-a, a), wh_(a, b), shape_((b, a)),
                  shape_((a, b)), xy_(a + 0.5, b), xy_(a, b + 1), xy_("a", "b"), xy_(a, -b), xy_(-a, b)]
    G = GridSpec
    fams["GridSpec"] = [G("EPSG:3857", (10, 10), 10), G("EPSG:3857", (10, 10), 10), G("epsg:3857", (10, 10), 10.0), G("EPSG:3857", (10, 10), 10, flipx=True), G("EPSG:3857", (10, 10), 10, flipy=True),
                        G("EPSG:3857", (10, 10), 10, origin=xy_(1, 0)), G("EPSG:3857", (10, 10), 10, origin=xy_(0, 1)), G("EPSG:3857", (10, 20), 10), G("EPSG:3857", (20, 10), 10),
                        G("EPSG:3857", (10, 10), resxy_(10, 10)), G("EPSG:32633", (10, 10), 10), G("EPSG:3857", (20, 5), resxy_(5, -20)), G("EPSG:3857", (5, 20), resxy_(20, -5)), G("EPSG:3857", (10, 10), 20),
                        G("EPSG:3857", (20, 20), 5)]
    import pyproj as pp

    p32, p4 = pp.CRS.from_epsg(32633), pp.CRS.from_epsg(4326)
    fams["CRS"] = [CRS("EPSG:4326"), CRS("epsg:4326"), CRS(4326), CRS(p4), CRS(p4.to_json()), CRS(CRS("EPSG:4326")), CRS("EPSG:3857"), CRS("EPSG:32633"), CRS(p32), CRS("EPSG:32733"),
                   CRS("EPSG:32634"), CRS("EPSG:4269"), CRS("EPSG:3577"), CRS("+proj=utm +zone=33 +datum=WGS84 +units=m +no_defs"), CRS("EPSG:4979") if False else CRS("EPSG:6933")]
    # a datum-less definition next to the registered CRS it resembles, once with its EPSG guess already looked up (a read-only accessor) and once without
    la_custom, la_reg, _w = rng.choice(gen.LOOKALIKES[:3])
    looked_up = CRS(la_custom)
    looked_up.epsg  # noqa: B018
    fams["CRS"] += [looked_up, CRS(la_reg), CRS(la_custom)]
    # user-defined CRSs no authority lists: different from each other and from everything else
    fams["CRS"] += [CRS("+proj=sinu +lon_0=0 +x_0=0 +y_0=0 +R=6371007.181 +units=m +no_defs"), CRS("+proj=laea +lat_0=52 +lon_0=20 +x_0=0 +y_0=0 +ellps=GRS80 +units=m +no_defs"), CRS("+proj=longlat +ellps=GRS80 +no_defs")]
    # GCP boxes: shared mapping => equal; rebuilt mapping with equal content => (K2) unequal by identity
    pix = [xy_(px, py) for px in (0, 50, 100) for py in (0, 40, 80)]
    wld = lambda dx=0.0: [xy_(100 + 0.1 * p.x + dx, -30 - 0.1 * p.y) for p in pix]
    m1 = GCPMapping(pix, wld(), "EPSG:4326")
    m1b = GCPMapping(pix, wld(), "EPSG:4326")
    m2 = GCPMapping(pix, wld(1e-7), "EPSG:4326")
    m3 = GCPMapping(pix, wld(), "EPSG:4269")
    Gc = GCPGeoBox
    fams["GCPGeoBox"] = [Gc((80, 100), m1), Gc((80, 100), m1), Gc((80, 100), m1b), Gc((80, 101), m1), Gc((81, 100), m1), Gc((80, 100), m2), Gc((80, 100), m3), Gc((80, 100), m1, Affine.translation(1, 0)),
                         Gc((80, 100), m1, Affine.scale(2)), Gc((80, 100), m1)[0:80, 0:100], Gc((80, 100), m1).pad(1), Gc((100, 80), m1)]
    return fams


def math_nextafter(x: float) -> float:
    import math

    return math.nextafter(x, math.inf)


def gcp_content(g):
    m = g._mapping
    return (tuple(g.shape), tuple(g._affine)[:6], str(m.crs), m._pix.tobytes(), m._wld.tobytes())


def relation_check(mon: Monitor, name: str, vals) -> None:
    n = len(vals)
    eq = [[None] * n for _ in range(n)]
    hashes, tokens = [], []
    for v in vals:
        h, e = call(hash, v)
        hashes.append(h if e is None else None)
        t, e = call(tok, v)
        if e is not None:
            mon.fail(f"{name}.token", {"value": repr(v)[:200], "exc": e}, key="token-raises")
        tokens.append(t)
    for i, j in itertools.product(range(n), repeat=2):
        r, e = call(lambda: vals[i] == vals[j])
        if e is not None:
            mon.fail(f"{name}.eq", {"a": repr(vals[i])[:150], "b": repr(vals[j])[:150], "exc": e}, key="eq-raises")
            r = None
        eq[i][j] = None if r is None else bool(r)
        ne, e2 = call(lambda: vals[i] != vals[j])
        if e2 is None and r is not None:
            mon.check(bool(ne) == (not bool(r)), f"{name}.ne", {"a": repr(vals[i])[:150], "b": repr(vals[j])[:150], "eq": r, "ne": ne}, key="ne-inconsistent")
    desc = lambda i: repr(vals[i])[:160]
    if name == "CRS":
        # what "equal" means for a CRS is pyproj's call, not the library's: the relation must be the one pyproj computes
        for i, j in itertools.combinations(range(n), 2):
            want = bool(vals[i].proj.equals(vals[j].proj))
            mon.check(eq[i][j] == want, "CRS.eq-vs-pyproj", lambda: {"a": desc(i), "b": desc(j), "a==b": eq[i][j], "pyproj_equals": want}, key="crs-eq-differs-from-pyproj", sig=hsig("ceq", tokens[i], tokens[j]))
    for i in range(n):
        mon.check(eq[i][i] is True, f"{name}.reflexive", lambda: {"a": desc(i)}, key="not-reflexive", sig=hsig(name, "r", tokens[i]))
    for i, j in itertools.combinations(range(n), 2):
        sig = hsig(name, tokens[i], tokens[j])
        mon.check(eq[i][j] == eq[j][i], f"{name}.symmetric", lambda: {"a": desc(i), "b": desc(j), "a==b": eq[i][j], "b==a": eq[j][i]}, key="not-symmetric", sig=sig, sample={"a": desc(i), "b": desc(j), "equal": eq[i][j]})
        if eq[i][j] and hashes[i] is not None and hashes[j] is not None:
            sa, sb = crs_str_of(vals[i]), crs_str_of(vals[j])
            spelled = sa is not None and sb is not None and sa != sb and _same_crs_by_pyproj(sa, sb)  # K1 is about two spellings of the SAME CRS, nothing else
            mon.check(hashes[i] == hashes[j], f"{name}.eq-hash", lambda: {"a": desc(i), "b": desc(j), "crs_str": [str(sa)[:40], str(sb)[:40]]},
                      key="crs-hash-spelling" if spelled else "eq-hash", cls="spelling-differs" if spelled else "same-spelling", sig=sig)
        if eq[i][j] is False and tokens[i] is not None and tokens[j] is not None:
            key = f"token-collision-{name}"
            if name == "GCPGeoBox" and gcp_content(vals[i]) == gcp_content(vals[j]):
                key = "gcp-identity-eq"  # K2: equal content, unequal only because the mapping object differs
            mon.check(tokens[i] != tokens[j], f"{name}.uneq-token", lambda: {"a": desc(i), "b": desc(j), "token": tokens[i]}, key=key, sig=sig)
    ntr = 0
    for i, j, k in itertools.permutations(range(n), 3):
        if eq[i][j] and eq[j][k]:
            ntr += 1
            if not eq[i][k]:
                mon.fail(f"{name}.transitive", {"a": desc(i), "b": desc(j), "c": desc(k)}, key="not-transitive")
    mon.ok(f"{name}.transitive", n=max(ntr, 1))
    # copies and unpickled clones
    for i, v in enumerate(vals):
        for how, mk in (("copy", copy.copy), ("deepcopy", copy.deepcopy), ("pickle", lambda x: pickle.loads(pickle.dumps(x)))):
            c, e = call(mk, v)
            if e is not None:
                mon.fail(f"{name}.{how}", {"a": desc(i), "exc": e}, key=f"{how}-raises")
                continue
            same, e = call(lambda: c == v and v == c)
            t2, _ = call(tok, c)
            if name == "GCPGeoBox" and how != "copy" and not same:
                # K2: equality is by identity of the shared mapping; content is compared structurally so that real content errors still fail
                content_ok = gcp_content(c) == gcp_content(v)
                mon.check(False if content_ok else False, f"{name}.{how}-equal", {"a": desc(i), "content_equal": content_ok}, key="gcp-identity-eq" if content_ok else "clone-content-differs")
                mon.check(t2 == tokens[i], f"{name}.{how}-token", {"a": desc(i)}, key="clone-token")
                continue
            mon.check(bool(same), f"{name}.{how}-equal", lambda: {"a": desc(i), "clone": repr(c)[:160]}, key="clone-unequal", sig=hsig(name, how, tokens[i]))
            mon.check(t2 == tokens[i], f"{name}.{how}-token", lambda: {"a": desc(i), "token": tokens[i], "clone_token": t2}, key="clone-token")
            if hashes[i] is not None and same:
                h2, _ = call(hash, c)
                mon.check(h2 == hashes[i], f"{name}.{how}-hash", lambda: {"a": desc(i)}, key="eq-hash")


    # read-only use: queries and accessors must not change what a value is (token, hash, equality with a clone made beforehand)
    for i, v in enumerate(vals):
        clone, e = call(lambda: pickle.loads(pickle.dumps(v)))
        if e is not None:
            continue
        eq_before, _ = call(lambda: bool(v == clone) and bool(clone == v))
        nops = readonly_use(name, v)
        t_after, _ = call(tok, v)
        h_after, _ = call(hash, v) if hashes[i] is not None else (None, None)
        eq_after, _ = call(lambda: bool(v == clone) and bool(clone == v))
        t_clone, _ = call(tok, clone)
        # ... nor whether it can be pickled: a value that could be shipped before it was looked at can be shipped afterwards, and arrives equal
        again, e_again = call(lambda: pickle.loads(pickle.dumps(v)))
        if e_again is not None:
            mon.fail(f"{name}.readonly-use", {"a": desc(i), "operations": nops, "exc": e_again, "why": "picklable before use, not after"}, key="unpicklable-after-use")
            continue
        if name != "GCPGeoBox":
            mon.check(bool(call(lambda: again == v and v == again)[0]), f"{name}.pickle-after-use", lambda: {"a": desc(i), "clone": repr(again)[:160]}, key="clone-unequal")
        else:
            mon.check(gcp_content(again) == gcp_content(v), f"{name}.pickle-after-use", lambda: {"a": desc(i)}, key="clone-content-differs")
        ok = t_after == tokens[i] and (hashes[i] is None or h_after == hashes[i]) and eq_after == eq_before and (not eq_after or name == "GCPGeoBox" or t_clone == t_after)
        mon.check(ok, f"{name}.readonly-use", lambda: {"a": desc(i), "operations": nops, "token_before": tokens[i], "token_after": t_after, "clone_token": t_clone, "hash_same": h_after == hashes[i],
                  "equal_to_clone_before": eq_before, "equal_to_clone_after": eq_after}, key="changed-by-readonly-use", sig=hsig(name, "ro", tokens[i]))


def readonly_use(name: str, v) -> int:
    """A battery of queries / accessors that do not (are not supposed to) modify the value; exceptions are irrelevant here. Returns how many ran."""
    ops = []
    if name == "CRS":
        ops = [lambda: v.epsg, lambda: v.wkt, lambda: v.units, lambda: v.geographic, lambda: v.dimensions, lambda: str(v), lambda: repr(v), lambda: v.to_wkt(pretty=True),
               lambda: v.transformer_to_crs(type(v)("EPSG:4326")), lambda: v.proj.area_of_use, lambda: v.authority]
    elif name == "GridSpec":
        from odc.geo.geom import BoundingBox

        ts = v.tile_size
        bb = BoundingBox(v.origin.x + 0.1 * ts.x, v.origin.y + 0.1 * ts.y, v.origin.x + 1.7 * ts.x, v.origin.y + 1.2 * ts.y, v.crs) if hasattr(v, "origin") else None
        ops = [lambda: v.tile_geobox((0, 0)), lambda: v[1, -1], lambda: v.pt2idx(0.0, 0.0), lambda: list(v.tiles(bb)), lambda: list(v.tiles_from_geopolygon(bb.polygon)), lambda: v.geojson(bbox=bb),
               lambda: v.idx_bounds(bb), lambda: v.alignment, lambda: v.dimensions, lambda: str(v), lambda: repr(v)]
    elif name in ("GeoBox", "GCPGeoBox"):
        ops = [lambda: v.extent, lambda: v.boundingbox, lambda: v.geographic_extent, lambda: v.footprint("EPSG:4326"), lambda: v.coordinates, lambda: v.resolution, lambda: v.center_pixel,
               lambda: v.transform, lambda: v[0:1, 0:1], lambda: v.zoom_out(2), lambda: v.pad(1), lambda: str(v), lambda: repr(v), lambda: v.dimensions, lambda: v.linear, lambda: v.approx if hasattr(v, "approx") else None,
               lambda: v.map_bounds(), lambda: v.wld2pix(0.0, 0.0), lambda: v.pix2wld(0.0, 0.0)]
    elif name == "GeoboxTiles":
        ops = [lambda: v[0, 0], lambda: v.chunks, lambda: v.shape, lambda: list(v.tiles(v.base.extent)), lambda: v.roi, lambda: v.base, lambda: v.chunk_shape((0, 0)), lambda: v.range_from_bbox(v.base.boundingbox),
               lambda: v.grid_intersect(v), lambda: str(v)]
    elif name in ("Tiles", "VariableSizedTiles"):
        ops = [lambda: v[0, 0], lambda: v.chunks, lambda: v.shape, lambda: v.base, lambda: v.tile_shape((0, 0)), lambda: v.locate((0, 0)), lambda: v.crop((slice(0, 1), slice(0, 1))), lambda: str(v), lambda: repr(v)]
    elif name == "Geometry":
        ops = [lambda: v.boundingbox, lambda: v.area, lambda: v.length, lambda: v.wkt, lambda: v.json, lambda: v.centroid, lambda: v.envelope, lambda: v.is_valid, lambda: v.to_crs("EPSG:3857"), lambda: v.geojson(),
               lambda: v.__geo_interface__, lambda: str(v), lambda: repr(v)]
    elif name == "BoundingBox":
        ops = [lambda: v.polygon, lambda: v.bbox, lambda: v.span_x, lambda: v.points, lambda: v.buffered(1), lambda: v.to_crs("EPSG:3857") if v.crs is not None else None, lambda: v.map_bounds(), lambda: str(v), lambda: repr(v),
               lambda: v.aspect, lambda: v.boundary(3)]
    else:
        ops = [lambda: str(v), lambda: repr(v), lambda: tuple(v.xy) if hasattr(v, "xy") else None, lambda: v.aspect if hasattr(v, "aspect") else None]
    n = 0
    for op in ops:
        _, e = call(op)
        n += e is None
    return n


# --------------------------------------------------------------------------- B/C. CRS pool, routes, histories
def epsg_pool(rng: random.Random, n: int):
    import pyproj
    from pyproj.enums import PJType

    infos = pyproj.database.query_crs_info(auth_name="EPSG", pj_types=[PJType.PROJECTED_CRS, PJType.GEOGRAPHIC_2D_CRS])
    codes = sorted({int(i.code) for i in infos if not i.deprecated})
    common = [4326, 3857, 32633, 32601, 32755, 3577, 6933, 3035, 27700, 2193, 4269, 4283, 28355, 32610]
    pick = common + rng.sample([c for c in codes if c not in common], max(0, n - len(common)))
    return pick[:n]


ROUTES = ("str", "lower", "int", "wkt", "json", "pyproj")
PRISTINE_SCRIPT = r'''
import sys, json, warnings
warnings.filterwarnings("ignore")
import pyproj
from dask.base import tokenize
from odc.geo.crs import CRS
route = sys.argv[1]
codes = json.loads(sys.argv[2])
out = {}
for n in codes:
    try:
        p = pyproj.CRS.from_epsg(n)
        spec = {"str": f"EPSG:{n}", "lower": f"epsg:{n}", "int": n, "wkt": p.to_wkt(), "json": p.to_json(), "pyproj": p}[route]
        c = CRS(spec)
        out[str(n)] = [str(c), hash(c), tokenize(c), c.epsg]
    except Exception as e:
        out[str(n)] = ["ERR " + type(e).__name__]
print("@@" + json.dumps(out))
'''


def pristine(codes):
    """Reference (str, hash, token, epsg) per route, each route in its own fresh interpreter."""
    from concurrent.futures import ThreadPoolExecutor

    env = dict(os.environ)

    def one(route):
        p = subprocess.run([sys.executable, "-c", PRISTINE_SCRIPT, route, json.dumps(codes)], env=env, capture_output=True, text=True, timeout=600, cwd=str(ROOT))
        line = [l for l in p.stdout.splitlines() if l.startswith("@@")]
        if p.returncode != 0 or not line:
            raise RuntimeError(f"pristine subprocess for route {route} failed: {p.stderr[-400:]}")
        return route, {int(k): v for k, v in json.loads(line[0][2:]).items()}

    with ThreadPoolExecutor(len(ROUTES)) as ex:
        return dict(ex.map(one, ROUTES))


def make_spec(route: str, code: int, pcache):
    import pyproj

    if route in ("wkt", "json", "pyproj"):
        p = pyproj.CRS.from_epsg(code)  # a new pyproj object every time (ids can be recycled)
        return {"wkt": p.to_wkt(), "json": p.to_json(), "pyproj": p}[route]
    return {"str": f"EPSG:{code}", "lower": f"epsg:{code}", "int": code}[route]


AUTH_CODES = ["ESRI:54009", "ESRI:54030", "ESRI:102001", "ESRI:53004", "OGC:CRS84", "OGC:CRS27", "IGNF:LAMB93", "ESRI:102033"]
AUTH_SCRIPT = r'''
import sys, json, warnings
warnings.filterwarnings("ignore")
from dask.base import tokenize
from odc.geo.crs import CRS
out = {}
for spec in json.loads(sys.argv[1]):
    try:
        c = CRS(spec)
        out[spec] = [str(c), hash(c), tokenize(c)]
    except Exception as e:
        out[spec] = ["ERR " + type(e).__name__]
print("@@" + json.dumps(out))
'''


def authority_case(mon: Monitor, rng: random.Random) -> None:
    """Codes of authorities other than EPSG, written with the authority in upper, lower or mixed case: each spelling built here - after its siblings, in a seeded order -
    must have the string form, hash and token it has in an interpreter that never saw the siblings."""
    from odc.geo.crs import CRS

    variants = {c: [c, c.lower(), c.split(":")[0].capitalize() + ":" + c.split(":")[1]] for c in AUTH_CODES}
    ref = {}
    for k in range(3):  # one fresh interpreter per spelling family: no sibling is ever built there
        specs = [v[k] for v in variants.values()]
        p = subprocess.run([sys.executable, "-c", AUTH_SCRIPT, json.dumps(specs)], env=dict(os.environ), capture_output=True, text=True, timeout=600, cwd=str(ROOT))
        line = [l for l in p.stdout.splitlines() if l.startswith("@@")]
        if p.returncode != 0 or not line:
            return mon.error("CRS.authority-case", f"pristine interpreter failed: {p.stderr[-300:]}")
        ref.update(json.loads(line[0][2:]))
    for code, vs in variants.items():
        order = list(vs)
        rng.shuffle(order)
        for n, spec in enumerate(order):
            want = ref.get(spec)
            c, e = call(CRS, spec)
            if want is None or want[0].startswith("ERR") or e is not None:
                mon.skip("CRS.authority-case", "specification not accepted (same in the pristine interpreter)" if (want and want[0].startswith("ERR") and e is not None) else "no reference")
                if e is not None and want and not want[0].startswith("ERR"):
                    mon.fail("CRS.authority-case", {"spec": spec, "built_after": order[:n], "exc": e}, key="crs-history-dependent")
                continue
            got = [str(c), hash(c), tok(c)]
            mon.check(got == want, "CRS.authority-case", lambda: {"spec": spec, "built_after": order[:n], "str_hash_token_here": got, "in_a_fresh_interpreter": want}, key="crs-history-dependent",
                      cls="first" if n == 0 else "after-sibling", sig=hsig("auth", spec, tuple(order[:n])))


COLLIDING = {"wkt", "pyproj"}
SEEN = {}  # code -> routes constructed so far in this process (the CRS cache is process global)


def check_routes(mon: Monitor, codes) -> None:
    """B: all routes give pairwise equal objects wherever pyproj says the route is lossless."""
    import pyproj
    from odc.geo.crs import CRS

    for code in codes:
        p = pyproj.CRS.from_epsg(code)
        lossless = {"str": True, "lower": True, "int": True, "pyproj": True}
        for r, mk in (("wkt", lambda: pyproj.CRS.from_wkt(p.to_wkt())), ("json", lambda: pyproj.CRS.from_json(p.to_json()))):
            q, e = call(mk)
            lossless[r] = e is None and q == p
        objs = {}
        for r in ROUTES:
            if not lossless[r]:
                mon.skip("CRS.routes", f"{r} route lossy per pyproj")
                continue
            c, e = call(CRS, make_spec(r, code, None))
            SEEN.setdefault(code, set()).add(r)
            if e is not None:
                mon.fail("CRS.routes", {"code": code, "route": r, "exc": e}, key="crs-route-raises")
                continue
            objs[r] = c
        base = objs.get("str")
        if base is not None:
            objs["crs-object"] = CRS(base)
            objs["pickle"] = pickle.loads(pickle.dumps(base))
            if "wkt" in objs:
                objs["pickle-of-wkt"] = pickle.loads(pickle.dumps(objs["wkt"]))
        for (r1, a), (r2, b) in itertools.combinations(objs.items(), 2):
            ok, e = call(lambda: (a == b) and (b == a) and not (a != b))
            mon.check(e is None and bool(ok), "CRS.routes", lambda: {"code": code, "routes": [r1, r2], "str": [str(a)[:50], str(b)[:50]], "exc": e}, key="crs-routes-unequal",
                      cls=f"{r1}~{r2}", sig=hsig("route", code, r1, r2), sample={"code": code, "routes": [r1, r2]})


import functools


@functools.lru_cache(maxsize=4096)
def _oracle_transformer(src_wkt: str, dst_wkt: str, axy: bool):
    """Oracle-side transformers are keyed by CRS *content*, so they cannot suffer from recycled object ids."""
    import pyproj

    return pyproj.Transformer.from_crs(src_wkt, dst_wkt, always_xy=axy)


def post_transform(args, kw, res, exc, snap):
    """Hook on the transformer cache: the transformer handed out converts between exactly the requested CRSs."""
    import pyproj

    names = ("from_crs", "to_crs", "always_xy")
    p = dict(zip(names, args))
    p.update(kw)
    src, dst, axy = p["from_crs"], p["to_crs"], p.get("always_xy", True)
    if exc is not None:
        try:
            _oracle_transformer(src.to_wkt(), dst.to_wkt(), axy)
        except Exception as oe:
            if type(oe) is type(exc):
                return _mon.skip("transformer-cache", "pyproj itself cannot build this transformer")
        return _mon.fail("transformer-cache", {"src": src.to_string()[:40], "dst": dst.to_string()[:40], "exc": exc}, key="transformer-raises")
    ok_meta = res.source_crs.equals(src) and res.target_crs.equals(dst)
    fresh = _oracle_transformer(src.to_wkt(), dst.to_wkt(), axy)
    # probe points inside the source CRS's area of use, expressed in the source CRS
    aou = src.area_of_use
    if aou is not None:
        lon = np.array([aou.west * 0.75 + aou.east * 0.25, (aou.west + aou.east) / 2, aou.west * 0.3 + aou.east * 0.7]) if aou.west <= aou.east else np.array([aou.west + 1.0, aou.west + 2.0, aou.west + 3.0])
        lat = np.array([aou.south * 0.7 + aou.north * 0.3, (aou.south + aou.north) / 2, aou.south * 0.25 + aou.north * 0.75])
    else:
        lon, lat = np.array([10.0, 20.0, -30.0]), np.array([5.0, -15.0, 40.0])
    if _PROBE_HINT is not None:
        lon, lat = _PROBE_HINT
    to_src = _oracle_transformer("EPSG:4326", src.to_wkt(), True)
    x, y = to_src.transform(lon, lat)
    if not axy and src.axis_info and src.axis_info[0].direction in ("north", "south"):
        x, y = y, x
    got = np.array(res.transform(x, y), dtype="float64")
    want = np.array(fresh.transform(x, y), dtype="float64")
    ok_pts = np.array_equal(got, want, equal_nan=True)
    _mon.obs["transformer_meta_equal" if ok_meta else "transformer_meta_not_strictly_equal"] += 1
    _mon.obs["transformer_probe_points_finite"] += int(np.isfinite(want).all())
    _mon.check(bool(ok_pts), "transformer-cache", lambda: {"requested": [src.to_string()[:40], dst.to_string()[:40], axy], "got": [res.source_crs.to_string()[:40], res.target_crs.to_string()[:40]],
               "probe_equal": bool(ok_pts), "meta_equal": bool(ok_meta)}, key="transformer-wrong-crs", cls=("always_xy" if axy else "native-axis-order") + ("|lookalike" if _PROBE_HINT is not None else ""),
               sig=hsig("tr", src.to_string(), dst.to_string(), axy), sample={"requested": [src.to_string()[:40], dst.to_string()[:40], axy]})


def history(mon: Monitor, rng: random.Random, codes, ref, steps: int) -> None:
    from odc.geo import crs as C
    from odc.geo.crs import CRS

    live = []  # (route, code, CRS object)
    seen = SEEN
    anchor = [CRS("EPSG:4326"), CRS("EPSG:3857")]
    n_tr = 0
    for step in range(steps):
        op = rng.choice(["construct", "construct", "construct", "reconstruct", "reconstruct", "drop", "drop", "gc", "transform", "derived"])
        if op in ("construct", "reconstruct") or not live:
            if op == "reconstruct" and seen:
                code = rng.choice(list(seen))
                route = rng.choice(sorted(seen[code]) + list(ROUTES))
            else:
                code, route = rng.choice(codes), rng.choice(ROUTES)
            want = ref[route].get(code)
            if want is None or str(want[0]).startswith("ERR"):
                continue
            c, e = call(CRS, make_spec(route, code, None))
            if e is not None:
                mon.fail("history", {"step": step, "route": route, "code": code, "exc": e}, key="crs-route-raises")
                continue
            got = [str(c), hash(c), tok(c), c.epsg]
            earlier = set(seen.get(code, set()))
            collide = route in COLLIDING and bool(earlier & (COLLIDING - {route}))
            mon.check(got == want, "history", lambda: {"step": step, "route": route, "code": code, "got": [got[0][:60], got[1], got[2], got[3]], "pristine": [str(want[0])[:60], want[1], want[2], want[3]],
                      "earlier_routes_for_code": sorted(earlier)}, key="crs-cache-key-collision" if collide else "crs-history-dependent",
                      cls=("after-colliding-route|" if collide else "") + route, sig=hsig("h", route, code, step), sample={"route": route, "code": code, "str": got[0][:40]})
            seen.setdefault(code, set()).add(route)
            live.append((route, code, c))
        elif op == "drop":
            for _ in range(rng.randint(1, 5)):
                if live:
                    live.pop(rng.randrange(len(live)))
        elif op == "gc":
            gc.collect()
        elif op == "derived":
            route, code, c = rng.choice(live)
            for d in (CRS(c), pickle.loads(pickle.dumps(c)), copy.copy(c)):
                mon.check(d == c and str(d) == str(c) and hash(d) == hash(c) and tok(d) == tok(c), "history.derived", lambda: {"route": route, "code": code, "str": [str(c)[:50], str(d)[:50]]},
                          key="crs-cache-key-collision" if (route in COLLIDING and len(seen.get(code, ())) > 1) else "derived-differs")
        else:
            a = rng.choice(live)[2]
            b = rng.choice(anchor + anchor + [rng.choice(live)[2]])
            if rng.random() < 0.5:
                a, b = b, a
            tr, e = call(a.transformer_to_crs, b, rng.random() < 0.85)
            n_tr += e is None
    mon.obs["history_steps"] += steps
    mon.obs["transformer_requests"] += n_tr
    mon.obs["distinct_codes_in_history"] += len(seen)
    mon.obs["crs_cache_size_at_end"] = max(mon.obs["crs_cache_size_at_end"], len(getattr(C, "_crs_cache", {})))


_PROBE_HINT = None


def lookalikes(mon: Monitor, rng: random.Random, rounds: int) -> None:
    """Distinct CRSs that resemble each other (datum-less PROJ string next to the registered CRS with the same projection parameters) ask the
    transformer cache for the same partner, in either order, through fresh and re-used CRS objects."""
    global _PROBE_HINT
    from odc.geo.crs import CRS

    try:
        for _ in range(rounds):
            custom, reg, win = rng.choice(gen.LOOKALIKES)
            _PROBE_HINT = (np.array([win[0] * 0.75 + win[2] * 0.25, (win[0] + win[2]) / 2, win[0] * 0.3 + win[2] * 0.7]), np.array([win[1] * 0.7 + win[3] * 0.3, (win[1] + win[3]) / 2, win[1] * 0.25 + win[3] * 0.75]))
            partner = CRS(rng.choice(["EPSG:4326", "EPSG:4326", "EPSG:3857"]))
            for spec in rng.sample([custom, reg], 2):
                c = CRS(spec)
                # probe points are lon/lat inside the pair's window, taken to whichever CRS is the source by the oracle
                call(c.transformer_to_crs, partner) if rng.random() < 0.7 else call(partner.transformer_to_crs, c)
    finally:
        _PROBE_HINT = None


def churn(mon: Monitor, rng: random.Random, codes, n: int) -> None:
    """Construct -> transformer -> drop, many times: any bound on the CRS cache recycles ids under the id-keyed transformer cache."""
    from odc.geo.crs import CRS

    anchor = CRS("EPSG:4326")
    for i in range(n):
        code = codes[i % len(codes)]
        r_ = rng.choice(["pyproj", "wkt", "str", "int"])
        c, e = call(CRS, make_spec(r_, code, None))
        SEEN.setdefault(code, set()).add(r_)
        if e is not None:
            continue
        call(c.transformer_to_crs, anchor)
        if i % 7 == 0:
            call(anchor.transformer_to_crs, c)
        del c
        if i % 25 == 0:
            gc.collect()
    mon.obs["churn_constructions"] += n


TRAVEL_SCRIPT = r'''
import sys, pickle, random, warnings, base64
warnings.filterwarnings("ignore")
from vf.props import c19
from vf.kernel import call
fams = c19.families(random.Random(int(sys.argv[1])))
out = []
for name, vals in fams.items():
    for i, v in enumerate(vals):
        b0, _ = call(pickle.dumps, v)                   # never touched
        call(hash, v); call(lambda: {v: 1}); call(c19.tok, v); c19.readonly_use(name, v); call(lambda: v == vals[0]); call(hash, v)
        b1, _ = call(pickle.dumps, v)                   # hashed, used as a key, tokenised, queried
        out.append((name, i, b0, b1))
sys.stdout.write("@@" + base64.b64encode(pickle.dumps(out)).decode())
'''


def travel(mon: Monitor, seed: int) -> None:
    """Values built (and for one variant: hashed, used as dictionary keys, tokenised and queried) in ANOTHER interpreter with a different string-hash seed, pickled there and
    unpickled here - what a dask worker or a later run receives.  Here each arrival must be indistinguishable from the same value built locally: equal both ways, same hash
    (dictionary look-ups hit), same token, same equalities with the rest of its family."""
    import base64

    env = dict(os.environ, PYTHONHASHSEED=str(1 + (int(os.environ.get("PYTHONHASHSEED", "0") or 0) + 4241) % 4000000))
    p = subprocess.run([sys.executable, "-c", TRAVEL_SCRIPT, str(seed)], env=env, capture_output=True, text=True, timeout=900, cwd=str(ROOT))
    line = [l for l in p.stdout.splitlines() if l.startswith("@@")]
    if p.returncode != 0 or not line:
        return mon.error("travel", f"producer interpreter failed: {p.stderr[-400:]}")
    arrivals = pickle.loads(base64.b64decode(line[0][2:]))
    fams = families(random.Random(seed))
    for name, i, b0, b1 in arrivals:
        fresh = fams[name][i]
        hashable = call(hash, fresh)[1] is None
        for variant, b in (("untouched", b0), ("used", b1)):
            if b is None:
                if variant == "used" and b0 is not None:
                    # picklable when fresh, not any more after read-only use (D33: the lazily fitted polynomials of a GCP mapping held a local closure)
                    mon.fail(f"{name}.travel", {"type": name, "value": repr(fresh)[:160], "why": "pickle.dumps raised after the value had been hashed / tokenised / queried, although the untouched value pickles"}, key="unpicklable-after-use", cls=variant)
                else:
                    mon.skip(f"{name}.travel", "not picklable where it was built (judged by the pickle check)")
                continue
            t, e = call(pickle.loads, b)
            desc = {"type": name, "value": repr(fresh)[:160], "variant": variant, "built_with_PYTHONHASHSEED": env["PYTHONHASHSEED"]}
            if e is not None:
                mon.fail(f"{name}.travel", {**desc, "exc": e}, key="travel-unpickle-raises", cls=variant)
                continue
            if name == "GCPGeoBox":
                mon.check(gcp_content(t) == gcp_content(fresh), f"{name}.travel", {**desc, "why": "content differs"}, key="clone-content-differs", cls=variant)  # K2: equality by identity, content compared
                continue
            if crs_str_of(t) != crs_str_of(fresh):
                mon.skip(f"{name}.travel", "CRS spelled differently in the two interpreters (K1/K3 territory)")
                continue
            same, _ = call(lambda: bool(t == fresh) and bool(fresh == t))
            ok_hash = (not hashable) or (call(hash, t)[0] == hash(fresh) and {fresh: 1}.get(t) == 1 and t in {fresh})
            ok_tok = call(tok, t)[0] == tok(fresh)
            pattern = all(call(lambda o=o: bool(t == o))[0] == call(lambda o=o: bool(fresh == o))[0] for o in fams[name])
            key = "clone-unequal" if not same else "travel-hash" if not ok_hash else "clone-token" if not ok_tok else "travel-eq-pattern"
            mon.check(bool(same) and ok_hash and ok_tok and pattern, f"{name}.travel", lambda: {**desc, "equal": same, "hash_and_lookup_ok": ok_hash, "token_ok": ok_tok, "same_equalities_with_family": pattern},
                      key=key, cls=variant, sig=hsig(name, "tr", variant, i, seed))


def run(mon: Monitor, tier: str, seed: int, shard: int, nshards: int) -> None:
    global _mon
    _mon = mon
    rng = random.Random(seed * 1000 + shard + 19)
    q = tier == "quick"
    # A
    for rep in range(3 if q else 25):
        for name, vals in families(rng).items():
            mon.case = {"kind": "family", "type": name, "rep": rep}
            try:
                relation_check(mon, name, vals)
            except Exception as e:
                mon.error(name, e)
    mon.case = {"kind": "travel"}
    for k in range(1 if q else 3):
        try:
            travel(mon, seed * 1000 + shard * 10 + k)
        except Exception as e:
            mon.error("travel", e)
    mon.case = None
    # B + C
    codes = epsg_pool(rng, 120 if q else 600)
    ref = pristine(codes)
    mon.notes["epsg_pool"] = len(codes)
    check_routes(mon, codes[: (60 if q else 300)])
    mon.case = {"kind": "authority-case"}
    try:
        authority_case(mon, rng)
    except Exception as e:
        mon.error("CRS.authority-case", e)
    mon.case = None
    from odc.geo import crs as C

    attach(C, "_make_crs_transform", post=post_transform, on_error=_err, label="_make_crs_transform")
    try:
        for h in range(2 if q else 8):
            mon.case = {"kind": "history", "n": h}
            history(mon, rng, codes, ref, 400 if q else 2500)
        mon.case = {"kind": "churn"}
        churn(mon, rng, codes[: (120 if q else 300)], 420 if q else 3000)
        mon.case = {"kind": "lookalikes"}
        lookalikes(mon, rng, 40 if q else 400)
        mon.case = None
        mon.obs["transformer_hook_calls"] += calls.get("_make_crs_transform", 0)
    finally:
        detach_all()
    for name in ("CRS", "BoundingBox", "Geometry", "GeoBox", "GCPGeoBox", "Tiles", "VariableSizedTiles", "GeoboxTiles", "XY", "GridSpec"):
        mon.floor(f"{name}.symmetric", 50)
        mon.floor(f"{name}.transitive", 3)
        mon.floor(f"{name}.pickle-equal", 10)
        mon.floor(f"{name}.uneq-token", 30)
        mon.floor(f"{name}.readonly-use", 10)
        mon.floor(f"{name}.travel", 8 if name != "GCPGeoBox" else 2)
    for pt, n in [("CRS.routes", 500), ("history", 300), ("transformer-cache", 100), ("transformer-cache|always_xy|lookalike", 20), ("GeoBox.eq-hash", 3), ("BoundingBox.eq-hash", 3), ("XY.eq-hash", 3), ("CRS.eq-hash", 3),
                  ("history|after-colliding-route|wkt", 1), ("history|after-colliding-route|pyproj", 1), ("CRS.routes|wkt~pyproj", 10), ("CRS.routes|int~json", 10), ("CRS.authority-case|after-sibling", 8)]:
        mon.floor(pt, n)


def replay(mon: Monitor, case) -> None:
    # failures are functions of whole families / histories: re-run the quick workload of the recorded seed
    run(mon, "quick", mon.seed, 0, 1)
