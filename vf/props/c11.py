"""C11 - the output grid computed for another CRS encloses the source.

Post-condition monitor on compute_output_geobox (reached through GeoBox.to_crs and .odc.output_geobox as well):
every source pixel corner is projected with the oracle's own pyproj transformer and must fall inside the result's
bounding box up to tol output pixels; alignment, resolution, shape, identity and UTM selection rules are judged
on the returned GeoBox.
"""
from __future__ import annotations

import math
import random

import numpy as np

from .. import gen
from ..attach import attach, detach_all, calls, replay_call
from ..kernel import Monitor, call, hsig

PID = "C11"
RULE = ("seeded sources (north-up and rotated, metre- and degree-based, 8..64 px, extents 0.05..5 deg for regional CRSs and up to 40 deg between near-global CRSs) x targets "
        "(10 CRSs + utm / utm-n / utm-s) x {auto, fit, same, explicit resolution, (ny,nx) shape, integer shape} x anchors x tight x tol; all (ny+1)(nx+1) source pixel corners are projected; "
        "distinct = distinct (source, target, request)")
ASSUMPTIONS = ["the oracle's own pyproj transformer gives the projected position of a source pixel corner", "sources stay inside the valid area of both CRSs",
               "integer shape request: longest side n, or n+1 only when snapping is on; displacement bound includes the documented 0.9 source-pixel buffer"]
SHARDS = {"quick": 1, "thorough": 8}
SUITE_UNDER_MONITOR = True

_mon: Monitor = None  # type: ignore


def _err(label, e):
    _mon.error(label, e)


def post_output_geobox(args, kw, res, exc, snap):
    from odc.geo.crs import CRS
    from odc.geo.geobox import GeoBox
    from odc.geo.types import res_, shape_, AnchorEnum

    p = {"resolution": "auto", "shape": None, "tight": False, "anchor": "default", "tol": 0.01, "round_resolution": None}
    p.update(dict(zip(("gbox", "crs"), args)))
    p.update(kw)
    src, crs = p["gbox"], p["crs"]
    if not isinstance(src, GeoBox):
        return _mon.skip("compute_output_geobox", "GCP source")
    if src.crs is None or 0 in src.shape or src.shape[0] * src.shape[1] > 200_000_000:
        return _mon.skip("compute_output_geobox", "no CRS / empty / too large")
    if p["round_resolution"] is not None:
        return _mon.skip("compute_output_geobox", "round_resolution")
    utm = isinstance(crs, str) and crs.lower().startswith("utm")
    wit = lambda extra=None: {"source": gen.gbox_desc(src), "target": str(crs)[:40], "resolution": repr(p["resolution"]), "shape": repr(p["shape"]), "anchor": repr(p["anchor"]), "tight": p["tight"], "tol": p["tol"],
                              "result": gen.gbox_desc(res) if res is not None else None, **(extra or {})}
    if exc is not None:
        if isinstance(exc, ValueError) and isinstance(p["resolution"], str) and p["resolution"].lower() not in ("auto", "same", "fit"):
            return _mon.skip("compute_output_geobox", "unknown resolution keyword refused (as documented)")
        return _mon.fail("compute_output_geobox", wit({"exc": exc}), key="output-raises")
    out = res
    ny, nx = src.shape
    # source pixel corners -> lon/lat and -> output CRS with the oracle's transformer
    if (nx + 1) * (ny + 1) > 2_000_000:
        # continental rasters (tens of millions of pixels): every corner on the outline and a coarse interior lattice, built without the full grid
        st = max(7, int(math.sqrt((nx + 1) * (ny + 1) / 250_000)))
        xs_, ys_ = np.arange(nx + 1, dtype="float64"), np.arange(ny + 1, dtype="float64")
        lj, li = np.meshgrid(xs_[::st], ys_[::st])
        jj = np.concatenate([xs_, xs_, np.zeros(ny + 1), np.full(ny + 1, float(nx)), lj.ravel()])
        ii = np.concatenate([np.zeros(nx + 1), np.full(nx + 1, float(ny)), ys_, ys_, li.ravel()])
        _mon.obs["continental_sources_outline_plus_lattice"] += 1
    else:
        jj, ii = np.meshgrid(np.arange(nx + 1, dtype="float64"), np.arange(ny + 1, dtype="float64"))
    if jj.ndim == 2 and jj.size > 70000:
        # large rasters: every corner on the outline, every 7th in the interior (evidence says so)
        keep = np.zeros(jj.shape, dtype=bool)
        keep[0, :] = keep[-1, :] = keep[:, 0] = keep[:, -1] = True
        keep[::7, ::7] = True
        jj, ii = jj[keep], ii[keep]
        _mon.obs["large_sources_outline_plus_strided_interior"] += 1
    a, b, c, d, e, f = gen.aff6(src.affine)
    wx, wy = a * jj + b * ii + c, d * jj + e * ii + f
    src_wkt = src.crs.proj.to_wkt()
    lon, lat = gen.transformer(src_wkt, "EPSG:4326").transform(wx.ravel(), wy.ravel())
    # ---- CRS of the result
    if utm:
        z = out.crs.proj.utm_zone
        kwd = crs.lower()
        ok_crs = z is not None and not (kwd == "utm-n" and not z.endswith("N")) and not (kwd == "utm-s" and not z.endswith("S"))
        aou = out.crs.proj.area_of_use
        if ok_crs and aou is not None:
            # valid area overlaps the raster (longitude band; hemisphere is the requested one for utm-n/-s)
            ok_crs = aou.west <= np.nanmax(lon) and aou.east >= np.nanmin(lon)
            if kwd == "utm":
                ok_crs = ok_crs and aou.south <= np.nanmax(lat) and aou.north >= np.nanmin(lat)
        if not ok_crs:
            return _mon.fail("compute_output_geobox", wit({"why": "utm selection", "zone": z, "raster_lon": [float(np.nanmin(lon)), float(np.nanmax(lon))], "raster_lat": [float(np.nanmin(lat)), float(np.nanmax(lat))]}),
                             key="utm-selection", cls="utm")
        target = out.crs
    else:
        target = crs if isinstance(crs, CRS) else CRS(crs)
        if out.crs != target or not out.crs.proj.equals(target.proj):
            return _mon.fail("compute_output_geobox", wit({"why": "result not in the requested CRS"}), key="output-crs")
    same_crs = src.crs.proj.equals(target.proj)
    shape_req, resolution, anchor, tight, tol = p["shape"], p["resolution"], p["anchor"], p["tight"], p["tol"]
    # ---- identity for the source's own CRS with default options
    if same_crs and resolution in ("auto", "same") and shape_req is None and anchor == "default":
        return _mon.check(out is src, "compute_output_geobox", lambda: wit({"why": "same CRS + defaults must return the source unchanged"}), key="same-crs-not-identity", cls="identity",
                          sig=hsig("id", gen.aff6(src.affine), tuple(src.shape), str(target)))
    A = out.affine
    if not (A.b == 0 and A.d == 0):
        return _mon.fail("compute_output_geobox", wit({"why": "not axis aligned"}), key="output-not-axis-aligned")
    if tight and not same_crs and not (isinstance(anchor, str) and anchor == "default"):  # (own CRS: the request without an anchor is the documented "return the source itself" case, not comparable)
        # "anchor: ... ignored when tight=True": however the anchor is spelled (string, number, AnchorEnum member, XY fractions), the tight grid is the one computed without it
        from odc.geo import overlap as O_

        kw_ref = {k: v for k, v in p.items() if k in ("resolution", "shape", "tol") and (k in kw or k == "resolution" and len(args) > 2)}
        if len(args) > 2:
            kw_ref["resolution"] = args[2]
        ref, e_ref = call(O_.compute_output_geobox, src, crs, tight=True, **kw_ref)
        if e_ref is None:
            same_grid = tuple(ref.shape) == tuple(out.shape) and ref.crs == out.crs and all(abs(u - v) <= 1e-12 * max(1.0, abs(v)) for u, v in zip(gen.aff6(out.affine), gen.aff6(ref.affine)))
            if not _mon.check(same_grid, "compute_output_geobox.tight-ignores-anchor", lambda: wit({"why": "tight=True result depends on the anchor", "without_anchor": gen.gbox_desc(ref)}), key="output-tight-anchor",
                              cls=type(anchor).__name__):
                return
    X, Y = gen.transformer(src_wkt, target.proj.to_wkt()).transform(wx.ravel(), wy.ravel())
    X, Y = np.asarray(X), np.asarray(Y)
    if not (np.isfinite(X).all() and np.isfinite(Y).all()):
        return _mon.skip("compute_output_geobox", "source leaves the valid area of the target")
    rx, ry = abs(A.a), abs(A.e)
    ony, onx = out.shape
    xs = sorted((A.c, A.c + onx * A.a))
    ys = sorted((A.f, A.f + ony * A.e))
    fx0, fx1, fy0, fy1 = X.min(), X.max(), Y.min(), Y.max()
    snapping = not tight and anchor not in ("floating", AnchorEnum.FLOATING)
    mode = "shape" if shape_req is not None else resolution if isinstance(resolution, str) else "explicit"
    if shape_req is not None and "resolution" in kw:
        mode = "shape+resolution"
    cls = f"{mode}|{'rotated' if (abs(b) > 1e-12 * abs(a)) else 'north-up'}|{'utm' if utm else 'same-crs' if same_crs else 'cross'}"
    sig = hsig("o", gen.aff6(src.affine), tuple(src.shape), str(target), repr(resolution), repr(shape_req), repr(anchor), tight, tol)
    if shape_req is None:
        eps = 1e-9 * max(1.0, abs(fx0) / rx, abs(fx1) / rx, abs(fy0) / ry, abs(fy1) / ry)
        cover = xs[0] <= fx0 + (tol + eps) * rx and xs[1] >= fx1 - (tol + eps) * rx and ys[0] <= fy0 + (tol + eps) * ry and ys[1] >= fy1 - (tol + eps) * ry
        ok_res = True
        why = None
        if not isinstance(resolution, str):
            r = res_(resolution)
            ok_res = A.a == r.x and A.e == r.y
            why = "explicit resolution not honoured"
        elif resolution == "same" or (resolution == "auto" and src.crs.units == target.units):
            r = src.resolution
            ok_res = abs(A.a - r.x) <= 1e-12 * abs(r.x) and abs(A.e - r.y) <= 1e-12 * abs(r.y)
            why = "resolution differs from the source's although units are shared / 'same' requested"
        else:
            # fit: square pixels, within a factor 2 of the projected source pixel size at the centre
            px, py = _centre_pixel_size(src, target)
            g = math.sqrt(max(px * py, 1e-300))
            ok_res = abs(rx - ry) <= 1e-9 * rx and A.a > 0 and A.e < 0 and 0.5 * min(px, py, g) <= rx <= 2 * max(px, py, g)
            why = "fitted resolution not close to the projected source pixel"
        ok_align = True
        if snapping:
            from .c08 import _anchor_xy

            axy = _anchor_xy(anchor, False)
            if axy is not None:
                kx, ky = xs[0] / rx - axy[0], ys[0] / ry - axy[1]
                ok_align = abs(kx - round(kx)) <= 1e-6 + 1e-9 * abs(kx) and abs(ky - round(ky)) <= 1e-6 + 1e-9 * abs(ky)
        ok = cover and ok_res and ok_align
        key = "output-does-not-enclose-source" if not cover else "output-resolution" if not ok_res else "output-alignment"
        _mon.check(bool(ok), "compute_output_geobox", lambda: wit({"why": None if cover else "projected source corner outside the result", "res_why": None if ok_res else why,
                   "projected_footprint": [fx0, fy0, fx1, fy1], "result_bbox": [xs[0], ys[0], xs[1], ys[1]], "aligned": ok_align}), key=key, cls=cls, sig=sig, sample=wit())
        _mon.obs["corners_projected"] += len(X)
        return
    # ---- shape requests
    if isinstance(shape_req, (int, float)):
        n = int(shape_req)
        ok_shape = max(out.shape) == n or (snapping and max(out.shape) == n + 1)
    else:
        ok_shape = tuple(out.shape) == tuple(shape_(shape_req))
    # displacement from the projected footprint: < 1 output pixel + the 0.9 source pixel buffer (expressed in output units)
    spx = max(_centre_pixel_size(src, target))
    buf = 0.9 * spx * 1.6 + 1e-9 * max(abs(fx0), abs(fy0), 1.0)
    # what the documented 0.9-source-pixel buffer amounts to on each side *in the target CRS*: the outline grown by one source pixel, densified, projected with the oracle's
    # transformer (at 65 degrees north one 6933 pixel is many web-mercator pixels: the size of the centre pixel says nothing about the edges of a continental raster)
    t_ = np.linspace(0, 1, 41)
    gx = np.r_[-1 + (nx + 2) * t_, np.full(41, nx + 1.0), nx + 1 - (nx + 2) * t_, np.full(41, -1.0)]
    gy = np.r_[np.full(41, -1.0), -1 + (ny + 2) * t_, np.full(41, ny + 1.0), ny + 1 - (ny + 2) * t_]
    a_, b_, c_, d_, e_, f_ = gen.aff6(src.affine)
    BX, BY = gen.transformer(src_wkt, target.proj.to_wkt()).transform(a_ * gx + b_ * gy + c_, d_ * gx + e_ * gy + f_)
    BX, BY = np.asarray(BX)[np.isfinite(BX)], np.asarray(BY)[np.isfinite(BY)]
    grow = [max(buf, fx0 - BX.min()) if len(BX) else buf, max(buf, BX.max() - fx1) if len(BX) else buf, max(buf, fy0 - BY.min()) if len(BY) else buf, max(buf, BY.max() - fy1) if len(BY) else buf]
    ex_x, ex_y = (1 + tol) * rx, (1 + tol) * ry
    if isinstance(shape_req, (int, float)):
        ex_x, ex_y = ex_x + rx, ex_y + ry  # square pixels: the shorter side is rounded up to a whole pixel
    bx, by = ex_x + max(grow[0], grow[1]), ex_y + max(grow[2], grow[3])
    disp = max(abs(xs[0] - fx0) - ex_x - grow[0], abs(xs[1] - fx1) - ex_x - max(grow[0], grow[1]), abs(ys[0] - fy0) - ex_y - max(grow[2], grow[3]), abs(ys[1] - fy1) - ex_y - grow[3])
    ok_disp = disp <= 0
    _mon.check(bool(ok_shape and ok_disp), "compute_output_geobox", lambda: wit({"shape_ok": ok_shape, "displacement_ok": ok_disp, "projected_footprint": [fx0, fy0, fx1, fy1],
               "result_bbox": [xs[0], ys[0], xs[1], ys[1]], "allowed": [bx, by]}), key="output-shape" if not ok_shape else "output-displaced", cls=cls + ("|int" if isinstance(shape_req, (int, float)) else ""),
               sig=sig, sample=wit())


def _centre_pixel_size(src, target):
    """Size of the source's centre pixel in target units (two adjacent edges), via the oracle's transformer."""
    ny, nx = src.shape
    a, b, c, d, e, f = gen.aff6(src.affine)
    px_ = np.array([nx // 2, nx // 2 + 1, nx // 2], dtype="float64")
    py_ = np.array([ny // 2, ny // 2, ny // 2 + 1], dtype="float64")
    X, Y = gen.transformer(src.crs.proj.to_wkt(), target.proj.to_wkt()).transform(a * px_ + b * py_ + c, d * px_ + e * py_ + f)
    return math.hypot(X[1] - X[0], Y[1] - Y[0]), math.hypot(X[2] - X[0], Y[2] - Y[0])


def install(mon: Monitor) -> None:
    global _mon
    _mon = mon
    import odc.geo.xr  # noqa: F401  (binds compute_output_geobox into _xr_interop before aliases are rebound)
    from odc.geo import overlap as O

    attach(O, "compute_output_geobox", post=post_output_geobox, on_error=_err, label="compute_output_geobox")
    # the public wrappers promise the same thing: judged by the same oracle, whatever shortcut they take on the way
    from odc.geo.geobox import GeoBox

    attach(GeoBox, "to_crs", post=post_output_geobox, on_error=_err, label="GeoBox.to_crs")


def one(mon: Monitor, rng: random.Random) -> None:
    from odc.geo.overlap import compute_output_geobox
    from odc.geo.xr import xr_zeros

    wins = gen.CRS_WINDOWS
    e1 = rng.choice(wins)
    tgt = rng.choice([w[0] for w in wins] + ["utm", "utm-n", "utm-s", "utm"])
    if tgt.startswith("utm"):
        e2 = ("utm", -170, -75, 170, 75)
    else:
        e2 = [w for w in wins if w[0] == tgt][0]
    lo = (max(e1[1], e2[1]), min(e1[3], e2[3]))
    la = (max(e1[2], e2[2]), min(e1[4], e2[4]))
    if lo[1] - lo[0] < 3 or la[1] - la[0] < 3:
        return mon.skip("generator", "no common window")
    both_global = e1[0] in gen.GLOBAL_CRS and (tgt in gen.GLOBAL_CRS)
    sz = rng.choice([10.0, 25.0, 40.0]) if (both_global and rng.random() < 0.4) else rng.choice([0.05, 0.2, 1.0, 2.0, 5.0])
    if tgt.startswith("utm"):
        sz = min(sz, 2.0)
    sz = min(sz, (lo[1] - lo[0]) / 3.2, (la[1] - la[0]) / 3.2)
    fam = rng.choice(["north-up", "north-up", "rotated", "mirror-y"])
    src, _w = gen.window_geobox(rng, (e1[0], lo[0], la[0], lo[1], la[1]), npix=rng.choice([(rng.choice([8, 16, 32, 64]), rng.choice([8, 20, 33, 64]))] * 8 + [(256, 256), (800, 700)]), extent_deg=sz, fam=fam)
    mode = rng.choice(["auto", "auto", "fit", "same", "res", "shape", "shapeint"])
    kw = {"tol": rng.choice([0.01, 0.05])}
    if rng.random() < 0.6:
        kw["anchor"] = rng.choice(["default", "center", "edge", 0.25, "floating", "xy", "enum"])
        if kw["anchor"] == "xy":
            from odc.geo import xy_

            kw["anchor"] = xy_(rng.choice([0.25, 0, 0.1]), rng.choice([0.75, 0.5, 0.6]))
        elif kw["anchor"] == "enum":
            from odc.geo.types import AnchorEnum

            kw["anchor"] = rng.choice([AnchorEnum.EDGE, AnchorEnum.CENTER, AnchorEnum.FLOATING])
    if rng.random() < 0.25:
        kw["tight"] = True
    if rng.random() < 0.15:
        kw = {}
    if mode in ("auto", "fit", "same"):
        kw["resolution"] = mode
    elif mode == "shape":
        kw["shape"] = (rng.randint(3, 40), rng.randint(3, 40))
    elif mode == "shapeint":
        kw["shape"] = rng.randint(3, 60)
    # keywords are matched without regard to letter case (the suite itself asks for "utM-n"): every casing of the word and of the hemisphere letter
    target = rng.choice([tgt, tgt.lower()]) if not tgt.startswith("utm") else rng.choice([tgt, tgt, tgt.upper(), tgt[:-1] + tgt[-1].upper(), tgt.capitalize()])
    if mode == "res":
        g0, e = call(compute_output_geobox, src, target)
        if e is not None:
            return
        kw["resolution"] = abs(g0.resolution.x) * rng.choice([0.7, 1, 2.5])
    if mode in ("shape", "shapeint") and rng.random() < 0.4:
        # shape= together with resolution=: the documentation says the resolution is ignored
        r_extra = rng.choice(["fit", "same", "num", "num"])
        if r_extra == "num":
            g0, e = call(compute_output_geobox, src, target)
            if e is None:
                kw["resolution"] = abs(g0.resolution.x) * rng.choice([0.7, 1, 2.5])
        else:
            kw["resolution"] = r_extra
    how = rng.random()
    if how < 0.6:
        call(compute_output_geobox, src, target, **kw)
    elif how < 0.85:
        call(src.to_crs, target, **kw)
    else:
        xx = xr_zeros(src, dtype="uint8")
        kw2 = {k: v for k, v in kw.items() if k in ("resolution", "shape", "tight", "anchor", "tol")}
        r_acc, e_acc = call(xx.odc.output_geobox, target, **kw2)
        try:  # the accessor is an entry point of its own: its answer is judged whether or not it went through the monitored function (shortcuts before it would be invisible otherwise)
            post_output_geobox((xx.odc.geobox, target), dict(kw2), r_acc, e_acc, None)  # (the accessor's own GeoBox object: "returns the source unchanged" is about that one)
        except Exception as e:  # noqa: BLE001
            mon.error("odc.output_geobox", e)
    if rng.random() < 0.1:
        call(compute_output_geobox, src, rng.choice([src.crs, str(src.crs)]))
    if rng.random() < 0.12:
        # own CRS with a request that is not "leave it alone": another anchor / resolution / shape through each entry point
        kw_same = rng.choice([{"anchor": "center"}, {"anchor": 0.25}, {"anchor": "floating"}, {"anchor": "center", "resolution": "same"}, {"resolution": "fit"}, {"shape": (rng.randint(3, 30), rng.randint(3, 30))},
                              {"anchor": "edge"}, {"tight": True}])
        own = rng.choice([src.crs, str(src.crs), str(src.crs).lower()])
        call(src.to_crs, own, **kw_same) if rng.random() < 0.6 else call(compute_output_geobox, src, own, **kw_same)


def run(mon: Monitor, tier: str, seed: int, shard: int, nshards: int) -> None:
    install(mon)
    try:
        rng = random.Random(seed * 1000 + shard + 11)
        # earlier history in the same process: somebody asked for authority-axis-order transformers (a documented public call) for half of the CRS pairs
        # before any output grid was computed; whatever is cached along the way must not leak into the x/y-order requests made below
        from odc.geo.crs import CRS

        names = [e[0] for e in gen.CRS_WINDOWS]
        for a_ in names:
            for b_ in names:
                if a_ != b_ and rng.random() < 0.5:
                    call(CRS(a_).transformer_to_crs, CRS(b_), always_xy=False)
                    mon.obs["native_axis_order_transformers_requested_first"] += 1
        for _ in range(420 if tier == "quick" else 12000):
            r = random.Random(rng.getrandbits(48))
            try:
                one(mon, r)
            except Exception as e:
                mon.error("generator", e)
        # curvature probes: many-pixel rasters a few degrees across, where un-densified footprints would bulge out of the box
        from odc.geo.overlap import compute_output_geobox

        for (c1, tgt, lo0, la0, lo1, la1) in [("EPSG:4326", "EPSG:3035", 0, 42, 25, 62), ("EPSG:4326", "EPSG:3577", 120, -38, 148, -14), ("EPSG:3857", "EPSG:3035", 0, 42, 25, 62),
                                               ("EPSG:4326", "utm", 10, 40, 20, 60), ("EPSG:6933", "EPSG:2193", 168, -45, 177, -36), ("EPSG:4326", "EPSG:32633", 12.5, 20, 17.5, 60)]:
            # north-up sources are the ones whose added outline points are exactly collinear (C11-3); both a tile-sized and a region-sized extent
            for fam, ext in (("north-up", 4.0), ("north-up", 14.0), ("rotated", 4.0)):
                r = random.Random(rng.getrandbits(48))
                src, _w = gen.window_geobox(r, (c1, lo0, la0, lo1, la1), npix=(800, 700), extent_deg=min(ext, (lo1 - lo0) * 0.44, (la1 - la0) * 0.44), fam=fam)
                call(compute_output_geobox, src, tgt, resolution=r.choice(["auto", "fit"]))
        # geographic to geographic is not "just a datum shift": rotated-pole model grids (EURO-CORDEX EUR-11) have straight edges that are strongly curved in lon/lat
        import pyproj
        from affine import Affine
        from odc.geo.geobox import GeoBox

        rot_wkt = pyproj.CRS.from_cf({"grid_mapping_name": "rotated_latitude_longitude", "grid_north_pole_latitude": 39.25, "grid_north_pole_longitude": -162.0}).to_wkt()
        eur11 = GeoBox((412, 424), Affine(0.11, 0, -28.375, 0, -0.11, 21.835), rot_wkt)
        for src_, tgt_ in [(eur11, "EPSG:4326"), (eur11[100:250, 100:300], "EPSG:4326"), (eur11, "EPSG:4258"), (GeoBox((300, 500), Affine(0.1, 0, -10.0, 0, -0.1, 65.0), "EPSG:4326"), rot_wkt),
                           (eur11[50:200, 200:400], "EPSG:3035")]:
            for kw_ in ({}, {"resolution": "fit"}, {"tight": True}):
                call(compute_output_geobox, src_, tgt_, **kw_)
                mon.obs["rotated_pole_probes"] += 1
        # continental rasters in tight mode: the footprint's curved edges are sampled by the library, the rim pixels must still be inside (C11-10)
        for src_, tgt_, kws in [(GeoBox((5400, 13600), Affine(0.025, 0, -170.0, 0, -0.025, 67.5), "EPSG:4326"), "ESRI:54009", ({"tight": True, "resolution": 1000}, {"tight": True, "resolution": 500}, {"tight": True})),
                                (GeoBox((4000, 5000), Affine(0.01, 0, 110.0, 0, -0.01, -8.0), "EPSG:4326"), "EPSG:3577", ({"tight": True}, {"tight": True, "resolution": 250}))]:
            for kw_ in kws:
                call(compute_output_geobox, src_, tgt_, **kw_)
                mon.obs["continental_tight_probes"] += 1
        for pt, n in [("compute_output_geobox", 350), ("compute_output_geobox|auto|north-up|cross", 20), ("compute_output_geobox|fit|north-up|cross", 10), ("compute_output_geobox|same|north-up|cross", 10),
                      ("compute_output_geobox|explicit|north-up|cross", 10), ("compute_output_geobox|auto|rotated|cross", 8), ("compute_output_geobox|auto|north-up|utm", 5),
                      ("compute_output_geobox|shape|north-up|cross", 2), ("compute_output_geobox|shape|north-up|cross|int", 2), ("compute_output_geobox|identity", 10), ("compute_output_geobox|shape+resolution|north-up|cross", 2), ("compute_output_geobox.tight-ignores-anchor", 12)]:
            mon.floor(pt, n)
    finally:
        detach_all()


def replay(mon: Monitor, case) -> None:
    install(mon)
    try:
        if not replay_call(case):
            mon.error("replay", "case is not a recorded call")
    finally:
        detach_all()
