"""C06 - multi-part assembly preserves the byte stream under any schedule.

History checker at the boundary (every PartsWriter.__call__/finalise of a recording writer, the observed list given to
mk_header/mk_footer, result/exception) plus an invariant hook on every MPUChunk touched by append / merge / flush_rhs /
maybe_write (conservation of bytes, credits, increasing part ids).  Chunks carry unique ids and position-dependent
bytes, so loss, duplication and re-ordering are identifiable.  Three drivers: direct (every binary merge tree over adjacent
partitions), real dask mpu_write().compute() under random topological orders and thread pools, and - via C05 - the COG writer.
"""
from __future__ import annotations

import itertools
import random
import traceback

from ..attach import attach, detach_all
from ..fakes import RecWriter
from ..kernel import Monitor, call, hsig

PID = "C06"
RULE = ("seeded configurations (min part size m in {8,64,4096}; chunk sizes {0,1,m-1,m,m+1,2m,3m+1}; 1-4 chunks per partition; spill {0,1,m,2m,10m,huge}; writes-per-chunk 1..3; header/footer "
        "presence and sizes; min_part {1,5}; tight and loose max_part; 1-3 sub-streams) x EVERY binary merge tree over <=4 (quick) / <=5 (thorough) adjacent partitions (Catalan enumeration) + "
        "seeded random trees up to 12 partitions; real dask runs under random topological orders (sync) and thread pools 2-8; distinct = distinct (configuration, merge tree | dask order signature)")
ASSUMPTIONS = ["precondition (stated, not judged): the writer offers at least 1 + partitions x writes_per_chunk part numbers", "dask's local schedulers execute the graph they are given; order is randomised through dask.local.order"]
SHARDS = {"quick": 1, "thorough": 8}

_mon: Monitor = None  # type: ignore


def _err(label, e):
    _mon.error(label, e)


# --------------------------------------------------------------------------- invariant hook
def check_chunk(ch, where: str) -> None:
    try:
        obs = sum(sz for sz, _ in ch.observed)
        held = len(ch.left_data) + len(ch.data) + sum(p["Size"] for p in ch.parts)
        ids = [p["PartNumber"] for p in ch.parts]
        ok = obs == held and ch.write_credits >= 0 and all(a < b for a, b in zip(ids, ids[1:]))
    except Exception as e:  # receipts of a foreign writer: cannot judge
        return _mon.skip("MPUChunk.invariant", f"foreign receipts ({type(e).__name__})")
    _mon.check(ok, "MPUChunk.invariant", lambda: {"where": where, "observed_bytes": obs, "left": len(ch.left_data), "data": len(ch.data), "parts": [(p["PartNumber"], p["Size"]) for p in ch.parts],
               "write_credits": ch.write_credits, "nextPartId": ch.nextPartId}, key="chunk-invariant", cls=where)


def _post_self(where):
    def post(args, kw, res, exc, snap):
        if exc is None:
            check_chunk(args[0], where)
    return post


def _post_flush_rhs(args, kw, res, exc, snap):
    extra = args[2] if len(args) > 2 else kw.get("extra_data")
    if exc is None and (extra is None or len(extra) == 0):
        check_chunk(args[0], "flush_rhs")


def _post_merge(args, kw, res, exc, snap):
    if exc is None and res is not None:
        check_chunk(res, "merge")


def install(mon: Monitor) -> None:
    global _mon
    _mon = mon
    from odc.geo.cog._mpu import MPUChunk

    attach(MPUChunk, "append", post=_post_self("append"), on_error=_err, label="MPUChunk.append")
    attach(MPUChunk, "maybe_write", post=_post_self("maybe_write"), on_error=_err, label="MPUChunk.maybe_write")
    # flush_rhs(write, extra_data) is called on the left operand in the middle of merge(): it legitimately holds bytes
    # of the right operand that are not in its own observed list yet - judged only when no foreign bytes are involved
    attach(MPUChunk, "flush_rhs", post=_post_flush_rhs, on_error=_err, label="MPUChunk.flush_rhs")
    attach(MPUChunk, "merge", post=_post_merge, on_error=_err, label="MPUChunk.merge")


# --------------------------------------------------------------------------- history checker
def judge_history(mon: Monitor, w: RecWriter, stream, hdr, ftr, seen_obs, result, exc, cfg, cls: str, sig, given=None) -> bool:
    wit = lambda extra=None: {**cfg, **(extra or {})}
    if given is not None:
        # the chunks belong to the caller: whatever the library assembles, it must not grow or rewrite them (a reused buffer would then repeat foreign bytes later in the stream)
        mon.obs["caller_buffers_compared"] += len(given)
        bad = [i for (d, i), (snap, _) in zip(given, stream) if bytes(d) != snap]
        if bad:
            return mon.fail("history", wit({"why": "the library modified chunks owned by the caller", "chunk_ids": bad[:10], "sizes_now": [len(d) for d, _ in given][:12], "sizes_given": [len(sn) for sn, _ in stream][:12]}),
                            key="caller-chunk-mutated", cls=cls)
        mon.ok("caller-buffers", cls=cfg.get("kind", "bytes"))
    if exc is not None:
        tb = traceback.extract_tb(exc.__traceback__)
        where = next((f"{f.name}:{f.lineno}" for f in reversed(tb) if "odc/geo" in f.filename), "?")
        return mon.fail("history", wit({"exc": exc, "at": where}), key="write-raises", cls=cls)
    m = w.min_write_sz
    want = (hdr or b"") + b"".join(d for d, _ in stream) + (ftr or b"")
    calls = sorted(w.calls)
    ids = [c[0] for c in calls]
    got = b"".join(c[1] for c in calls)
    parts = [(c[0], len(c[1])) for c in calls]
    if len(set(ids)) != len(ids):
        return mon.fail("history", wit({"why": "duplicate part number", "parts": parts}), key="part-id-duplicate", cls=cls)
    if not all(w.min_part <= i <= w.max_part for i in ids):
        return mon.fail("history", wit({"why": "part number outside the writer's range", "parts": parts, "range": [w.min_part, w.max_part]}), key="part-id-out-of-range", cls=cls)
    if got != want:
        # identify: which chunk ids are lost / duplicated / reordered
        n = min(len(got), len(want))
        first = next((i for i in range(n) if got[i] != want[i]), n)
        return mon.fail("history", wit({"why": "concatenation of parts differs from header+stream+footer", "len_got": len(got), "len_want": len(want), "first_difference_at": first, "parts": parts}),
                        key="bytes-differ", cls=cls)
    if any(sz < m for _, sz in parts[:-1]):
        return mon.fail("history", wit({"why": "a part other than the last is below the writer's minimum", "parts": parts, "min_write_sz": m}), key="small-part-midstream", cls=cls)
    if any(sz > w.max_write_sz for _, sz in parts):
        # the statement bounds parts from below only; a writer with a small upper limit (a stream that never spilled is flushed as one piece) is an observation
        mon.obs["histories_with_a_part_above_the_writers_maximum"] += 1
    if len(w.final) != 1 or [p["PartNumber"] for p in w.final[0]] != ids:
        return mon.fail("history", wit({"why": "finalise not called exactly once with the written parts in order", "finalise_calls": [[p["PartNumber"] for p in f] for f in w.final], "written": ids}),
                        key="finalise-parts", cls=cls)
    exp_obs = [(len(d), i) for d, i in stream]
    for tag, obs in seen_obs.items():
        if [tuple(o) for o in obs] != exp_obs:
            return mon.fail("history", wit({"why": f"{tag} callback did not observe the complete ordered (size, id) list", "observed": obs[:10], "expected": exp_obs[:10]}), key="observed-list", cls=cls)
    mon.ok("history", cls=cls, sig=sig, sample={**cfg, "parts": parts[:12]})
    mon.obs["parts_written"] += len(parts)
    return True


# --------------------------------------------------------------------------- configurations
def all_trees(n: int):
    """Every full binary tree over leaves 0..n-1 as nested tuples (Catalan(n-1) of them)."""
    def build(lo, hi):
        if hi - lo == 1:
            yield lo
            return
        for k in range(lo + 1, hi):
            for a in build(lo, k):
                for b in build(k, hi):
                    yield (a, b)
    return list(build(0, n))


def random_tree(rng: random.Random, n: int):
    nodes = list(range(n))
    while len(nodes) > 1:
        i = rng.randrange(len(nodes) - 1)
        nodes[i:i + 2] = [(nodes[i], nodes[i + 1])]
    return nodes[0]


def make_config(rng: random.Random, max_parts: int):
    m = rng.choice([8, 8, 64, 4096])
    wpc = rng.choice([1, 1, 2, 3])
    spill = rng.choice([0, 1, m, 2 * m, 10 * m, 10**9])
    hdr = rng.choice([None, 1, m - 1, m, 3 * m])
    ftr = rng.choice([None, None, 1, m, 2 * m])
    nbags = rng.choice([1, 1, 1, 2, 3])
    sizes = [0, 1, m - 1, m, m + 1, 2 * m, 3 * m + 1]
    spec = []
    for _ in range(nbags):
        n = rng.randint(1, max_parts)
        spec.append([[rng.choice(sizes) for _ in range(rng.choice([1, 1, 2, 3, 4]))] for _ in range(n)])
    min_part = rng.choice([1, 1, 5])
    total_parts = sum(len(b) for b in spec)
    max_part = rng.choice([10_000, min_part + total_parts * wpc])
    # what the caller hands over: immutable bytes, one fresh bytearray per chunk, or ONE bytearray per size reused for every chunk of that size (a cached blank-tile payload)
    kind = rng.choice(["bytes", "bytes", "bytes", "bytearray", "shared-bytearray"])
    if rng.random() < 0.1:
        return dict(m=m, wpc=wpc, spill=spill, hdr=hdr, ftr=ftr, spec=spec, min_part=min_part, max_part=10_000, kind=kind, max_write=rng.choice([m, 2 * m, 5 * m]))
    return dict(m=m, wpc=wpc, spill=spill, hdr=hdr, ftr=ftr, spec=spec, min_part=min_part, max_part=max_part, kind=kind)


def chunk_bytes(i: int, sz: int) -> bytes:
    return bytes([(i * 7 + k * 13 + 1) % 251 for k in range(sz)])


def build_stream(cfg):
    """bags: what is handed to the library (objects of the configured kind); stream: (immutable snapshot, id) in stream order - the oracle never looks at the caller's buffers again,
    except to confirm that the library left them alone."""
    cid = itertools.count()
    bags = []
    stream = []
    kind = cfg.get("kind", "bytes")
    shared = {}
    for bag in cfg["spec"]:
        parts = []
        for p in bag:
            chunks = []
            for sz in p:
                i = next(cid)
                if kind == "shared-bytearray":
                    d = shared.setdefault(sz, bytearray(chunk_bytes(sz, sz)))
                    snap = bytes(d)
                else:
                    snap = chunk_bytes(i, sz)
                    d = bytearray(snap) if kind == "bytearray" else snap
                chunks.append((d, i))
                stream.append((snap, i))
            parts.append(chunks)
        bags.append(parts)
    hdr = None if cfg["hdr"] is None else b"H" * cfg["hdr"]
    ftr = None if cfg["ftr"] is None else b"F" * cfg["ftr"]
    return bags, stream, hdr, ftr


def run_direct(mon: Monitor, cfg, trees, cls: str) -> None:
    """One history: leaves built with the real append op, merged along the given trees, collated, finalised."""
    from odc.geo.cog._mpu import MPUChunk, _finalizer_dask_op, _merge_and_spill_op, _mpu_append_chunks_op, _mpu_collate_op

    w = RecWriter(cfg["m"], cfg["min_part"], cfg["max_part"], max_write_sz=cfg.get("max_write", 1 << 30))
    bags, stream, hdr, ftr = build_stream(cfg)
    seen = {}

    def mk(tag, blob):
        if blob is None:
            return None

        def f(obs, **kw):
            seen[tag] = list(obs)
            return blob
        return f

    def go():
        partId = w.min_part + 1
        subs = []
        for b, (parts, tree) in enumerate(zip(bags, trees)):
            n = len(parts)
            mpus = list(MPUChunk.gen_bunch(partId, n, writes_per_chunk=cfg["wpc"], mark_final=(ftr is None and b == len(bags) - 1), lhs_keep=w.min_write_sz))
            leaves = [_mpu_append_chunks_op([mm], ch, write=w, spill_sz=cfg["spill"])[0] for mm, ch in zip(mpus, parts)]

            def fold(t):
                if isinstance(t, int):
                    return leaves[t]
                return _merge_and_spill_op(fold(t[0]), fold(t[1]), write=w, spill_sz=cfg["spill"])
            subs.append(fold(tree))
            partId += n * cfg["wpc"]
        root = subs[0] if len(subs) == 1 else _mpu_collate_op(subs, write=w, spill_sz=cfg["spill"])
        return _finalizer_dask_op(root, write=w, mk_header=mk("header", hdr), mk_footer=mk("footer", ftr))

    res, exc = call(go)
    judge_history(mon, w, stream, hdr, ftr, seen, res, exc, {**cfg, "trees": repr(trees)[:200]}, cls, hsig("d", repr(cfg), repr(trees)), given=[c for parts in bags for ch in parts for c in ch])
    mon.obs["histories|" + cfg.get("kind", "bytes")] += 1


def drive_direct(mon: Monitor, rng: random.Random, n_cfg: int, max_enum: int) -> None:
    for _ in range(n_cfg):
        rs = rng.getrandbits(48)
        r = random.Random(rs)
        cfg = make_config(r, max_enum)
        per_bag = [all_trees(len(b)) for b in cfg["spec"]]
        combos = list(itertools.product(*per_bag))
        if len(combos) > 60:
            combos = r.sample(combos, 60)
        for trees in combos:
            mon.case = {"kind": "direct", "cfg": cfg, "trees": repr(trees)}
            run_direct(mon, cfg, trees, "direct|enumerated")
        mon.obs["merge_trees_enumerated"] += len(combos)
    mon.case = None


def drive_random_trees(mon: Monitor, rng: random.Random, n: int) -> None:
    for _ in range(n):
        r = random.Random(rng.getrandbits(48))
        cfg = make_config(r, 12)
        trees = tuple(random_tree(r, len(b)) for b in cfg["spec"])
        mon.case = {"kind": "direct", "cfg": cfg, "trees": repr(trees)}
        run_direct(mon, cfg, trees, "direct|random-tree")
    mon.case = None


def run_dask(mon: Monitor, cfg, scheduler: str, seed: int, workers: int = 4, label: str = "") -> None:
    import dask
    import dask.bag as db

    from odc.geo.cog._mpu import mpu_write
    from ..daskorder import random_order

    w = RecWriter(cfg["m"], cfg["min_part"], cfg["max_part"], max_write_sz=cfg.get("max_write", 1 << 30), jitter_seed=seed if scheduler == "threads" else None)
    bags, stream, hdr, ftr = build_stream(cfg)
    seen = {}

    def mk(tag, blob):
        if blob is None:
            return None

        def f(obs, **kw):
            seen[tag] = list(obs)
            return blob
        return f

    dbags = [db.from_delayed([dask.delayed(lambda x: x, pure=False)(p) for p in parts]) for parts in bags]
    # how a partition reaches the library: a list (above), a lazy one-shot iterator (bag.map_partitions(generator function): it can be walked once), or a tuple
    how = ["lists", "lists", "generator", "tuples"][seed % 4]
    if how == "generator":
        def _walk_once(part):
            for item in part:
                yield item
        dbags = [b.map_partitions(_walk_once) for b in dbags]
    elif how == "tuples":
        dbags = [b.map_partitions(tuple) for b in dbags]
    mon.obs["dask_partitions_as|" + how] += 1
    order_sig = None

    def go():
        nonlocal order_sig
        fut = mpu_write(dbags if len(dbags) > 1 or seed % 2 else dbags[0], w, mk_header=mk("header", hdr), mk_footer=mk("footer", ftr), writes_per_chunk=cfg["wpc"], spill_sz=cfg["spill"])
        with random_order(seed) as sig:
            kw = {"num_workers": workers} if scheduler == "threads" else {}
            out = fut.compute(scheduler=scheduler, **kw)
            order_sig = sig()
        return out

    res, exc = call(go)
    ok = judge_history(mon, w, stream, hdr, ftr, seen, res, exc, {**cfg, "scheduler": scheduler, "seed": seed, "workers": workers}, label or f"dask|{scheduler}", hsig("k", repr(cfg), scheduler, order_sig),
                       given=[c for parts in bags for ch in parts for c in ch])
    mon.obs["histories|" + cfg.get("kind", "bytes")] += 1
    if order_sig is not None:
        _orders.add((scheduler, order_sig))


_orders = set()


def drive_dask(mon: Monitor, rng: random.Random, n: int) -> None:
    for i in range(n):
        r = random.Random(rng.getrandbits(48))
        cfg = make_config(r, 8)
        if cfg["m"] == 4096 and r.random() < 0.7:
            cfg = make_config(r, 8)
        sched = "sync" if i % 3 else "threads"
        seed = r.randint(0, 10**6)
        mon.case = {"kind": "dask", "cfg": cfg, "scheduler": sched, "seed": seed}
        run_dask(mon, cfg, sched, seed, workers=r.choice([2, 3, 4, 8]))
    # sub-streams with more partitions than dask's defaults group one-to-one (from_sequence packs items beyond 100): a tiled COG level easily has hundreds
    for i, nparts in enumerate([101, 128, 250][: (2 if n < 200 else 3)] * (1 if n < 200 else 4)):
        r = random.Random(rng.getrandbits(48))
        m = r.choice([8, 64])
        sizes = [0, 1, m - 1, m, m + 1, 2 * m]
        cfg = dict(m=m, wpc=r.choice([1, 2]), spill=r.choice([m, 10 * m, 10**9]), hdr=r.choice([None, m]), ftr=r.choice([None, 1]),
                   spec=[[[r.choice(sizes)] for _ in range(nparts)]] + ([[[r.choice(sizes)] for _ in range(3)]] if r.random() < 0.5 else []), min_part=1, max_part=10_000)
        seed = r.randint(0, 10**6)
        mon.case = {"kind": "dask", "cfg": cfg, "scheduler": "sync", "seed": seed}
        run_dask(mon, cfg, "sync", seed, label="dask|sync|many-partitions")
    mon.case = None
    mon.obs["distinct_dask_orders_sync"] = len({o for s, o in _orders if s == "sync"})
    mon.obs["distinct_dask_orders_threads"] = len({o for s, o in _orders if s == "threads"})


PINNED = [
    # witnesses of the three defects repaired in /repo (D09, D19, D18): replayed on every run
    dict(m=10, wpc=1, spill=10, hdr=None, ftr=None, spec=[[[30], [30, 30]]], min_part=1, max_part=10_000),
    dict(m=64, wpc=2, spill=1, hdr=None, ftr=None, spec=[[[65, 1, 1, 200], [3, 1]]], min_part=1, max_part=10_000),
    dict(m=8, wpc=1, spill=0, hdr=8, ftr=None, spec=[[[9], [17]]], min_part=5, max_part=10_000),
    dict(m=8, wpc=1, spill=8, hdr=None, ftr=8, spec=[[[0], [0]]], min_part=1, max_part=3),
    # caller-owned mutable chunks, one buffer reused for every chunk of a size (seeded change C06-7: adopting the caller's bytearray as the cache)
    dict(m=8, wpc=1, spill=16, hdr=8, ftr=1, spec=[[[9, 3], [9, 9], [3, 9]]], min_part=1, max_part=10_000, kind="shared-bytearray"),
    dict(m=64, wpc=2, spill=10**9, hdr=None, ftr=None, spec=[[[65, 1], [65]], [[1, 65]]], min_part=1, max_part=10_000, kind="shared-bytearray"),
    dict(m=8, wpc=1, spill=0, hdr=None, ftr=None, spec=[[[7, 7], [7]]], min_part=1, max_part=10_000, kind="bytearray"),
    # writers whose largest allowed part is smaller than what is still cached at the end (nothing spilled, a header in front): ids must stay unique whatever the library does about it (C06-10)
    dict(m=8, wpc=1, spill=0, hdr=16, ftr=8, spec=[[[40, 40], [40], [40, 24]]], min_part=1, max_part=10_000, max_write=64),
    dict(m=8, wpc=2, spill=10**9, hdr=8, ftr=None, spec=[[[30], [30, 30]], [[30]]], min_part=5, max_part=10_000, max_write=50),
]


def run(mon: Monitor, tier: str, seed: int, shard: int, nshards: int) -> None:
    install(mon)
    _orders.clear()
    try:
        rng = random.Random(seed * 1000 + shard + 6)
        q = tier == "quick"
        for cfg in PINNED:
            for trees in itertools.product(*[all_trees(len(b)) for b in cfg["spec"]]):
                mon.case = {"kind": "direct", "cfg": cfg, "trees": repr(trees)}
                run_direct(mon, cfg, trees, "direct|pinned")
            if cfg.get("kind", "bytes") != "bytes":
                for sd in (1, 2, 3):
                    mon.case = {"kind": "dask", "cfg": cfg, "scheduler": "sync", "seed": sd}
                    run_dask(mon, cfg, "sync", sd, label="dask|sync|pinned")
        drive_direct(mon, rng, 260 if q else 3000, 4 if q else 5)
        drive_random_trees(mon, rng, 1500 if q else 30000)
        drive_dask(mon, rng, 90 if q else 400)
        mon.exhaustive = True
        mon.notes["exhaustive_domain"] = f"all binary merge trees over adjacent partitions for every generated configuration with <= {4 if q else 5} partitions per sub-stream"
        for pt, n in [("history", 2000), ("history|direct|enumerated", 800), ("history|direct|random-tree", 800), ("history|dask|sync", 30), ("history|dask|threads", 15), ("history|dask|sync|many-partitions", 2), ("history|direct|pinned", 4),
                      ("MPUChunk.invariant", 5000), ("MPUChunk.invariant|merge", 500), ("MPUChunk.invariant|maybe_write", 500), ("MPUChunk.invariant|flush_rhs", 100),
                      ("caller-buffers|bytes", 800), ("caller-buffers|bytearray", 150), ("caller-buffers|shared-bytearray", 150)]:
            mon.floor(pt, n)
    finally:
        detach_all()


def _parse_trees(s):
    import ast

    return ast.literal_eval(s)


def replay(mon: Monitor, case) -> None:
    install(mon)
    try:
        mon.case = case
        if case["kind"] == "direct":
            run_direct(mon, case["cfg"], _parse_trees(case["trees"]), "direct|replay")
        else:
            run_dask(mon, case["cfg"], case["scheduler"], case["seed"])
    finally:
        detach_all()
