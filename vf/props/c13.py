"""C13 - chunked reprojection equals whole-array reprojection.

Differential monitor: the same data is reprojected through xr_reproject numpy-backed and dask-backed (computed under a
seeded random topological order or a thread pool).  Same CRS + nearest => arrays identical (ties excluded unless the grids
are binary exact); in all cases every destination pixel whose centre maps > 2 px outside the source (independent
transform) holds the fill value - nodata if given, NaN for floats, 0 otherwise - in BOTH results, so partially covered and
wholly empty chunks agree across seams.  Disjoint rasters => all fill, no exception.
"""
from __future__ import annotations

import math
import random

import numpy as np
from affine import Affine

from .. import gen, pairs
from ..kernel import Monitor, call, hsig

PID = "C13"
RULE = ("seeded (source, destination) pairs: same CRS (aligned, contained, partial, touching, sub-pixel, integer and fractional scale, mirrored, rotated, far) and different CRSs (10 CRS table, same / "
        "shifted / touching / near / far) x source chunk shapes incl. 1-pixel and non-dividing x destination chunks likewise x dtypes x nodata settings x optional leading time axis x nearest / "
        "bilinear x execution orders (seeded random topological order on the sync scheduler, thread pools 2-8); distinct = distinct (pair, chunking, dtype, nodata, order signature)")
ASSUMPTIONS = ["GDAL (rasterio.warp) is shared by both paths; the in-memory xr_reproject result is the reference", "the oracle's own transform (numpy solve / pyproj) decides which destination centres lie > 2 px outside the source",
               "nearest-neighbour ties (centre within 0.02 px of a source pixel edge) are excluded from the identical-values rule except on binary-exact grids"]
SHARDS = {"quick": 1, "thorough": 16}

_orders = set()


def one(mon: Monitor, rng: random.Random) -> None:
    import dask.array as da

    from odc.geo.xr import wrap_xr, xr_reproject
    from ..daskorder import random_order

    cross = rng.random() < 0.3
    glob = rng.random() < 0.07
    aligned_chunks = None
    if glob:
        # regional destination cut out of a global mosaic (the source is far larger than the destination's projection can represent)
        from odc.geo.geobox import GeoBox
        from .c12 import GLOBAL_SOURCES

        scrs, aff, sshape = rng.choice(GLOBAL_SOURCES)
        src = GeoBox(sshape, Affine(*aff), scrs)
        entry = rng.choice([e for e in gen.CRS_WINDOWS if e[0] not in gen.GLOBAL_CRS])
        dst, _w = gen.window_geobox(rng, entry, npix=(rng.randint(8, 36), rng.randint(8, 36)), extent_deg=rng.choice([1.0, 2.0, 4.0]), fam=rng.choice(["north-up", "north-up", "rotated"]))
        cross, kind, exact_grid = True, "cross|global-source", False
    elif cross:
        pr = pairs.cross_crs_pair(rng, max_n=36)
        if pr is None:
            return mon.skip("generator", "no common window")
        src, dst, place = pr
        kind, exact_grid = "cross|" + place, False
    elif rng.random() < 0.06:
        # unit pixels and a destination chunk whose corner is exactly the CRS origin (a 1 degree global grid south-east of (0, 0), a 1 m grid at the false origin):
        # that chunk's own geotransform is (0, 1, 0, 0, 0, -1), which GDAL / rasterio take for "not georeferenced" (D35)
        from odc.geo.geobox import GeoBox

        cy_, cx_ = rng.choice([3, 5, 8]), rng.choice([4, 6, 9])
        my_, mx_ = rng.randint(0, 2), rng.randint(0, 2)
        crs_ = rng.choice(["EPSG:3857", "EPSG:4326", "EPSG:32633"])
        dst = GeoBox((cy_ * rng.randint(my_ + 1, 4), cx_ * rng.randint(mx_ + 1, 4)), Affine(1.0, 0, -float(cx_ * mx_), 0, -1.0, float(cy_ * my_)), crs_)
        rs_ = rng.choice([0.5, 1.0, 2.0, 0.25])
        src = GeoBox((rng.randint(8, 36), rng.randint(8, 36)), Affine(rs_, 0, -rs_ * rng.randint(2, 12), 0, -rs_, rs_ * rng.randint(2, 12)), crs_)
        if rng.random() < 0.3:
            src, dst = dst, src  # the source block at the origin instead
        kind, exact_grid, aligned_chunks = "same|unit-grid-at-origin", True, (cy_, cx_)
    elif rng.random() < 0.12:
        # same grid, destination a chunk-aligned window of the source (crop, or shifted off by whole chunks) with the source's own chunking:
        # every destination chunk then coincides with a source block - the case where "nothing to warp" shortcuts would apply
        from odc.geo.geobox import GeoBox

        src = pairs.src_box(rng, binary_exact=True, max_n=36)
        cy_, cx_ = rng.choice([3, 5, 8]), rng.choice([4, 6, 9])
        oy_, ox_ = rng.randint(-1, 2) * cy_, rng.randint(-1, 2) * cx_
        dst = GeoBox((cy_ * rng.randint(1, 3), cx_ * rng.randint(1, 3)), src.affine * Affine.translation(ox_, oy_), src.crs)
        kind, exact_grid, aligned_chunks = "same|chunk-aligned", True, (cy_, cx_)
    else:
        exact_grid = rng.random() < 0.6
        src, dst, k0, label = pairs.same_crs_pair(rng, binary_exact=exact_grid, max_n=36)
        if k0 == "subpix":
            # half-pixel shifts are never generated (design): residues are small multiples of the tolerance
            pass
        kind = "same|" + k0
    H, W = src.shape
    ny, nx = dst.shape
    dtype = rng.choice(["uint8", "int16", "uint16", "int32", "float32", "float64"])
    nodata = rng.choice([None, None, 255 if dtype == "uint8" else 9999 if dtype == "uint16" else -9])
    # explicit destination fill (0 is a legitimate explicit value, different from "not given")
    dst_nodata = rng.choice([None, None, None, 0, 0, 7])
    if aligned_chunks:
        if nodata is None:
            nodata = 255 if dtype == "uint8" else 9999 if dtype == "uint16" else -9
        dst_nodata = rng.choice([None, 0, 7, 7])
    tax = rng.random() < 0.35
    shape = ((2,) + (H, W)) if tax else (H, W)
    base = (np.arange(H * W).reshape(H, W) % 97 + 1)
    data = (np.stack([base, base[::-1, ::-1] % 89 + 1]) if tax else base).astype(dtype)
    nd_kind = "none"
    if nodata is not None and (rng.random() < 0.55 or aligned_chunks):
        # real scenes have empty corners and fully masked time slices: whole source windows of nothing but nodata
        nd_kind = rng.choice(["patches", "patches", "half", "plane"] if tax else ["patches", "patches", "half"])
        if nd_kind == "plane":
            data[1] = nodata
        elif nd_kind == "half":
            (data[..., :, : W // 2] if rng.random() < 0.5 else data[..., H // 2:, :]).fill(nodata)
        else:
            for _ in range(rng.randint(1, 3)):
                y0_, x0_ = rng.randint(0, H - 1), rng.randint(0, W - 1)
                data[..., y0_: y0_ + rng.choice([1, 3, 8, H]), x0_: x0_ + rng.choice([1, 4, 9, W])] = nodata
    t = ["2020-01-01", "2020-01-02"] if tax else None
    sch = (rng.choice([1, 3, 7, 16, 64]), rng.choice([1, 4, 9, 64]))
    dch = (rng.choice([1, 5, 8, 64]), rng.choice([2, 6, 64]))
    if H * W > 600:
        sch = (max(sch[0], 3), max(sch[1], 4))
    if glob:
        sch = (rng.choice([60, 90, 128]), rng.choice([90, 120, 256]))

    if ny * nx > 600:
        dch = (max(dch[0], 5), max(dch[1], 6))
    if aligned_chunks:
        sch = dch = aligned_chunks
    resampling = rng.choice(["nearest", "nearest", "bilinear"])
    sched_ = rng.choice(["sync", "sync", "threads"])
    oseed = rng.randint(0, 10**6)
    cfg = {"src": gen.gbox_desc(src), "dst": gen.gbox_desc(dst), "kind": kind, "dtype": dtype, "nodata": nodata, "nodata_in_data": nd_kind, "dst_nodata": dst_nodata, "time_axis": tax, "src_chunks": sch, "dst_chunks": dch, "resampling": resampling,
           "scheduler": sched_, "order_seed": oseed}
    # memory layout of the source as handed over (Fortran order, reversed / strided views, read-only buffers): same values, the oracle keeps its own copy in `data`
    form = random.Random(oseed).choice(gen.ARRAY_FORMS)
    cfg["array_form"] = form
    handed = gen.array_form(data.copy(), form)
    xx = wrap_xr(handed, src, nodata=nodata, time=t) if tax else wrap_xr(handed, src, nodata=nodata)
    sch_used = sch
    if random.Random(oseed + 1).random() < 0.3 and not glob:
        # irregular source chunking, as left behind by cropping a regularly chunked array: a different first chunk, equal interior chunks, a remainder
        def irregular(n, c, r_):
            first = r_.randint(1, max(1, c))
            out, left = [min(first, n)], n - min(first, n)
            while left > 0:
                out.append(min(c, left)); left -= out[-1]
            return tuple(out)
        r_ = random.Random(oseed + 2)
        sch_used = (irregular(H, max(2, sch[0]) if H > 4 else sch[0], r_), irregular(W, max(2, min(sch[1], 9)) if W > 4 else sch[1], r_))
        cfg["src_chunks"] = [list(sch_used[0]), list(sch_used[1])]
        mon.obs["irregular_source_chunkings"] += 1
    dd = da.from_array(handed, chunks=((1,) + tuple(sch_used)) if tax else sch_used)
    xd = wrap_xr(dd, src, nodata=nodata, time=t) if tax else wrap_xr(dd, src, nodata=nodata)
    dkw = {} if dst_nodata is None else {"dst_nodata": dst_nodata}
    a, e = call(lambda: xr_reproject(xx, dst, resampling=resampling, **dkw).values)
    if e is not None:
        return mon.fail("whole", {**cfg, "exc": e}, key="whole-raises", cls=kind)
    osig = None

    def chunked():
        nonlocal osig
        lazy = xr_reproject(xd, dst, resampling=resampling, chunks=dch, **dkw)
        with random_order(oseed) as sig:
            kw = {"num_workers": rng.choice([2, 4, 8])} if sched_ == "threads" else {}
            out = lazy.compute(scheduler=sched_, **kw).values
            osig = sig()
        return out

    b, e = call(chunked)
    cls = kind
    if e is None and rng.random() < 0.25:
        # the same reprojection with two different destination chunkings inside ONE dask expression (lazy comparison / mosaic of alternatives):
        # each operand must still be what it is when computed alone
        dch2 = (max(1, dch[0] // 2) if dch[0] > 1 else 3, dch[1] + 1)

        def joint():
            l1 = xr_reproject(xd, dst, resampling=resampling, chunks=dch, **dkw)
            l2 = xr_reproject(xd, dst, resampling=resampling, chunks=dch2, **dkw)
            return da.stack([l1.data.rechunk(-1), l2.data.rechunk(-1)]).compute(scheduler="sync"), l2.compute(scheduler="sync").values

        jr, je = call(joint)
        if je is not None:
            mon.fail("joint-graph", {**cfg, "dst_chunks_2": dch2, "exc": je}, key="joint-graph-raises", cls=cls)
        else:
            (j1, j2), b2 = jr
            okj = np.array_equal(j1, b, equal_nan=True) and np.array_equal(j2, b2, equal_nan=True)
            mon.check(bool(okj), "joint-graph", lambda: {**cfg, "dst_chunks_2": dch2, "first_operand_same_as_alone": bool(np.array_equal(j1, b, equal_nan=True)), "second_operand_same_as_alone": bool(np.array_equal(j2, b2, equal_nan=True))},
                      key="joint-graph-differs", cls=cls, sig=hsig("j13", repr(cfg)))
    if e is not None:
        import traceback

        tb = traceback.extract_tb(e.__traceback__)
        where = next((f"{f.name}:{f.lineno}" for f in reversed(tb) if "odc/geo" in f.filename), "?")
        if glob and type(e).__name__ == "GEOSException" and "closed linestring" in str(e):
            from .c12 import _buffer_leaves_projection

            if _buffer_leaves_projection(src):  # K5: planning grows the source outline by 2 px, out of the valid range of the source's own projection
                return mon.fail("chunked", {**cfg, "exc": e, "at": where, "whole_array_path": "succeeded"}, key="footprint-buffer-leaves-projection", cls=cls)
        return mon.fail("chunked", {**cfg, "exc": e, "at": where}, key="chunked-disjoint-raises" if ("far" in kind or "near" in kind) else "chunked-raises", cls=cls)
    if osig:
        _orders.add((sched_, osig))
    mon.check(bool(np.array_equal(handed, data, equal_nan=True)), "input-unchanged", lambda: {**cfg, "why": "the source array holds other values after reprojection"}, key="input-mutated", cls=form)
    sig = hsig("c13", repr(cfg), osig)
    ok_meta = a.shape == b.shape == ((2, ny, nx) if tax else (ny, nx)) and a.dtype == b.dtype == np.dtype(dtype)
    if not ok_meta:
        return mon.fail("chunked==whole", {**cfg, "shapes": [a.shape, b.shape], "dtypes": [str(a.dtype), str(b.dtype)]}, key="shape-dtype", cls=cls)
    # independent classification of destination pixels
    jj, ii = np.meshgrid(np.arange(nx) + 0.5, np.arange(ny) + 0.5)
    S = pairs.dst_to_src_px(src, dst, np.c_[jj.ravel(), ii.ravel()])
    px, py = S[:, 0].reshape(ny, nx), S[:, 1].reshape(ny, nx)
    fin = np.isfinite(px) & np.isfinite(py)
    far_out = fin & ((px < -2) | (px > W + 2) | (py < -2) | (py > H + 2))
    fill = dst_nodata if dst_nodata is not None else nodata if nodata is not None else (np.nan if np.dtype(dtype).kind == "f" else 0)
    isfill = (lambda z: np.isnan(z)) if (isinstance(fill, float) and np.isnan(fill)) else (lambda z: z == fill)
    m = np.broadcast_to(far_out, a.shape)
    ok_fill_a = bool(isfill(a[m]).all())
    ok_fill_b = bool(isfill(b[m]).all())
    mon.check(ok_fill_b and ok_fill_a, "fill-rule", lambda: {**cfg, "fill": repr(fill), "pixels_far_outside": int(far_out.sum()), "not_fill_in_whole": int((~isfill(a[m])).sum()), "not_fill_in_chunked": int((~isfill(b[m])).sum()),
              "chunked_values_there": np.unique(b[m][~isfill(b[m])])[:5]}, key="fill-value", cls=cls + ("|all-outside" if far_out.all() else ""), sig=sig, sample=cfg)
    if dst_nodata is not None:
        mon.obs[f"explicit_dst_nodata={dst_nodata}|src_nodata={'given' if nodata is not None else 'none'}|{'float' if np.dtype(dtype).kind == 'f' else 'int'}"] += 1
    if not cross and resampling == "nearest":
        if exact_grid and kind.split("|")[1] in ("shift", "contained", "partial", "touch", "far", "mirror", "scale", "chunk-aligned", "unit-grid-at-origin"):
            cmp_mask = np.ones((ny, nx), dtype=bool)
            sa_ = gen.aff6(src.affine)
            if abs(sa_[0]) == 1 and abs(sa_[4]) == 1 and sa_[1] == 0 and sa_[3] == 0 and float(sa_[2]).is_integer() and float(sa_[5]).is_integer():
                # a source with unit pixels and whole-number corners may contain a block whose own geotransform is (0, 1, 0, 0, 0, +-1) - the one GDAL takes for "not
                # georeferenced"; the library presents that block to GDAL in an equivalent form (D35), which resolves exact ties (a destination centre exactly on a
                # source pixel edge or on the source's outer edge) the other way round than the plain form does.  Either neighbour is a nearest neighbour: not judged
                fx, fy = np.abs(px - np.round(px)), np.abs(py - np.round(py))
                cmp_mask = fin & (fx > 1e-6) & (fy > 1e-6)
                mon.obs["exact_ties_on_unit_pixel_sources_not_judged"] += int((~cmp_mask).sum())
        else:
            fx, fy = np.abs(px - np.round(px)), np.abs(py - np.round(py))
            cmp_mask = fin & (fx > 0.02) & (fy > 0.02)
        mm = np.broadcast_to(cmp_mask, a.shape)
        same = np.array_equal(a[mm], b[mm], equal_nan=True)
        mon.check(bool(same), "chunked==whole", lambda: {**cfg, "pixels_compared": int(cmp_mask.sum()), "pixels_differ": int(((a != b) & ~(np.isnan(a.astype('float64')) & np.isnan(b.astype('float64'))) & mm).sum()),
                  "first_diff": [int(v) for v in np.argwhere((a != b) & mm)[0]] if ((a != b) & mm).any() else None}, key="values-differ", cls=cls, sig=sig)
        mon.obs["pixels_compared_identical_rule"] += int(cmp_mask.sum())
    mon.obs["pixels_checked_fill_rule"] += int(far_out.sum())
    # pixels whose source location is well inside the source image: a chunk that lost a source block shows up as fill where the whole-array result has data
    deep = fin & (px > 2) & (px < W - 2) & (py > 2) & (py < H - 2)
    if resampling != "nearest":
        # a wider kernel reaches source pixels beyond the footprint of the destination chunk that is being computed (the statement promises nothing there):
        # judge only destination pixels whose kernel stays inside their own chunk's footprint
        with np.errstate(all="ignore"):
            gj = np.hypot(np.gradient(px, axis=1), np.gradient(py, axis=1)) if nx > 1 else np.full((ny, nx), np.inf)
            gi = np.hypot(np.gradient(px, axis=0), np.gradient(py, axis=0)) if ny > 1 else np.full((ny, nx), np.inf)
        smin = np.nanmin(np.where(np.isfinite(gj) & np.isfinite(gi), np.minimum(gj, gi), np.nan)) if (np.isfinite(gj) & np.isfinite(gi)).any() else 0.0
        margin = 3 + int(math.ceil(3.0 / smin)) if smin > 1e-6 else 10**9
        di = np.array([min(i % dch[0], min(dch[0], ny - (i // dch[0]) * dch[0]) - 1 - i % dch[0]) for i in range(ny)])[:, None]
        dj = np.array([min(j % dch[1], min(dch[1], nx - (j // dch[1]) * dch[1]) - 1 - j % dch[1]) for j in range(nx)])[None, :]
        deep = deep & (np.minimum(di, dj) >= margin)
    if nd_kind != "none":
        # near the border of a nodata area the answer depends on sub-pixel details of GDAL's (piecewise approximated) coordinate transform: judge only destination
        # pixels whose source neighbourhood (5 x 5) is all valid or all nodata, in every plane
        Mnd = (data == nodata)
        Mnd = Mnd.reshape((-1, H, W))
        anyv, allv = Mnd.any(axis=0), Mnd.all(axis=0)
        pad_any, pad_all = np.pad(anyv, 2, mode="edge"), np.pad(allv, 2, mode="edge")
        near_any = np.zeros((H, W), bool)
        near_notall = np.zeros((H, W), bool)
        for dy_ in range(5):
            for dx_ in range(5):
                near_any |= pad_any[dy_: dy_ + H, dx_: dx_ + W]
                near_notall |= ~pad_all[dy_: dy_ + H, dx_: dx_ + W]
        pure = ~near_any | ~near_notall  # no nodata anywhere near, or nothing but nodata near (in all planes)
        iy_, ix_ = np.clip(np.floor(np.where(fin, py, 0)).astype(int), 0, H - 1), np.clip(np.floor(np.where(fin, px, 0)).astype(int), 0, W - 1)
        deep = deep & pure[iy_, ix_]
    if deep.any():
        md = np.broadcast_to(deep, a.shape)
        fa, fb = isfill(a[md]), isfill(b[md])
        mon.check(bool(np.array_equal(fa, fb)), "inside-rule", lambda: {**cfg, "pixels_well_inside": int(deep.sum()), "fill_in_chunked_only": int((fb & ~fa).sum()), "fill_in_whole_only": int((fa & ~fb).sum())},
                  key="inside-fill-differs", cls=cls, sig=sig)
        if cross and resampling == "nearest":
            # GDAL approximates the coordinate transform piecewise (error threshold 0.125 px) and may do so differently per chunk: compare only where
            # the source location is at least a quarter pixel away from any pixel boundary
            fx, fy = px - np.floor(px), py - np.floor(py)
            safe = deep & (fx > 0.25) & (fx < 0.75) & (fy > 0.25) & (fy < 0.75)
            ms = np.broadcast_to(safe, a.shape)
            same = np.array_equal(a[ms], b[ms], equal_nan=True)
            mon.check(bool(same), "chunked==whole.cross", lambda: {**cfg, "pixels_compared": int(safe.sum()), "pixels_differ": int(((a != b) & ms & ~(np.isnan(a.astype("float64")) & np.isnan(b.astype("float64")))).sum())},
                      key="values-differ-cross", cls=cls, sig=sig)
            mon.obs["pixels_compared_cross_nearest"] += int(safe.sum())


PINNED_SEEDS = [11, 22, 33]


def four_d(mon: Monitor, rng: random.Random, n: int) -> None:
    """Rasters with an axis on either side of (y, x): (time, y, x, band).  Whole-pixel placements on binary-exact grids, nearest: the chunked result equals the whole-array
    result in every plane, whatever way the extra axes are chunked."""
    import dask.array as da
    from odc.geo.xr import wrap_xr, xr_reproject

    for _ in range(n):
        src, dst, k0, _l = pairs.same_crs_pair(rng, kind=rng.choice(["shift", "partial", "contained", "mirror", "scale"]), binary_exact=True, max_n=24)
        sa_ = gen.aff6(src.affine)
        if k0 == "scale" and abs(sa_[0]) == 1 and abs(sa_[4]) == 1 and float(sa_[2]).is_integer() and float(sa_[5]).is_integer():
            mon.skip("chunked==whole", "exact ties on a unit-pixel source at whole-number corners (see D35): either neighbour is a nearest neighbour")
            continue
        H, W = src.shape
        nt, nb = rng.choice([(2, 2), (2, 3), (3, 2), (1, 2), (2, 1)])
        dtype = rng.choice(["int16", "float32", "uint8"])
        nodata = rng.choice([None, -9 if dtype != "uint8" else 255])
        base = (np.arange(H * W).reshape(H, W) % 97 + 1)
        data = np.stack([np.stack([(base * (1 + t) + 7 * b) % 120 + 1 for b in range(nb)], axis=-1) for t in range(nt)]).astype(dtype)
        t_ = [np.datetime64("2020-01-01") + np.timedelta64(k, "D") for k in range(nt)]
        cy, cx = rng.choice([3, 5, 8, 64]), rng.choice([4, 7, 64])
        ct, cb = rng.choice([1, nt, nt]), rng.choice([1, nb, nb])
        dch = (rng.choice([3, 5, 8]), rng.choice([4, 6, 9]))
        cfg = {"src": gen.gbox_desc(src), "dst": gen.gbox_desc(dst), "kind": "same|" + k0, "dims": "time,y,x,band", "planes": [nt, nb], "dtype": dtype, "nodata": nodata, "src_chunks": [ct, cy, cx, cb], "dst_chunks": list(dch)}
        xx = wrap_xr(data, src, time=t_, nodata=nodata)
        xd = wrap_xr(da.from_array(data, chunks=(ct, cy, cx, cb)), src, time=t_, nodata=nodata)
        a, e = call(lambda: xr_reproject(xx, dst, resampling="nearest").values)
        if e is not None:
            mon.fail("whole", {**cfg, "exc": e}, key="whole-raises", cls="4d")
            continue
        b, e = call(lambda: xr_reproject(xd, dst, resampling="nearest", chunks=dch).compute(scheduler=rng.choice(["sync", "threads"])).values)
        if e is not None:
            mon.fail("chunked", {**cfg, "exc": e}, key="chunked-raises", cls="4d")
            continue
        same = a.shape == b.shape == (nt, *dst.shape, nb) and a.dtype == b.dtype and np.array_equal(a, b, equal_nan=True)
        mon.check(bool(same), "chunked==whole", lambda: {**cfg, "shapes": [a.shape, b.shape], "planes_that_differ": [[t, q] for t in range(nt) for q in range(nb) if a.shape == b.shape and not np.array_equal(a[t, ..., q], b[t, ..., q], equal_nan=True)]},
                  key="values-differ", cls="4d|both-extra-axes-chunked-together" if (ct > 1 and cb > 1) else "4d", sig=hsig("4d", repr(cfg)))


def run(mon: Monitor, tier: str, seed: int, shard: int, nshards: int) -> None:
    _orders.clear()
    rng = random.Random(seed * 1000 + shard + 13)
    todo = [random.Random(k).getrandbits(48) for k in range(40)] if shard == 0 else []  # fixed cases, the same for every seed (with the unit-grid-at-origin class among them)
    for k in range((270 if tier == "quick" else 3500) + len(todo)):
        rs = todo.pop() if todo else rng.getrandbits(48)
        mon.case = {"kind": "pair", "rs": rs}
        try:
            one(mon, random.Random(rs))
        except Exception as e:
            mon.error("pair", e)
    mon.case = {"kind": "4d"}
    try:
        four_d(mon, random.Random(seed * 1000 + shard + 113), 14 if tier == "quick" else 150)
    except Exception as e:
        mon.error("4d", e)
    mon.case = None
    mon.obs["distinct_orders_sync"] = len({o for s, o in _orders if s == "sync"})
    mon.obs["distinct_orders_threads"] = len({o for s, o in _orders if s == "threads"})
    for pt, n in [("fill-rule", 150), ("chunked==whole", 60), ("fill-rule|same|far|all-outside", 5), ("fill-rule|cross|far|all-outside", 2), ("fill-rule|same|partial", 10), ("chunked==whole|same|subpix", 3),
                  ("chunked==whole|same|mirror", 3), ("chunked==whole|same|scale", 3), ("fill-rule|cross|shift", 5), ("inside-rule", 40), ("joint-graph", 25), ("chunked==whole|same|chunk-aligned", 5), ("inside-rule|cross|global-source", 3)] + ([("chunked==whole|same|unit-grid-at-origin", 2)] if shard == 0 else []):
        mon.floor(pt, n)


def replay(mon: Monitor, case) -> None:
    mon.case = case
    if case.get("kind") == "4d":
        return four_d(mon, random.Random(mon.seed * 1000 + 113), 14)
    one(mon, random.Random(case["rs"]))
