"""C02 - GeoBox views agree with the pixel<->world mapping.

Two layers (DESIGN.md 5/C02):
  * consistency of one GeoBox: wld2pix(pix2wld(p)) ~ p on a probe set, extent / boundingbox / coordinates / resolution are
    the images of the pixel rectangle (computed with plain numpy 3x3 matrices, never with Affine composition);
  * contract of each view operation, as post-condition monitors attached to the real methods (so every call made
    anywhere - also from inside other library code and along operation chains - is judged).
GCP boxes: same relations, tolerance = measured fit residual of their control points.
"""
from __future__ import annotations

import math
import random

import numpy as np
from affine import Affine

from .. import gen
from ..attach import attach, detach_all, calls, replay_call
from ..kernel import Monitor, call, hsig

PID = "C02"
RULE = ("seeded GeoBoxes (shapes 1..64 incl. 1xN, Nx1; 7 affine families; translations up to 1e7; pixel sizes 1e-4..1e4; CRS incl. none) and GCP GeoBoxes (4-25 control points, affine "
        "and mildly non-affine), chains of 1-6 view operations with seeded parameters (negative/integer/open/empty indices, pads 0..10, factors 0.1..10, any angle); every operation call "
        "and every resulting GeoBox is judged; distinct = distinct (operation, source geobox, parameters) | distinct GeoBox checked for consistency")
ASSUMPTIONS = ["numpy 3x3 matrix algebra as reference for the affine mapping", "tolerance 1e-9*(|coord|+|pixel|*(nx+ny)) in world units, 1e-6 px + float resolution for inverses",
               "zoom_to(int): pixel positions and coverage judged, the pixel count only logged"]
SHARDS = {"quick": 1, "thorough": 8}
SUITE_UNDER_MONITOR = True

_mon: Monitor = None  # type: ignore
PROBE = np.array([[0, 0], [1, 0], [0, 1], [3.5, 2.25], [-2, 7], [10.5, 0.5]], dtype="float64")


def _err(label, e):
    _mon.error(label, e)


def M3(A) -> np.ndarray:
    a, b, c, d, e, f = tuple(A)[:6]
    return np.array([[a, b, c], [d, e, f], [0, 0, 1.0]])


def at(g, pts) -> np.ndarray:
    """pixel -> world through plain numpy (linear boxes) or the box's own mapping (GCP boxes)."""
    pts = np.asarray(pts, dtype="float64")
    if getattr(g, "linear", True):
        P = np.c_[pts, np.ones(len(pts))].T
        return (M3(g.affine) @ P)[:2].T
    x, y = g.pix2wld(pts[:, 0].copy(), pts[:, 1].copy())
    return np.stack([np.asarray(x, dtype="float64"), np.asarray(y, dtype="float64")], axis=1)


def wtol(g, ref: np.ndarray) -> float:
    if getattr(g, "linear", True):
        px = float(np.abs(M3(g.affine)[:2, :2]).sum())
    else:
        px = float(abs(g.resolution.x) + abs(g.resolution.y))
    return 1e-9 * (float(np.abs(ref).max(initial=0)) + px * (sum(g.shape) + 30)) + 1e-300


def close(a, b, g) -> bool:
    a, b = np.asarray(a, dtype="float64"), np.asarray(b, dtype="float64")
    return a.shape == b.shape and bool(np.all(np.isfinite(a))) and float(np.abs(a - b).max(initial=0)) <= wtol(g, b)


def aff_of(g):
    """6 affine coefficients (GCP boxes keep theirs in the pixel plane and have no public accessor)."""
    A = g.affine if hasattr(g, "affine") else g._affine
    return tuple(A)[:6]


def fam_of(g) -> str:
    if not getattr(g, "linear", True):
        return "gcp"
    a, b, c, d, e, f = tuple(g.affine)[:6]
    if abs(b) > 1e-12 * abs(a) or abs(d) > 1e-12 * abs(e):
        return "rotated/sheared"
    return ("mirror-x" if a < 0 else "") + ("mirror-y" if e > 0 else "") or ("non-square" if abs(abs(a) - abs(e)) > 1e-12 * abs(a) else "north-up")


def desc(g):
    if not getattr(g, "linear", True):
        m = g._mapping
        return {"gcp": True, "shape": list(g.shape), "pixel_affine": list(aff_of(g)), "crs": str(g.crs)[:30], "n_gcps": len(m._pix), "pix": m._pix[:4], "wld": m._wld[:4]}
    return gen.gbox_desc(g)


# --------------------------------------------------------------------------- consistency of one GeoBox
_seen_consistency = set()


def gcp_residual(g):
    """(world residual, pixel residual, non-affinity in px) of the control points.

    Residuals are those of the two fitted mappings at the control points; with 9 points the bi-quadratic fit
    interpolates (zero residual) while forward and inverse fits still disagree *between* the points, by an amount
    governed by how far the control points are from an affine relation - that distance is the third number."""
    m = g._mapping
    pix, wld = m._pix.astype("float64"), m._wld.astype("float64")
    pw = m.p2w(pix)
    wp = m.w2p(wld)
    G = np.c_[pix, np.ones(len(pix))]
    coef, *_ = np.linalg.lstsq(G, wld, rcond=None)
    lin = coef[:2].T
    px = math.sqrt(abs(np.linalg.det(lin))) or 1.0
    nonaff = float(np.abs(G @ coef - wld).max()) / px
    return float(np.abs(pw - wld).max()), float(np.abs(wp - pix).max()), nonaff


def consistency(g, label: str = "consistency") -> None:
    mon = _mon
    ny, nx = g.shape
    if ny == 0 or nx == 0:
        return mon.skip(label, "empty GeoBox")
    linear = getattr(g, "linear", True)
    key = (tuple(g.shape), aff_of(g), str(g.crs), id(getattr(g, "_mapping", None)))
    if key in _seen_consistency:
        return
    if len(_seen_consistency) < 200000:
        _seen_consistency.add(key)
    fam = fam_of(g)
    wit = lambda extra=None: {"geobox": desc(g), **(extra or {})}
    sig = hsig("cons", key[:3])
    rng = random.Random(hash(key[:2]) & 0xFFFFFFFF)
    corners = np.array([[0, 0], [0, ny], [nx, ny], [nx, 0]], dtype="float64")
    probes = np.vstack([corners, [[nx / 2, ny / 2]], [[rng.uniform(-0.5 * nx, 1.5 * nx), rng.uniform(-0.5 * ny, 1.5 * ny)] for _ in range(8)],
                        [[rng.uniform(0, nx), rng.uniform(0, ny)] for _ in range(8)]])
    if not linear:
        probes = np.vstack([corners, [[nx / 2, ny / 2]], [[rng.uniform(0, nx), rng.uniform(0, ny)] for _ in range(12)]])
    # (1) pix2wld agrees with the matrix; inverse round trip
    W = at(g, probes)
    try:
        wx, wy = g.pix2wld(probes[:, 0].copy(), probes[:, 1].copy()) if not linear else zip(*[g.pix2wld(float(x), float(y)) for x, y in probes])
        W_lib = np.stack([np.asarray(wx, dtype="float64"), np.asarray(wy, dtype="float64")], axis=1)
        if linear:
            back = np.array([g.wld2pix(float(x), float(y)) for x, y in W_lib], dtype="float64")
        else:
            bx, by = g.wld2pix(W_lib[:, 0].copy(), W_lib[:, 1].copy())
            back = np.stack([np.asarray(bx, dtype="float64"), np.asarray(by, dtype="float64")], axis=1)
    except Exception as e:
        return mon.fail(label + ".inverse", wit({"exc": e}), key="pix2wld-raises", cls=fam)
    if linear:
        A = M3(g.affine)
        px = math.sqrt(abs(np.linalg.det(A[:2, :2])))
        cond = np.linalg.cond(A[:2, :2])
        tol_px = (1e-6 + 64 * math.ulp(max(1.0, float(np.abs(W).max()))) / px) * max(1.0, cond)
        ok = close(W_lib, W, g) and float(np.abs(back - probes).max()) <= tol_px
    else:
        rw, rp, nonaff = gcp_residual(g)
        res = max(abs(g.resolution.x), abs(g.resolution.y))
        # judged in the pixel space of the control points (the box's own pixels may be zoomed)
        A3 = M3(Affine(*aff_of(g)))
        Ap = A3[:2, :2]
        # only probes inside the hull of the control points: outside it the two fitted polynomials extrapolate independently
        pm = (A3 @ np.c_[probes, np.ones(len(probes))].T)[:2].T
        cp = g._mapping._pix
        inside = (pm[:, 0] >= cp[:, 0].min()) & (pm[:, 0] <= cp[:, 0].max()) & (pm[:, 1] >= cp[:, 1].min()) & (pm[:, 1] <= cp[:, 1].max())
        if not inside.any():
            mon.skip(label + ".inverse", "GCP box lies outside the hull of its control points")
            inside = None
        err_map_px = float(np.abs((Ap @ (back - probes).T))[:, inside].max()) if inside is not None else 0.0
        # forward and inverse mappings are two independently fitted polynomials: between the control points they disagree by about the distance of the control points from
        # an affine relation (thorough seed 6: 1.03 x nonaff with 9 jittered points); 4 x leaves errors of a pixel or more (wrong axis, ignored view) far outside
        tol_px = 1e-6 * max(nx, ny, 64) + 20 * (rp + rw / res) + 4.0 * nonaff
        ok = bool(np.isfinite(W_lib).all()) and err_map_px <= tol_px
        mon.obs["gcp_exactly_affine" if nonaff < 1e-6 else "gcp_non_affine"] += 1
    mon.check(ok, label + ".inverse", lambda: wit({"max_roundtrip_px": float(np.abs(back - probes).max()), "tol_px": tol_px}), key="pix2wld-wld2pix-not-inverse", cls=fam, sig=sig, sample=wit())
    # (2) extent and bounding box are images of the pixel rectangle
    try:
        ext = g.extent
        bb = g.boundingbox
    except Exception as e:
        return mon.fail(label + ".extent", wit({"exc": e}), key="extent-raises", cls=fam)
    C = at(g, corners)
    ec = np.asarray(ext.geom.exterior.coords, dtype="float64")
    if linear:
        ok_ext = ec.shape == (5, 2) and close(ec[:4], C, g) and close(ec[4:], C[:1], g) and ext.crs == g.crs
        want_bb = [C[:, 0].min(), C[:, 1].min(), C[:, 0].max(), C[:, 1].max()]
        ok_bb = close(np.array(bb.bbox), np.array(want_bb), g) and bb.crs == g.crs
    else:
        # every corner image is a vertex of the footprint; bounding box = bounds of the footprint
        tol = wtol(g, C) + 1e-9 * max(1e-300, float(np.abs(C).max()))
        ok_ext = all(float(np.abs(ec - c).sum(axis=1).min()) <= 10 * tol for c in C) and ext.crs == g.crs
        want_bb = [ec[:, 0].min(), ec[:, 1].min(), ec[:, 0].max(), ec[:, 1].max()]
        ok_bb = bool(np.allclose(np.array(bb.bbox), want_bb, rtol=0, atol=10 * tol)) and bb.crs == g.crs
    mon.check(ok_ext, label + ".extent", lambda: wit({"extent": ec[:6], "corner_images": C}), key="extent-not-image-of-rect", cls=fam, sig=sig)
    mon.check(ok_bb, label + ".boundingbox", lambda: wit({"boundingbox": list(bb.bbox), "want": want_bb}), key=("gcp-" if not linear else "") + "bbox-not-image-of-rect", cls=fam, sig=sig)
    # (3) resolution
    if linear:
        a, b, c, d, e, f = tuple(g.affine)[:6]
        det = a * e - b * d
        r, ex = call(lambda: g.resolution)
        if ex is not None:
            mon.fail(label + ".resolution", wit({"exc": ex}), key="resolution-raises", cls=fam)
        else:
            n = math.hypot(a, d)
            mon.check(abs(abs(r.x) - n) <= 1e-9 * n and abs(r.x * r.y - det) <= 1e-9 * abs(det), label + ".resolution", lambda: wit({"resolution": [r.x, r.y]}), key="resolution", cls=fam, sig=sig)
    else:
        # control-point boxes: the reported pixel size is that of the box's own pixels (view affine included), i.e. what one pixel step maps to around the centre
        r, ex = call(lambda: g.resolution)
        if ex is not None:
            mon.fail(label + ".resolution", wit({"exc": ex}), key="resolution-raises", cls=fam)
        else:
            cxp, cyp = g.shape[1] / 2, g.shape[0] / 2
            va_ = aff_of(g)
            ccx, ccy = va_[0] * cxp + va_[1] * cyp + va_[2], va_[3] * cxp + va_[4] * cyp + va_[5]
            cp_ = g._mapping._pix
            if not (cp_[:, 0].min() <= ccx <= cp_[:, 0].max() and cp_[:, 1].min() <= ccy <= cp_[:, 1].max()):
                # a view far outside the hull of the control points (zoomed out 100 x): the local pixel size there is an extrapolation of the fitted polynomial
                mon.skip(label + ".resolution", "GCP box centred outside the hull of its control points")
                return
            pw, ex2 = call(lambda: g.pix2wld(np.array([cxp - 0.5, cxp + 0.5, cxp, cxp]), np.array([cyp, cyp, cyp - 0.5, cyp + 0.5])))
            if ex2 is None:
                wx, wy = np.asarray(pw[0], dtype="float64"), np.asarray(pw[1], dtype="float64")
                sx, sy = math.hypot(wx[1] - wx[0], wy[1] - wy[0]), math.hypot(wx[3] - wx[2], wy[3] - wy[2])
                # the reported size is that of the best-fitting affine, the measured one is local: control points that are not affinely related (residual `nonaff`, in
                # control-point pixels) move a step of L control-point pixels by up to 2 * nonaff, i.e. by the fraction 2 * nonaff / L
                _rw, _rp, nonaff = gcp_residual(g)
                va = aff_of(g)
                Lx, Ly = max(math.hypot(va[0], va[3]), 1e-300), max(math.hypot(va[1], va[4]), 1e-300)
                bx_, by_ = 1.33 + 2 * nonaff / Lx, 1.33 + 2 * nonaff / Ly
                okr = sx > 0 and sy > 0 and 1 / bx_ <= abs(r.x) / sx <= bx_ and 1 / by_ <= abs(r.y) / sy <= by_
                mon.check(okr, label + ".resolution", lambda: wit({"resolution": [r.x, r.y], "one_pixel_step_maps_to": [sx, sy]}), key="gcp-resolution", cls=fam, sig=sig)
    if linear and nx + ny > 300_000:
        mon.skip(label + ".coordinates", "millions of labels: not materialised here")
    elif linear:
        # (4) coordinate labels
        cc, ex = call(lambda: g.coordinates)
        off = max(abs(b), abs(d))
        if 1e-11 <= off <= 1e-9:
            # the library calls a box axis aligned when |b|,|d| < 1e-10 (absolute); residues of that size on tiny pixels are neither
            mon.skip(label + ".coordinates", "rotation residue at the axis-aligned tolerance")
        elif off > 1e-9:
            mon.check(isinstance(ex, ValueError), label + ".coordinates", lambda: wit({"exc": ex}), key="coordinates-on-rotated", cls=fam, sig=sig)
        elif ex is not None:
            mon.fail(label + ".coordinates", wit({"exc": ex}), key="coordinates-raises", cls=fam)
        else:
            (ky, cy), (kx, cx) = list(cc.items())
            X = at(g, np.c_[np.arange(nx) + 0.5, np.zeros(nx)])[:, 0]
            Y = at(g, np.c_[np.zeros(ny), np.arange(ny) + 0.5])[:, 1]
            ok = (ky, kx) == tuple(g.dimensions) and np.allclose(cx.values, X, rtol=0, atol=wtol(g, X)) and np.allclose(cy.values, Y, rtol=0, atol=wtol(g, Y))
            ok = ok and cx.resolution == a and cy.resolution == e
            mon.check(bool(ok), label + ".coordinates", lambda: wit({"x": cx.values[:3], "y": cy.values[:3], "dims": [ky, kx]}), key="coordinates", cls=fam, sig=sig)
            # what the caller does with the label arrays is the caller's business (shift centres to edges in place, ...): neither this box asked again, nor an equal box
            # built from scratch, nor a neighbour sharing an axis may show the scribble
            if ok and len(_seen_consistency) % 3 == 0:
                try:
                    if cx.values.flags.writeable:
                        cx.values[...] = cx.values - abs(a) / 2 + 12345.0
                    if cy.values.flags.writeable:
                        cy.values[...] = cy.values * 0 - 777.0
                except Exception:  # noqa: BLE001 - read-only labels are a fine answer too
                    pass
                from odc.geo.geobox import GeoBox as _GB

                again = [g, _GB(g.shape, g.affine, g.crs), g.bottom if hasattr(g, "bottom") else g, g.right if hasattr(g, "right") else g]
                bad = None
                for k_, h in enumerate(again):
                    c2, ex2 = call(lambda: h.coordinates)
                    if ex2 is not None:
                        continue
                    hx = at(h, np.c_[np.arange(h.shape[1]) + 0.5, np.zeros(h.shape[1])])[:, 0]
                    hy = at(h, np.c_[np.zeros(h.shape[0]), np.arange(h.shape[0]) + 0.5])[:, 1]
                    (_, c2y), (_, c2x) = list(c2.items())
                    if not (np.allclose(c2x.values, hx, rtol=0, atol=wtol(h, hx)) and np.allclose(c2y.values, hy, rtol=0, atol=wtol(h, hy))):
                        bad = bad or {"which": ["same box asked again", "equal box built from scratch", "bottom neighbour", "right neighbour"][k_], "x": c2x.values[:3], "y": c2y.values[:3], "expected_x": hx[:3], "expected_y": hy[:3]}
                mon.check(bad is None, label + ".coordinates-after-scribble", lambda: wit(bad), key="coordinates-alias-caller-edits", cls=fam, sig=sig)


# --------------------------------------------------------------------------- operation contracts
def judge(point, src, res, exc, want_shape, src_pts, params, *, same_crs=True, cls=None):
    """res(p) must equal src(src_pts[p]) for p in PROBE; want_shape None => not judged."""
    fam = fam_of(src)
    wit = lambda extra=None: {"op": point, "source": desc(src), "params": params, "result": desc(res) if res is not None else None, **(extra or {})}
    if exc is not None:
        return _mon.fail(point, wit({"exc": exc}), key=f"{point}-raises", cls=fam)
    ok_shape = want_shape is None or tuple(res.shape) == tuple(want_shape)
    ok_crs = res.crs == src.crs and (res.crs is None) == (src.crs is None)
    ok_type = type(res) is type(src)
    if 0 in res.shape:
        ok_pos = True
    else:
        got = at(res, PROBE)
        want = at(src, src_pts)
        ok_pos = close(got, want, src)
    _mon.check(ok_shape and ok_crs and ok_pos and ok_type, point, lambda: wit({"shape_ok": ok_shape, "crs_ok": ok_crs, "position_ok": ok_pos, "want_shape": want_shape}),
               key=f"{point}-contract", cls=cls or fam, sig=hsig(point, tuple(src.shape), aff_of(src), id(getattr(src, '_mapping', None)), repr(params)), sample=wit())
    if res is not None and ok_shape and ok_crs and ok_pos:
        consistency(res, "result")


def covers(point, src, res, params) -> None:
    """Operations documented as covering the original do cover it (linear boxes)."""
    if not getattr(src, "linear", True) or 0 in res.shape or 0 in src.shape:
        return
    ny, nx = src.shape
    C = at(src, np.array([[0, 0], [nx, 0], [0, ny], [nx, ny]], dtype="float64"))
    P = np.linalg.solve(M3(res.affine), np.c_[C, np.ones(4)].T)[:2].T
    rny, rnx = res.shape
    px = math.sqrt(abs(np.linalg.det(M3(res.affine)[:2, :2])))
    tol = 1e-6 * max(1.0, float(np.abs(P).max())) + 64 * math.ulp(max(1.0, float(np.abs(C).max()))) / px
    ok = P[:, 0].min() >= -tol and P[:, 1].min() >= -tol and P[:, 0].max() <= rnx + tol and P[:, 1].max() <= rny + tol
    _mon.check(bool(ok), point + ".covers", lambda: {"op": point, "source": desc(src), "params": params, "result": desc(res), "source_corners_in_result_px": P}, key=f"{point}-does-not-cover", cls=fam_of(src))


def _np_index(n: int, s):
    """(start, count) numpy selects from range(n) for slice/int s, None if IndexError."""
    if isinstance(s, (int, np.integer)):
        if not -n <= s < n:
            return None
        return (int(s) % n, 1)
    sel = np.arange(n)[s]
    return (int(sel[0]) if len(sel) else 0, len(sel))


def post_getitem(args, kw, res, exc, snap):
    g, roi = args
    if not isinstance(roi, tuple):
        roi = (roi, slice(None))
    if len(roi) != 2 or not all(isinstance(s, (slice, int, np.integer)) for s in roi):
        return _mon.skip("GeoBox.__getitem__", "region given as geometry / GeoBox / bounding box")
    if any(isinstance(s, slice) and s.step not in (None, 1) for s in roi):
        return _mon.check(isinstance(exc, NotImplementedError), "GeoBox.__getitem__", {"roi": repr(roi), "exc": exc}, key="getitem-stepped", cls="stepped")
    ny, nx = g.shape
    if any(isinstance(sl, slice) and any(v is not None and not (-n <= v <= n) for v in (sl.start, sl.stop)) for sl, n in zip(roi, (ny, nx))):
        # slices reaching beyond the image: the repository's own tests use gbox[0:ny+1, 0:nx+2] to *expand*; the statement does not say
        return _mon.skip("GeoBox.__getitem__", "slice bounds beyond the image")
    iy, ix = _np_index(ny, roi[0]), _np_index(nx, roi[1])
    if iy is None or ix is None:
        return _mon.skip("GeoBox.__getitem__", "index out of range")
    (y0, h), (x0, w) = iy, ix
    kinds = {"int" if isinstance(s, (int, np.integer)) else "neg" if any(v is not None and v < 0 for v in (s.start, s.stop)) else "open" if (s.start is None or s.stop is None) else "plain" for s in roi}
    kind = next(k for k in ("neg", "int", "open", "plain") if k in kinds)
    if any(isinstance(s, (int, np.integer)) and s < 0 for s in roi):
        kind = "negint"
    if h == 0 or w == 0:
        kind = "empty"
    judge("GeoBox.__getitem__", g, res, exc, (h, w), PROBE + [x0, y0], repr(roi), cls=f"{fam_of(g)}|{kind}")


def post_pad(args, kw, res, exc, snap):
    g, padx = args[0], args[1]
    pady = args[2] if len(args) > 2 else kw.get("pady")
    pady = padx if pady is None else pady
    ny, nx = g.shape
    judge("GeoBox.pad", g, res, exc, (ny + 2 * pady, nx + 2 * padx), PROBE - [padx, pady], [padx, pady])
    if exc is None and padx >= 0 and pady >= 0:
        covers("GeoBox.pad", g, res, [padx, pady])


def post_pad_wh(args, kw, res, exc, snap):
    g = args[0]
    ax = args[1] if len(args) > 1 else kw.get("alignx", 16)
    ay = args[2] if len(args) > 2 else kw.get("aligny")
    ay = ax if ay is None else ay
    ny, nx = g.shape
    judge("GeoBox.pad_wh", g, res, exc, (-(-ny // ay) * ay, -(-nx // ax) * ax), PROBE, [ax, ay])
    if exc is None:
        covers("GeoBox.pad_wh", g, res, [ax, ay])


def post_crop(args, kw, res, exc, snap):
    from odc.geo import shape_

    g, shape = args[0], (args[1] if len(args) > 1 else kw.get("shape"))
    judge("GeoBox.crop", g, res, exc, tuple(shape_(shape)), PROBE, repr(shape))


def post_translate_pix(args, kw, res, exc, snap):
    g, tx, ty = args
    judge("GeoBox.translate_pix", g, res, exc, tuple(g.shape), PROBE + [tx, ty], [tx, ty])


def post_flipx(args, kw, res, exc, snap):
    g = args[0]
    nx = g.shape[1]
    judge("GeoBox.flipx", g, res, exc, tuple(g.shape), np.c_[nx - PROBE[:, 0], PROBE[:, 1]], None)
    if exc is None:
        covers("GeoBox.flipx", g, res, None)


def post_flipy(args, kw, res, exc, snap):
    g = args[0]
    ny = g.shape[0]
    judge("GeoBox.flipy", g, res, exc, tuple(g.shape), np.c_[PROBE[:, 0], ny - PROBE[:, 1]], None)
    if exc is None:
        covers("GeoBox.flipy", g, res, None)


def post_rotate(args, kw, res, exc, snap):
    g, deg = args
    fam = fam_of(g)
    wit = lambda extra=None: {"op": "GeoBox.rotate", "source": desc(g), "params": deg, "result": desc(res) if res is not None else None, **(extra or {})}
    if exc is not None:
        return _mon.fail("GeoBox.rotate", wit({"exc": exc}), key="GeoBox.rotate-raises", cls=fam)
    ny, nx = g.shape
    c = at(g, np.array([[nx / 2, ny / 2]]))[0]
    th = math.radians(deg)
    R = np.array([[math.cos(th), -math.sin(th)], [math.sin(th), math.cos(th)]])
    want = (R @ (at(g, PROBE) - c).T).T + c
    got = at(res, PROBE)
    centre_fixed = close(at(res, np.array([[nx / 2, ny / 2]])), c[None, :], g)
    ok = tuple(res.shape) == tuple(g.shape) and res.crs == g.crs and close(got, want, g) and centre_fixed
    _mon.check(ok, "GeoBox.rotate", lambda: wit({"centre_fixed": centre_fixed}), key="GeoBox.rotate-contract", cls=fam, sig=hsig("rot", gen.aff6(g.affine), tuple(g.shape), deg), sample=wit())
    if ok:
        consistency(res, "result")


def post_zoom_out(args, kw, res, exc, snap):
    g, f = args[0], (args[1] if len(args) > 1 else kw.get("factor"))
    if not (isinstance(f, (int, float)) and f > 0 and math.isfinite(f)):
        return _mon.skip("GeoBox.zoom_out", "non-positive factor")
    ny, nx = g.shape
    judge("GeoBox.zoom_out", g, res, exc, (max(1, math.ceil(ny / f)), max(1, math.ceil(nx / f))), PROBE * f, f)
    if exc is None:
        covers("GeoBox.zoom_out", g, res, f)


def post_zoom_to(args, kw, res, exc, snap):
    from odc.geo import shape_

    g = args[0]
    shape = args[1] if len(args) > 1 else kw.get("shape")
    if shape is None:
        return _mon.skip("GeoBox.zoom_to", "resolution request (C08)")
    ny, nx = g.shape
    if isinstance(shape, (int, float)):
        if shape <= 0:
            return _mon.skip("GeoBox.zoom_to", "non-positive")
        f = max(nx, ny) / shape
        judge("GeoBox.zoom_to", g, res, exc, None, PROBE * f, shape, cls=fam_of(g) + "|int")
        if exc is None:
            covers("GeoBox.zoom_to", g, res, shape)
            _mon.obs["zoom_to_int_longest_side_" + ("exact" if max(res.shape) == int(shape) else "off_by_rounding")] += 1
        return
    sh = tuple(shape_(shape))
    if 0 in sh:
        return _mon.skip("GeoBox.zoom_to", "empty shape")
    sy, sx = ny / sh[0], nx / sh[1]
    judge("GeoBox.zoom_to", g, res, exc, sh, PROBE * [sx, sy], repr(shape), cls=fam_of(g) + "|shape")
    if exc is None and getattr(g, "linear", True):
        far = close(at(res, np.array([[sh[1], sh[0]]], dtype="float64")), at(g, np.array([[nx, ny]], dtype="float64")), g)
        _mon.check(far, "GeoBox.zoom_to.far-corner", {"source": desc(g), "shape": sh, "result": desc(res)}, key="GeoBox.zoom_to-contract")


def post_scaled_down(args, kw, res, exc, snap):
    g, s = args[0], (args[1] if len(args) > 1 else kw.get("scaler"))
    if not (isinstance(s, (int, np.integer)) and s > 1):
        return _mon.skip("scaled_down_geobox", "precondition")
    ny, nx = g.shape
    judge("scaled_down_geobox", g, res, exc, (-(-ny // s), -(-nx // s)), PROBE * s, s)
    if exc is None:
        covers("scaled_down_geobox", g, res, s)


def post_buffered(args, kw, res, exc, snap):
    g, xb = args[0], args[1]
    yb = args[2] if len(args) > 2 else kw.get("ybuff")
    yb = xb if yb is None else yb
    fam = fam_of(g)
    wit = lambda extra=None: {"op": "GeoBox.buffered", "source": desc(g), "params": [xb, yb], "result": desc(res) if res is not None else None, **(extra or {})}
    if xb < 0 or yb < 0:
        return _mon.skip("GeoBox.buffered", "negative buffer")
    if exc is not None:
        return _mon.fail("GeoBox.buffered", wit({"exc": exc}), key="GeoBox.buffered-raises", cls=fam)
    ny, nx = g.shape
    rx, ry = abs(g.resolution.x), abs(g.resolution.y)
    dx, dy = res.shape[1] - nx, res.shape[0] - ny
    bx, by = dx // 2, dy // 2
    ok = dx % 2 == 0 and dy % 2 == 0 and res.crs == g.crs and close(at(res, PROBE), at(g, PROBE - [bx, by]), g)
    eps = 1e-9
    grown = bx * rx >= xb - 0.1 * rx - eps * rx and by * ry >= yb - 0.1 * ry - eps * ry
    minimal = (bx == 0 or (bx - 1) * rx < xb - 0.1 * rx + eps * rx) and (by == 0 or (by - 1) * ry < yb - 0.1 * ry + eps * ry)
    _mon.check(bool(ok and grown and minimal), "GeoBox.buffered", lambda: wit({"pixels_added": [bx, by], "grown_enough": bool(grown), "minimal": bool(minimal)}), key="GeoBox.buffered-contract", cls=fam,
               sig=hsig("buf", gen.aff6(g.affine), tuple(g.shape), xb, yb), sample=wit())
    if ok:
        covers("GeoBox.buffered", g, res, [xb, yb])


def _post_neighbour(name, d):
    def post(args, kw, res, exc, snap):
        g = args[0]
        ny, nx = g.shape
        off = {"left": [-nx, 0], "right": [nx, 0], "top": [0, -ny], "bottom": [0, ny]}[name]
        judge(f"GeoBox.{name}", g, res, exc, tuple(g.shape), PROBE + off, None)
    return post


def post_center_pixel(args, kw, res, exc, snap):
    g = args[0]
    ny, nx = g.shape
    if nx == 0 or ny == 0:
        return _mon.skip("center_pixel", "empty")
    judge(f"{type(g).__name__}.center_pixel", g, res, exc, (1, 1), PROBE + [nx // 2, ny // 2], None)


def post_mul(args, kw, res, exc, snap):
    g, T = args
    if not isinstance(T, Affine):
        return _mon.skip("GeoBox.__mul__", "not an Affine")
    Tm = M3(T)
    pp = (Tm @ np.c_[PROBE, np.ones(len(PROBE))].T)[:2].T
    judge("GeoBox.__mul__", g, res, exc, tuple(g.shape), pp, gen.aff6(T))


def post_rmul(args, kw, res, exc, snap):
    g, T = args
    if not isinstance(T, Affine):
        return _mon.skip("GeoBox.__rmul__", "not an Affine")
    fam = fam_of(g)
    wit = lambda extra=None: {"op": "GeoBox.__rmul__", "source": desc(g), "params": gen.aff6(T), "result": desc(res) if res is not None else None, **(extra or {})}
    if exc is not None:
        return _mon.fail("GeoBox.__rmul__", wit({"exc": exc}), key="GeoBox.__rmul__-raises", cls=fam)
    want = (M3(T) @ np.c_[at(g, PROBE), np.ones(len(PROBE))].T)[:2].T
    ok = tuple(res.shape) == tuple(g.shape) and res.crs == g.crs and np.abs(at(res, PROBE) - want).max() <= wtol(g, want) * max(1.0, float(np.abs(M3(T)[:2, :2]).sum()))
    _mon.check(bool(ok), "GeoBox.__rmul__", wit, key="GeoBox.__rmul__-contract", cls=fam, sig=hsig("rmul", gen.aff6(g.affine), gen.aff6(T)))


def install(mon: Monitor) -> None:
    global _mon
    _mon = mon
    from odc.geo import geobox as GB
    from odc.geo.gcp import GCPGeoBox

    G = GB.GeoBox
    for name, post in [("__getitem__", post_getitem), ("pad", post_pad), ("pad_wh", post_pad_wh), ("crop", post_crop), ("translate_pix", post_translate_pix),
                       ("flipx", post_flipx), ("flipy", post_flipy), ("rotate", post_rotate), ("zoom_out", post_zoom_out), ("zoom_to", post_zoom_to), ("buffered", post_buffered),
                       ("left", _post_neighbour("left", 0)), ("right", _post_neighbour("right", 0)), ("top", _post_neighbour("top", 0)), ("bottom", _post_neighbour("bottom", 0)),
                       ("center_pixel", post_center_pixel), ("__mul__", post_mul), ("__rmul__", post_rmul)]:
        attach(G, name, post=post, on_error=_err, label=f"GeoBox.{name}")
    attach(GB, "scaled_down_geobox", post=post_scaled_down, on_error=_err, label="scaled_down_geobox")
    for name, post in [("__getitem__", post_getitem), ("pad", post_pad), ("pad_wh", post_pad_wh), ("zoom_out", post_zoom_out), ("zoom_to", post_zoom_to), ("center_pixel", post_center_pixel)]:
        attach(GCPGeoBox, name, post=post, on_error=_err, label=f"GCPGeoBox.{name}")


# --------------------------------------------------------------------------- workload
def rand_index(rng: random.Random, n: int):
    k = rng.choice(["plain", "plain", "neg", "int", "open", "full", "empty", "negint"])
    if k == "int":
        return rng.randint(0, n - 1)
    if k == "negint":
        return rng.randint(-n, -1)
    if k == "full":
        return slice(None)
    a = rng.randint(0, n - 1)
    b = rng.randint(a + 1, n)
    if k == "neg":
        return slice(a - n if rng.random() < 0.5 else a, (b - n) if b < n else None)
    if k == "open":
        return slice(None, b) if rng.random() < 0.5 else slice(a, None)
    if k == "empty":
        return slice(a, a)
    return slice(a, b)


def apply_random_op(rng: random.Random, g):
    """Apply one seeded view operation to g; returns the result (or g if it failed / became unusable)."""
    from odc.geo.geobox import scaled_down_geobox

    ny, nx = g.shape
    linear = getattr(g, "linear", True)
    ops = ["getitem", "getitem", "pad", "pad_wh", "zoom_out", "zoom_to", "center"]
    if linear:
        ops += ["crop", "tp", "flipx", "flipy", "rotate", "sdown", "buffered", "left", "right", "top", "bottom", "mul", "rmul", "zoom_to_int"]
    op = rng.choice(ops)
    try:
        if op == "getitem":
            k = rng.random()
            if k < 0.75:
                r = g[rand_index(rng, ny), rand_index(rng, nx)]
            elif k < 0.9:
                r = g[rand_index(rng, ny)]
            else:
                try:
                    g[0:ny:2, :]
                except NotImplementedError:
                    pass
                r = g
        elif op == "pad":
            r = g.pad(rng.randint(0, 10), rng.choice([None, rng.randint(0, 10)]))
        elif op == "pad_wh":
            r = g.pad_wh(rng.choice([16, 4, 7, 1]), rng.choice([None, 8, 3]))
        elif op == "crop":
            r = g.crop((rng.randint(1, 70), rng.randint(1, 70))) if rng.random() < 0.7 else g.expand((ny + rng.randint(0, 9), nx + rng.randint(0, 9)))
        elif op == "tp":
            r = g.translate_pix(rng.choice([rng.uniform(-9, 9), rng.randint(-9, 9)]), rng.randint(-5, 5))
        elif op == "flipx":
            r = g.flipx()
        elif op == "flipy":
            r = g.flipy()
        elif op == "rotate":
            r = g.rotate(rng.choice([rng.uniform(-360, 360), 90, 180, -90, 45, 0.001]))
        elif op == "zoom_out":
            r = g.zoom_out(rng.choice([0.5, 2, 3, 1.7, 0.3, 10, 0.1 if max(nx, ny) < 20 else 2, 1]))
        elif op == "zoom_to":
            r = g.zoom_to((rng.randint(1, 64), rng.randint(1, 64)))
        elif op == "zoom_to_int":
            r = g.zoom_to(rng.randint(1, 100))
        elif op == "sdown":
            r = scaled_down_geobox(g, rng.randint(2, 5))
        elif op == "buffered":
            rx, ry = abs(g.resolution.x), abs(g.resolution.y)
            r = g.buffered(rng.choice([0, rng.uniform(0, 12), rng.randint(0, 5), rng.randint(1, 5) + 0.1, rng.randint(1, 5) + 0.11, rng.randint(1, 5) + 0.09]) * rx,
                           rng.choice([None, rng.uniform(0, 12) * ry]))
        elif op in ("left", "right", "top", "bottom"):
            r = getattr(g, op)
        elif op == "center":
            r = g.center_pixel
        elif op == "mul":
            r = g * (Affine.translation(rng.uniform(-5, 5), rng.randint(-5, 5)) * Affine.scale(rng.choice([1, 2, 0.5, -1]), rng.choice([1, 3, -1])))
        else:
            r = (Affine.translation(rng.uniform(-50, 50), rng.uniform(-50, 50)) * Affine.rotation(rng.choice([0, 10, 90]))) * g
    except Exception:
        return g  # the post-condition has already judged the exception
    if r is None or 0 in r.shape or max(r.shape) > 300:
        return g
    if getattr(r, "linear", True):
        A = M3(r.affine)[:2, :2]
        px = abs(np.linalg.det(A))
        if not (1e-14 < px < 1e14) or np.abs(M3(r.affine)).max() > 1e9:
            return g
    return r


def make_gcp_box(rng: random.Random):
    from odc.geo import wh_, xy_
    from odc.geo.gcp import GCPGeoBox, GCPMapping

    nx, ny = rng.randint(8, 64), rng.randint(8, 64)
    n = rng.choice([4, 4, 5, 6, 9, 16, 25])
    g = max(2, int(round(math.sqrt(n))))
    jitter = rng.random() < 0.5
    xs = np.linspace(0, nx, g)
    ys = np.linspace(0, ny, g)
    pix = np.array([[x, y] for x in xs for y in ys], dtype="float64")[:max(n, 4)]
    if len(pix) < 4:
        pix = np.array([[0, 0], [nx, 0], [0, ny], [nx, ny]], dtype="float64")
    if jitter:
        pix = pix + np.array([[rng.uniform(-0.3, 0.3), rng.uniform(-0.3, 0.3)] for _ in pix])
    r = rng.choice([0.01, 0.1, 0.5])
    lon0, lat0 = rng.uniform(-150, 150), rng.uniform(-60, 60)
    rot = math.radians(rng.choice([0, 0, 10, -25]))
    c, s = math.cos(rot), math.sin(rot)
    wld = np.stack([lon0 + r * (c * pix[:, 0] - s * pix[:, 1]), lat0 - r * (s * pix[:, 0] + c * pix[:, 1])], axis=1)
    kind = rng.choice(["affine", "affine", "mild"])
    if kind == "mild" and len(pix) >= 9:
        u, v = pix[:, 0] / nx, pix[:, 1] / ny
        wld = wld + np.stack([0.3 * r * u * v, -0.2 * r * u * u], axis=1)
    else:
        kind = "affine"
    m = GCPMapping([xy_(*p) for p in pix], [xy_(*w) for w in wld], rng.choice(["EPSG:4326", "EPSG:4269"]))
    return GCPGeoBox(wh_(nx, ny), m), kind


def drive(mon: Monitor, rng: random.Random, n_lin: int, n_gcp: int) -> None:
    for i in range(n_lin + n_gcp):
        rs = rng.getrandbits(48)
        mon.case = {"kind": "chain", "rs": rs, "gcp": i >= n_lin}
        _chain(mon, random.Random(rs), i >= n_lin)
    mon.case = None


def _chain(mon: Monitor, rng: random.Random, gcp: bool) -> None:
    try:
        if gcp:
            g, kind = make_gcp_box(rng)
            mon.obs[f"gcp_boxes_{kind}"] += 1
        else:
            g, fam = gen.geobox(rng, crs=rng.choice(gen.CRS_TAGS))
        consistency(g, "source")
        for _ in range(rng.randint(1, 6)):
            g = apply_random_op(rng, g)
    except Exception as e:
        mon.error("chain", e)


def drive_huge(mon: Monitor, rng: random.Random, n: int) -> None:
    """Rasters with millions of pixels along an axis (a national mosaic, a long swath): every view operation is O(1), so they cost nothing to try - and whatever is
    tolerant "to 1e-6" inside an operation becomes a whole pixel at this size.  Shape requests whose ratio to the source is within 1e-6 of a whole number or of 1/n without
    being one are the sharpest probes (4 800 002 -> 2 400 000)."""
    from odc.geo.geobox import GeoBox

    fixed = [((4_800_002, 3), (2_400_000, 3)), ((3, 3_000_001), (2, 1_500_001)), ((1_100_000, 5), (3_300_001, 5)), ((2_000_003, 2_000_003), (1_000_001, 1_000_002)), ((4_000_000, 7), (1_000_000, 7))]
    for k in range(n):
        if k < len(fixed):
            shp, tgt = fixed[k]
        else:
            N = rng.choice([1_000_003, 1_234_567, 2_400_001, 4_800_002, 3_000_001])
            f = rng.choice([2, 3, 4, 0.5, 1 / 3])
            shp = (N, rng.randint(1, 9)) if rng.random() < 0.5 else (rng.randint(1, 9), N)
            tgt = tuple(max(1, int(round(v / f)) + (rng.choice([0, 1, -1]) if v > 100 else 0)) if v > 100 else v for v in shp)
        r = rng.choice([10.0, 30.0, 0.5, 0.00025])
        g = GeoBox(shp, Affine(r, 0, rng.uniform(-1e5, 1e5), 0, -r, rng.uniform(-1e5, 1e5)), rng.choice(["EPSG:3857", "EPSG:32633", None]))
        mon.case = {"kind": "huge", "shape": shp, "target": tgt}
        call(g.zoom_to, tgt)
        call(g.zoom_out, rng.choice([2, 3, 2.5]))
        call(g.__getitem__, (slice(shp[0] // 3, shp[0] - 1), slice(0, shp[1])))
        call(g.pad, 1)
        call(g.flipy) if rng.random() < 0.5 else call(g.flipx)
        mon.obs["huge_rasters"] += 1
    mon.case = None


def run(mon: Monitor, tier: str, seed: int, shard: int, nshards: int) -> None:
    install(mon)
    _seen_consistency.clear()
    try:
        rng = random.Random(seed * 1000 + shard + 2)
        q = tier == "quick"
        drive(mon, rng, 2500 if q else 40000, 250 if q else 3000)
        drive_huge(mon, random.Random(seed * 1000 + shard + 202), 12 if q else 200)
        ops = ["__getitem__", "pad", "pad_wh", "crop", "translate_pix", "flipx", "flipy", "rotate", "zoom_out", "zoom_to", "buffered", "left", "right", "top", "bottom", "center_pixel", "__mul__", "__rmul__"]
        for o in ops:
            mon.floor(f"GeoBox.{o}", 100 if o not in ("center_pixel",) else 50)
        for pt, n in [("scaled_down_geobox", 100), ("GeoBox.pad|gcp", 20), ("GeoBox.zoom_out|gcp", 20), ("GeoBox.zoom_to|gcp|shape", 20), ("GCPGeoBox.center_pixel", 20), ("GeoBox.__getitem__|gcp|plain", 5),
                      ("source.inverse", 500), ("result.inverse", 1000), ("result.extent", 1000), ("result.boundingbox", 1000), ("result.coordinates", 500), ("result.resolution", 500),
                      ("source.inverse|gcp", 50), ("result.boundingbox|rotated/sheared", 100), ("result.boundingbox|gcp", 20), ("GeoBox.__getitem__|north-up|neg", 3), ("GeoBox.__getitem__|north-up|int", 3), ("GeoBox.__getitem__|north-up|negint", 3), ("GeoBox.__getitem__|rotated/sheared|negint", 3),
                      ("GeoBox.zoom_out.covers", 100), ("GeoBox.buffered.covers", 50)]:
            mon.floor(pt, n)
    finally:
        detach_all()


def replay(mon: Monitor, case) -> None:
    install(mon)
    _seen_consistency.clear()
    try:
        if case and case.get("kind") == "chain":
            mon.case = case
            _chain(mon, random.Random(case["rs"]), case["gcp"])
        elif not replay_call(case):
            mon.error("replay", "unknown case")
    finally:
        detach_all()
