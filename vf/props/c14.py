"""C14 - a GridSpec tiles the plane without gaps or overlaps.

Reference model: tile (ix,iy) occupies [ox + dx*ix*W, +W] x [oy + dy*iy*H, +H] with W,H = tile shape x |resolution|
and dx,dy = -1 when the axis is flipped.  The real GridSpec is queried on the index window [-4,4]^2 and on
seeded points/boxes/polygons and compared with the model and with itself (pairwise disjointness, shared edges).
"""
from __future__ import annotations

import itertools
import math
import random

import numpy as np

from .. import gen
from ..kernel import Monitor, call, hsig

PID = "C14"
RULE = ("seeded grid specifications (tile shapes 1..4000, resolutions of either sign and non-square, origins 0 / aligned / arbitrary up to 1e6, all four flip combinations), "
        "each examined on the index window [-4,4]^2 plus far indices, seeded points (interior, on edges, on corners), bounding-box queries (random and exactly tile-aligned), "
        "polygon queries in the grid CRS and in EPSG:4326, rebuild from every sampled tile, web_tiles z<=22; distinct = distinct grid specification | query")
ASSUMPTIONS = ["shapely for polygon/tile overlap areas", "pyproj (oracle's own transformer) for EPSG:4326 queries", "edge contacts: overlap <= 1e-8 - d excluded, > 1e-8 + d required, d = max(1e-9, 8 ulp(coord))"]
SHARDS = {"quick": 1, "thorough": 8}

W = 4  # index window half-size


def model_fp(spec, ix, iy):
    (ny, nx), (rx, ry), (ox, oy), fx, fy = spec
    tw, th = nx * abs(rx), ny * abs(ry)
    kx, ky = (-ix if fx else ix), (-iy if fy else iy)
    return (ox + kx * tw, oy + ky * th, ox + kx * tw + tw, oy + ky * th + th)


def make_spec(rng: random.Random):
    shape = rng.choice([(rng.randint(1, 50), rng.randint(1, 50)), (1, 1), (256, 256), (4000, 4000), (rng.randint(1, 4000), rng.randint(1, 4000)), (3200, 3200)])
    r = rng.choice([1, 10, 0.5, 25, 1 / 3, 30, 0.25, 100])
    rx = r * rng.choice([1, -1])
    ry = r * rng.choice([1, 2, 0.5]) * rng.choice([1, -1, -1])
    tw, th = shape[1] * abs(rx), shape[0] * abs(ry)
    k = rng.random()
    if k < 0.3:
        origin = None
        o = (0.0, 0.0)
    elif k < 0.6:
        o = (rng.randint(-100, 100) * tw, rng.randint(-100, 100) * th)
        if max(abs(o[0]), abs(o[1])) > 1e6:
            o = (rng.randint(-3, 3) * tw, rng.randint(-3, 3) * th)
        origin = o
    else:
        o = (rng.uniform(-1e6, 1e6), rng.uniform(-1e6, 1e6)) if max(tw, th) < 2e5 else (rng.uniform(-1e3, 1e3), rng.uniform(-1e3, 1e3))
        origin = o
    fx, fy = rng.random() < 0.5, rng.random() < 0.5
    crs = rng.choice(["EPSG:3857", "EPSG:3577", "EPSG:32633", "EPSG:6933"])
    return (shape, (rx, ry), o, fx, fy), origin, crs


def build(spec, origin, crs):
    from odc.geo import resxy_, xy_
    from odc.geo.gridspec import GridSpec

    shape, (rx, ry), _, fx, fy = spec
    return GridSpec(crs, shape, resxy_(rx, ry), None if origin is None else xy_(*origin), flipx=fx, flipy=fy)


def rel_eq(a, b, scale):
    return abs(a - b) <= 1e-9 * max(1.0, scale)


def case_siblings(mon: Monitor, rng: random.Random) -> None:
    """Near-identical grids used one after the other in the same process: they differ in the sign of one resolution component, a flip flag, the CRS or the origin only.
    Each is judged exactly like a grid used alone (whatever the library remembers about one grid must not show in its sibling)."""
    spec, origin, crs = make_spec(rng)
    shape, (rx, ry), o, fx, fy = spec
    other_crs = "EPSG:3577" if crs != "EPSG:3577" else "EPSG:3857"
    sibs = [(spec, origin, crs), ((shape, (-rx, ry), o, fx, fy), origin, crs), ((shape, (rx, -ry), o, fx, fy), origin, crs), ((shape, (-rx, -ry), o, fx, fy), origin, crs),
            ((shape, (rx, ry), o, not fx, fy), origin, crs), ((shape, (rx, ry), o, fx, not fy), origin, crs), (spec, origin, other_crs), (spec, origin, crs)]
    if origin is not None:
        o2 = (o[0] + shape[1] * abs(rx), o[1])
        sibs.insert(3, ((shape, (rx, ry), o2, fx, fy), o2, crs))
    rs = rng.getrandbits(48)
    rng.shuffle(sibs)
    for sp in sibs:
        case_grid(mon, random.Random(rs), given=sp)  # same random probes for every sibling
        mon.obs["sibling_grids"] += 1


def case_grid(mon: Monitor, rng: random.Random, given=None) -> None:
    from odc.geo.geom import BoundingBox
    from odc.geo.gridspec import GridSpec

    spec, origin, crs = make_spec(rng)
    if given is not None:
        spec, origin, crs = given
    (ny, nx), (rx, ry), (ox, oy), fx, fy = spec
    tw, th = nx * abs(rx), ny * abs(ry)
    desc = {"tile_shape": [ny, nx], "resolution": [rx, ry], "origin": [ox, oy], "flipx": fx, "flipy": fy, "crs": crs}
    cls = f"flipx={int(fx)},flipy={int(fy)}|rx{'+' if rx > 0 else '-'}ry{'+' if ry > 0 else '-'}"
    sig = hsig("GS", (ny, nx), rx, ry, ox, oy, fx, fy)
    gs, e = call(build, spec, origin, crs)
    if e is not None:
        return mon.fail("GridSpec.init", {**desc, "exc": e}, key="gridspec-init-raises")
    scale = max(abs(ox), abs(oy)) + (W + 2) * max(tw, th)
    idxs = list(itertools.product(range(-W, W + 1), repeat=2))
    far = [(rng.randint(-1000, 1000), rng.randint(-1000, 1000)) for _ in range(3)]
    boxes = {}
    bad = None
    ityps = [None, None, None, np.int64, np.int32, np.uint32, np.uint8, np.uint64, np.int16]
    for n_, idx in enumerate(idxs + far):
        # tile indices as they come out of a table or an array: numpy integers, unsigned ones included (for indices that are not negative)
        typ = ityps[(n_ * 7 + len(idxs)) % len(ityps)]
        idx_arg = idx
        if typ is not None and (min(idx) >= 0 or np.issubdtype(typ, np.signedinteger)) and max(abs(v) for v in idx) < 120:
            idx_arg = (typ(idx[0]), typ(idx[1]))
            mon.obs["tile_indices_given_as_numpy_integers"] += 1
        gb, e = call(gs.__getitem__, idx_arg) if rng.random() < 0.5 else call(gs.tile_geobox, idx_arg)
        if e is not None:
            bad = bad or {"idx": idx, "exc": e}
            continue
        fp = model_fp(spec, *idx)
        bb = tuple(gb.boundingbox.bbox)
        A = gb.affine
        sc = scale if idx in idxs else max(abs(v) for v in fp)
        ok = tuple(gb.shape) == (ny, nx) and gb.crs == crs and A.a == rx and A.e == ry and A.b == 0 and A.d == 0
        ok = ok and all(rel_eq(p, q, sc) for p, q in zip(bb, fp))
        ext = gb.extent.geom.bounds
        ok = ok and all(rel_eq(p, q, sc) for p, q in zip(ext, fp)) and abs(gb.extent.geom.area - tw * th) <= 1e-9 * tw * th
        if not ok:
            bad = bad or {"idx": idx, "got_bbox": bb, "model": fp, "affine": gen.aff6(A), "shape": list(gb.shape)}
        if idx in idxs:
            boxes[idx] = bb
    mon.check(bad is None, "GridSpec.tile_geobox", lambda: {**desc, **bad}, key="tile-footprint", cls=cls, sig=sig, sample=desc)
    if bad is not None or len(boxes) != len(idxs):
        return
    # pairwise interior-disjoint + neighbours share their edge: judged on the actual boxes
    bad = None
    lefts = sorted({b[0] for b in boxes.values()})
    for (i, a), (j, b) in itertools.combinations(boxes.items(), 2):
        ovx = min(a[2], b[2]) - max(a[0], b[0])
        ovy = min(a[3], b[3]) - max(a[1], b[1])
        if ovx > 1e-9 * scale and ovy > 1e-9 * scale:
            bad = bad or {"overlap": [i, j], "a": a, "b": b}
    for (ix, iy) in idxs:
        a = boxes[(ix, iy)]
        if (ix + 1, iy) in boxes:
            b = boxes[(ix + 1, iy)]
            sa, sb = (a[0], b[2]) if fx else (a[2], b[0])
            if not (rel_eq(sa, sb, scale) and rel_eq(a[1], b[1], scale) and rel_eq(a[3], b[3], scale)):
                bad = bad or {"x-neighbours": [(ix, iy), (ix + 1, iy)], "a": a, "b": b}
        if (ix, iy + 1) in boxes:
            b = boxes[(ix, iy + 1)]
            sa, sb = (a[1], b[3]) if fy else (a[3], b[1])
            if not (rel_eq(sa, sb, scale) and rel_eq(a[0], b[0], scale) and rel_eq(a[2], b[2], scale)):
                bad = bad or {"y-neighbours": [(ix, iy), (ix, iy + 1)], "a": a, "b": b}
    mon.check(bad is None, "GridSpec.partition", lambda: {**desc, **bad}, key="tiles-overlap-or-gap", cls=cls, sig=sig)

    # point lookup
    bad = None
    npts = 0
    for _ in range(40):
        idx = rng.choice(idxs)
        fp = model_fp(spec, *idx)
        kind = rng.choice(["interior", "interior", "edge", "corner", "centre"])
        if kind == "interior":
            px, py = rng.uniform(fp[0], fp[2]), rng.uniform(fp[1], fp[3])
        elif kind == "centre":
            px, py = (fp[0] + fp[2]) / 2, (fp[1] + fp[3]) / 2
        elif kind == "edge":
            px, py = rng.choice([(fp[0], rng.uniform(fp[1], fp[3])), (rng.uniform(fp[0], fp[2]), fp[3])])
        else:
            px, py = rng.choice([(fp[0], fp[1]), (fp[2], fp[3]), (fp[0], fp[3])])
        got, e = call(gs.pt2idx, px, py)
        if e is not None:
            bad = bad or {"pt": [px, py], "exc": e}
            continue
        npts += 1
        j = tuple(got.xy)
        gb = gs[j]
        b = gb.boundingbox
        eps = 1e-9 * max(1.0, scale)
        inside = b.left - eps <= px <= b.right + eps and b.bottom - eps <= py <= b.top + eps
        strict = min(px - fp[0], fp[2] - px, py - fp[1], fp[3] - py) > 1e-6 * max(tw, th) + eps
        if not inside or (strict and j != idx):
            bad = bad or {"pt": [px, py], "kind": kind, "pt2idx": j, "tile_bbox": tuple(b.bbox), "model_idx": idx}
    mon.check(bad is None, "GridSpec.pt2idx", lambda: {**desc, **bad}, key="pt2idx", cls=cls, sig=sig)
    mon.obs["points_looked_up"] += npts

    # bounding-box queries
    coord_max = scale
    d = max(1e-9, 8 * math.ulp(coord_max))
    strict_band = d < 5e-9
    shared_cache = {}  # one caller-supplied geobox_cache for all queries of this grid: later queries find tiles of earlier ones in it and add their own
    for qn in range(6):
        aligned = qn % 2 == 0
        sliver = 0.0
        if aligned:
            i0, i1 = sorted(rng.sample(range(-W, W + 1), 2))
            j0, j1 = sorted(rng.sample(range(-W, W + 1), 2))
            xs = sorted([ox + i0 * tw, ox + i1 * tw])
            ys = sorted([oy + j0 * th, oy + j1 * th])
            if qn >= 4:
                # tile-aligned box grown (neighbours overlap by a sliver: they belong to the answer) or shrunk by an absolute amount in CRS units,
                # well above both the 1e-8 contact rule and the float resolution of the coordinates, and far below a tile
                cands = [v for v in (1e-5, 1e-4, 1e-3, 1e-2, 1.0) if v > 1000 * d and v < 1e-3 * min(tw, th)]
                if not cands:
                    continue
                sliver = rng.choice(cands) * rng.choice([1, 1, -1])
                xs, ys = [xs[0] - sliver, xs[1] + sliver], [ys[0] - sliver, ys[1] + sliver]
        else:
            xs = sorted([ox + rng.uniform(-W, W) * tw, ox + rng.uniform(-W, W) * tw])
            ys = sorted([oy + rng.uniform(-W, W) * th, oy + rng.uniform(-W, W) * th])
        if xs[1] - xs[0] < 1e-5 or ys[1] - ys[0] < 1e-5:
            continue
        q = BoundingBox(xs[0], ys[0], xs[1], ys[1], crs)
        cache = shared_cache if rng.random() < 0.5 else None
        res, e = call(lambda: list(gs.tiles(q, cache)))
        if e is not None:
            mon.fail("GridSpec.tiles", {**desc, "query": tuple(q.bbox), "exc": e}, key="tiles-raises", cls=cls)
            continue
        got = {tuple(i) for i, _ in res}
        ov = lambda b: (min(b[2], q.right) - max(b[0], q.left), min(b[3], q.top) - max(b[1], q.bottom))
        lo, hi = (1e-8 + d, 1e-8 - d) if strict_band else (max(1e-6, 100 * d), -max(1e-6, 100 * d))
        must = {i for i, b in boxes.items() if min(ov(b)) > lo}
        mustnot = {i for i, b in boxes.items() if min(ov(b)) < hi}
        okq = must <= got and not (got & mustnot) and all(max(abs(i[0]), abs(i[1])) <= W + 1 for i in got)
        okq = okq and all(g == gs[i] for i, g in res)
        # every tile handed out - fresh or from the cache - is its own tile in every respect, footprint included
        okq = okq and all(all(rel_eq(p_, q_, scale) for p_, q_ in zip(g.extent.geom.bounds, model_fp(spec, *i))) for i, g in res if max(abs(i[0]), abs(i[1])) <= W + 1)
        if cache is not None:
            okq = okq and all(cache.get(tuple(i)) is g or cache.get(i) is g for i, g in res)
            mon.obs["queries_through_a_shared_geobox_cache"] += 1
        ib, e2 = call(gs.idx_bounds, q)
        if e2 is None and okq:
            okq = {(ix, iy) for ix in range(ib[0], ib[2]) for iy in range(ib[1], ib[3])} == got
        mon.check(okq, "GridSpec.tiles", lambda: {**desc, "query": tuple(q.bbox), "aligned": aligned, "got": sorted(got), "missing": sorted(must - got),
                  "extra": sorted(got & mustnot), "idx_bounds": ib}, key="bbox-query", cls=cls + ("|aligned-grown" if sliver > 0 else "|aligned-shrunk" if sliver < 0 else "|aligned" if aligned else "|random"), sig=hsig("Q", sig, tuple(q.bbox)))

    # rebuilt from a sample tile
    j = rng.choice(idxs)
    gs2, e = call(GridSpec.from_sample_tile, gs[j].extent, shape=(ny, nx), idx=j, flipx=fx, flipy=fy)
    if e is not None:
        mon.fail("GridSpec.from_sample_tile", {**desc, "sample_idx": j, "exc": e}, key="sample-raises", cls=cls)
    else:
        bad = None
        for k in rng.sample(idxs, 12) + [j]:
            a, b = tuple(gs2[k].boundingbox.bbox), boxes[k]
            if not all(abs(p - q_) <= 1e-9 * scale + 1e-9 for p, q_ in zip(a, b)) or tuple(gs2[k].shape) != (ny, nx):
                bad = bad or {"k": k, "rebuilt": a, "original": b}
        okr = bad is None and gs2.crs == gs.crs and abs(gs2.resolution.x) == abs(rx) or (bad is None and rel_eq(abs(gs2.resolution.x), abs(rx), abs(rx)))
        mon.check(bool(okr), "GridSpec.from_sample_tile", lambda: {**desc, "sample_idx": j, **(bad or {}), "resolution": list(gs2.resolution.xy)}, key="sample-rebuild", cls=cls, sig=sig)


def case_polygon(mon: Monitor, rng: random.Random) -> None:
    import shapely.geometry as sg
    from odc.geo import geom

    spec, origin, crs = make_spec(rng)
    (ny, nx), (rx, ry), (ox, oy), fx, fy = spec
    tw, th = nx * abs(rx), ny * abs(ry)
    cross = rng.random() < 0.4
    if cross:
        # grid around a point inside the CRS window so that a lon/lat polygon projects sanely
        entry = rng.choice([e for e in gen.CRS_WINDOWS if e[0] in ("EPSG:3857", "EPSG:3577", "EPSG:32633", "EPSG:6933")])
        crs = entry[0]
        lon, lat = rng.uniform(entry[1] + 2, entry[3] - 2), rng.uniform(entry[2] + 2, entry[4] - 2)
        cx, cy = gen.transformer("EPSG:4326", crs).transform(lon, lat)
        size = rng.choice([5e3, 2e4, 1e5])
        r = size / 100
        spec = ((100, 100), (r, -r), (cx - rng.uniform(0, 3) * size, cy - rng.uniform(0, 3) * size), fx, fy)
        origin = spec[2]
        (ny, nx), (rx, ry), (ox, oy), fx, fy = spec
        tw = th = size
    gs, e = call(build, spec, origin, crs)
    desc = {"tile_shape": [ny, nx], "resolution": [rx, ry], "origin": [ox, oy], "flipx": fx, "flipy": fy, "crs": crs, "cross": cross}
    if e is not None:
        return mon.fail("GridSpec.init", {**desc, "exc": e}, key="gridspec-init-raises")
    # polygon in grid coordinates (triangle/quad/concave), a few tiles across
    if cross:
        c0 = (cx, cy)
    else:
        c0 = (ox + rng.uniform(-2, 2) * tw, oy + rng.uniform(-2, 2) * th)
    k = rng.choice([3, 4, 5, 7])
    angs = sorted(rng.uniform(0, 2 * math.pi) for _ in range(k))
    rad = [rng.uniform(0.2, 2.2) for _ in range(k)]
    pts = [(c0[0] + r_ * tw * math.cos(a), c0[1] + r_ * th * math.sin(a)) for a, r_ in zip(angs, rad)]
    poly = sg.Polygon(pts)
    if not poly.is_valid or poly.area <= 0:
        return mon.skip("GridSpec.tiles_from_geopolygon", "invalid polygon")
    shape_kind = "polygon"
    if cross:
        # hand over the query in EPSG:4326, densified so that vertex-wise projection follows the true image
        dense = poly.segmentize(max(tw, th) / 50)
        xs, ys = np.asarray(dense.exterior.coords).T
        lon_, lat_ = gen.transformer(crs, "EPSG:4326").transform(xs, ys)
        query = geom.polygon(list(zip(lon_.tolist(), lat_.tolist())), "EPSG:4326")
        bx, by = gen.transformer("EPSG:4326", crs).transform(lon_, lat_)
        poly_native = sg.Polygon(list(zip(bx, by)))
        if not poly_native.is_valid:
            return mon.skip("GridSpec.tiles_from_geopolygon", "invalid polygon")
    else:
        shape_kind = "polygon"
        if rng.random() < 0.35:
            # multi-part queries (parts in one tile row / column, a tile or more apart; scattered) and polygons with a hole swallowing whole tiles:
            # tiles between the parts / inside the hole do not overlap the query
            shape_kind = rng.choice(["multi-row", "multi-col", "multi-scatter", "hole", "multi-nested", "multi-nested"])
            i0, j0 = rng.randint(-3, 3), rng.randint(-3, 3)
            small = lambda i, j: sg.box(ox + (i + rng.uniform(0.1, 0.4)) * tw, oy + (j + rng.uniform(0.1, 0.4)) * th, ox + (i + rng.uniform(0.6, 0.9)) * tw, oy + (j + rng.uniform(0.6, 0.9)) * th)
            if shape_kind == "multi-row":
                poly = sg.MultiPolygon([small(i0, j0), small(i0 + rng.randint(2, 4), j0)] + ([small(i0 + 6, j0)] if rng.random() < 0.4 else []))
            elif shape_kind == "multi-col":
                poly = sg.MultiPolygon([small(i0, j0), small(i0, j0 + rng.randint(2, 4))])
            elif shape_kind == "multi-scatter":
                poly = sg.MultiPolygon([small(i0, j0), small(i0 + 2, j0 + rng.randint(1, 3)), small(i0 - 2, j0 + 3)])
            elif shape_kind == "multi-nested":
                # an L-shaped (or triangular) part whose bounding box covers tiles it does not touch, and another part - an island - inside one of those tiles; either order
                corner = sg.box(ox + (i0 + 1.15) * tw, oy + (j0 + 1.15) * th, ox + (i0 + 3.2) * tw, oy + (j0 + 3.2) * th)
                ell = sg.box(ox + (i0 + 0.2) * tw, oy + (j0 + 0.2) * th, ox + (i0 + 2.8) * tw, oy + (j0 + 2.8) * th).difference(corner)
                if rng.random() < 0.4:
                    ell = sg.Polygon([(ox + (i0 + 0.2) * tw, oy + (j0 + 0.2) * th), (ox + (i0 + 2.9) * tw, oy + (j0 + 0.2) * th), (ox + (i0 + 0.2) * tw, oy + (j0 + 2.9) * th)])
                island = sg.box(ox + (i0 + 2.3) * tw, oy + (j0 + 2.3) * th, ox + (i0 + 2.7) * tw, oy + (j0 + 2.7) * th)
                parts = [ell, island] if rng.random() < 0.7 else [island, ell]
                poly = sg.MultiPolygon(parts) if rng.random() < 0.7 else sg.GeometryCollection(parts)
            else:
                outer = sg.box(ox + (i0 - 0.5) * tw, oy + (j0 - 0.5) * th, ox + (i0 + 3.5) * tw, oy + (j0 + 3.5) * th)
                poly = outer.difference(sg.box(ox + (i0 + 0.9) * tw, oy + (j0 + 0.9) * th, ox + (i0 + 2.1) * tw, oy + (j0 + 2.1) * th))
            pts = [list(poly.bounds), shape_kind]
        query = geom.Geometry(poly, crs)
        poly_native = poly
    pcache = None
    if rng.random() < 0.5:
        # the caller's geobox_cache already holds tiles from an earlier query next door (whose footprints have been looked at, as the polygon filter itself does)
        pcache = {}
        b0 = poly_native.bounds
        near = geom.Geometry(sg.box(b0[0] - 1.3 * tw, b0[1] - 0.2 * th, b0[0] + 0.4 * tw, b0[1] + 0.7 * th), crs if not cross else gs.crs)
        call(lambda: [g.extent for _i, g in gs.tiles_from_geopolygon(near, geobox_cache=pcache)])
        mon.obs["polygon_queries_through_a_used_geobox_cache"] += 1
    res, e = call(lambda: list(gs.tiles_from_geopolygon(query, geobox_cache=pcache) if pcache is not None else gs.tiles_from_geopolygon(query)))
    if e is not None:
        return mon.fail("GridSpec.tiles_from_geopolygon", {**desc, "poly": pts, "exc": e}, key="polygon-query-raises")
    got = {tuple(i) for i, _ in res}
    minx, miny, maxx, maxy = poly_native.bounds
    must, may = set(), set()
    # model index range that could matter
    def krange(lo, hi, o, t, flip):
        a, b = math.floor((lo - o) / t) - 1, math.floor((hi - o) / t) + 1
        ks = range(a, b + 1)
        return [(-k_ if flip else k_) for k_ in ks]
    sliver = (1e-6 if not cross else 1e-3) * tw * th
    for ix in krange(minx, maxx, ox, tw, fx):
        for iy in krange(miny, maxy, oy, th, fy):
            fp = model_fp(spec, ix, iy)
            tile = sg.box(*fp)
            a = tile.intersection(poly_native).area
            if a > sliver:
                must.add((ix, iy))
            if a > 0 or tile.distance(poly_native) <= (1e-6 if not cross else 1e-3) * max(tw, th):
                may.add((ix, iy))
    ok = must <= got <= may and all(g == gs[i] for i, g in res)
    if not cross and rng.random() < 0.5:
        # the same question through the GeoJSON export (another public entry point): the features are the tiles of the answer, named "ix,iy"
        gj, e_gj = call(gs.geojson, geopolygon=query)
        if e_gj is not None:
            # GeoJSON is lon/lat: a grid placed outside the area where its CRS can be converted to lon/lat (random origins reach 7.6e6 m north in Australian Albers) cannot be exported
            b0 = poly_native.bounds
            lo_, la_ = gen.transformer(gs.crs.proj.to_wkt(), "EPSG:4326").transform([b0[0] - 2 * tw, b0[2] + 2 * tw, b0[0] - 2 * tw, b0[2] + 2 * tw], [b0[1] - 2 * th, b0[1] - 2 * th, b0[3] + 2 * th, b0[3] + 2 * th])
            if not (np.all(np.isfinite(lo_)) and np.all(np.isfinite(la_)) and np.all(np.abs(la_) < 88)):
                mon.skip("GridSpec.geojson", "tiles outside the lon/lat range of the grid's CRS")
                e_gj = "skip"
        try:
            got_gj = {tuple(int(v) for v in f["properties"]["idx"].split(",")) for f in gj["features"]} if e_gj is None else None
        except Exception as e_:  # noqa: BLE001
            got_gj, e_gj = None, e_
        if e_gj != "skip":
          mon.check(got_gj is not None and must <= got_gj <= may, "GridSpec.geojson", lambda: {**desc, "poly": pts, "got": sorted(got_gj) if got_gj is not None else None, "missing": sorted(must - (got_gj or set())),
                  "extra": sorted((got_gj or set()) - may), "exc": e_gj}, key="polygon-query", cls="same-crs" if shape_kind == "polygon" else "same-crs|" + shape_kind)
    mon.check(ok, "GridSpec.tiles_from_geopolygon", lambda: {**desc, "poly": pts, "got": sorted(got), "missing": sorted(must - got), "extra": sorted(got - may)},
              key="polygon-query", cls="cross-crs" if cross else ("same-crs" if shape_kind == "polygon" else "same-crs|" + shape_kind), sig=hsig("P", (ny, nx), rx, ry, ox, oy, fx, fy, repr(pts)), sample={**desc, "poly": pts, "got": sorted(got)})


def case_web(mon: Monitor, rng: random.Random) -> None:
    from odc.geo.geom import BoundingBox
    from odc.geo.gridspec import GridSpec

    R = 6378137.0
    z = rng.randint(0, 22)
    npix = rng.choice([256, 256, 512, 1])
    gs, e = call(GridSpec.web_tiles, z, npix) if npix != 256 else call(GridSpec.web_tiles, z)
    if e is not None:
        return mon.fail("GridSpec.web_tiles", {"z": z, "npix": npix, "exc": e}, key="web-raises")
    n = 2**z
    w = 2 * math.pi * R / n
    bad = None
    for (x, y) in {(0, 0), (n - 1, n - 1), (n // 2, n // 3), (n - 1, 0), (rng.randrange(n), rng.randrange(n))}:
        gb = gs[x, y]
        exp = (-math.pi * R + x * w, math.pi * R - (y + 1) * w, -math.pi * R + (x + 1) * w, math.pi * R - y * w)
        bb = tuple(gb.boundingbox.bbox)
        # independent slippy-map formula: lon/lat of the tile's north-west corner
        lon = x / n * 360.0 - 180.0
        lat = math.degrees(math.atan(math.sinh(math.pi * (1 - 2 * y / n))))
        mx, my = gen.transformer("EPSG:4326", "EPSG:3857").transform(lon, lat)
        ok = np.allclose(bb, exp, rtol=0, atol=1e-6) and tuple(gb.shape) == (npix, npix) and gb.crs == "EPSG:3857" and gb.affine.e < 0 and gb.affine.a > 0
        ok = ok and abs(bb[0] - mx) <= 1e-4 and abs(bb[3] - my) <= 1e-4
        ok = ok and tuple(gs.pt2idx((exp[0] + exp[2]) / 2, (exp[1] + exp[3]) / 2).xy) == (x, y)
        if not ok:
            bad = bad or {"tile": (x, y), "bbox": bb, "expected": exp, "slippy_nw": [mx, my]}
    last = gs[n - 1, n - 1].boundingbox
    ok_edge = abs(last.right - math.pi * R) <= 1e-6 and abs(last.bottom + math.pi * R) <= 1e-6
    world = BoundingBox(-math.pi * R, -math.pi * R, math.pi * R, math.pi * R, "epsg:3857")
    ib, e = call(gs.idx_bounds, world)
    ok_b = e is None and tuple(ib) == (0, 0, n, n)
    mon.check(bad is None and ok_edge and ok_b, "GridSpec.web_tiles", lambda: {"z": z, "npix": npix, **(bad or {}), "world_idx_bounds": ib, "last_tile": tuple(last.bbox)},
              key="web-tiles", cls=f"z{z:02d}", sig=hsig("W", z, npix), sample={"z": z, "npix": npix, "tile(0,0)": tuple(gs[0, 0].boundingbox.bbox)})


CASES = {"grid": case_grid, "siblings": case_siblings, "polygon": case_polygon, "web": case_web}


def run(mon: Monitor, tier: str, seed: int, shard: int, nshards: int) -> None:
    rng = random.Random(seed * 1000 + shard + 14)
    counts = {"grid": 300, "siblings": 12, "polygon": 500, "web": 120} if tier == "quick" else {"grid": 5000, "siblings": 200, "polygon": 8000, "web": 600}
    for kind, n in counts.items():
        for _ in range(n):
            rs = rng.getrandbits(48)
            mon.case = {"kind": kind, "rs": rs}
            try:
                CASES[kind](mon, random.Random(rs))
            except Exception as e:
                mon.error(kind, e)
    mon.case = None
    for pt, n in [("GridSpec.tiles_from_geopolygon|same-crs|multi-row", 5), ("GridSpec.tiles_from_geopolygon|same-crs|multi-col", 5), ("GridSpec.tiles_from_geopolygon|same-crs|hole", 5), ("GridSpec.tile_geobox", 200), ("GridSpec.partition", 200), ("GridSpec.pt2idx", 200), ("GridSpec.tiles", 500), ("GridSpec.from_sample_tile", 200),
                  ("GridSpec.tiles_from_geopolygon", 200), ("GridSpec.web_tiles", 50), ("GridSpec.tiles_from_geopolygon|cross-crs", 50),
                  ("GridSpec.tile_geobox|flipx=1,flipy=1|rx+ry-", 3), ("GridSpec.tile_geobox|flipx=0,flipy=0|rx-ry+", 1)]:
        mon.floor(pt, n)


def replay(mon: Monitor, case) -> None:
    mon.case = case
    CASES[case["kind"]](mon, random.Random(case["rs"]))
