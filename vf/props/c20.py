"""C20 - numeric helpers meet their documented contracts.

Post-condition monitors are attached to the public functions/classes of
odc.geo.math (every alias in every odc.geo module is rebound), so the contract
is evaluated on every call: the direct, boundary-stratified workload below and
the calls made from inside GeoBox construction, reprojection planning, GridSpec
lookups, GCP fitting and xarray interop.
"""
from __future__ import annotations

import math
import random

import numpy as np
from affine import Affine

from ..attach import attach, detach_all, calls
from ..kernel import Monitor, hsig

PID = "C20"
RULE = ("boundary-stratified seeded inputs (k + {0, +-tol(1+-0.1), +-1/2, +-(1/2+-1e-12)}, magnitudes to 1e7, "
        "alignments 1..64, well-conditioned matrices, point sets in general position) fed to the real functions of "
        "odc.geo.math with post-condition monitors attached; distinct = distinct (function, argument tuple) judged "
        "inside the function's documented domain; indirect calls from GeoBox/GridSpec/GCP/xarray code are judged too")
ASSUMPTIONS = ["python float arithmetic / math.floor / numpy.linalg as oracle arithmetic",
               "values within 4 ulp of a tolerance boundary are not judged (either answer is correct)"]
SHARDS = {"quick": 1, "thorough": 8}
SUITE_UNDER_MONITOR = True

_mon: Monitor = None  # type: ignore


def _ulp(x: float) -> float:
    return math.ulp(max(abs(x), 1.0))


def _frac_dist(x: float) -> float:
    return abs(x - round(x))


def _near_tol(x: float, tol: float) -> bool:
    return abs(_frac_dist(x) - tol) <= 4 * _ulp(x)


def _err(label, e):
    _mon.error(label, e)


# --------------------------------------------------------------------------- contracts
def post_split_float(args, kw, res, exc, snap):
    (x,) = args
    if exc is not None:
        return _mon.fail("split_float", {"x": x, "exc": exc}, key="split_float-raises")
    w, f = res
    if not math.isfinite(x):
        ok = (w == x or (math.isnan(x) and math.isnan(w))) and f == 0
    else:
        ok = (-0.5 <= f <= 0.5) and (w + f == x) and (w == math.floor(w)) and abs(w - x) <= 0.5
    _mon.check(ok, "split_float", {"x": x, "whole": w, "frac": f}, key="split_float-contract",
               cls="finite" if math.isfinite(x) else "nonfinite", sig=hsig("sf", x), sample={"x": x, "res": [w, f]})


def post_maybe_int(args, kw, res, exc, snap):
    x, tol = args[0], (args[1] if len(args) > 1 else kw["tol"])
    if exc is not None:
        return _mon.fail("maybe_int", {"x": x, "tol": tol, "exc": exc}, key="maybe_int-raises")
    if not math.isfinite(x):
        return _mon.check(res is x or res == x or (math.isnan(x) and math.isnan(res)), "maybe_int", {"x": x, "res": res}, cls="nonfinite")
    if _near_tol(x, tol):
        return _mon.skip("maybe_int", "tolerance-boundary")
    want_int = _frac_dist(x) < tol
    if want_int:
        ok = isinstance(res, int) and not isinstance(res, bool) and abs(res - x) < tol + 4 * _ulp(x) and abs(res - x) <= 0.5
    else:
        ok = (res is x) or (res == x and not isinstance(res, int)) or (isinstance(x, int) and res == x)
    _mon.check(ok, "maybe_int", {"x": x, "tol": tol, "res": res, "want_int": want_int}, key="maybe_int-contract",
               cls="snap" if want_int else "pass", sig=hsig("mi", x, tol), sample={"x": x, "tol": tol, "res": res})
    # agreement with is_almost_int (original, un-monitored function)
    from odc.geo import math as M

    ai = getattr(M.is_almost_int, "__vf_original__", M.is_almost_int)(x, tol)
    _mon.check(ai == isinstance(res, int), "maybe_int~is_almost_int", {"x": x, "tol": tol, "maybe_int": res, "is_almost_int": ai},
               key="near-int-disagree")


def post_is_almost_int(args, kw, res, exc, snap):
    x, tol = args[0], (args[1] if len(args) > 1 else kw["tol"])
    if exc is not None:
        return _mon.fail("is_almost_int", {"x": x, "tol": tol, "exc": exc}, key="is_almost_int-raises")
    if not math.isfinite(x):
        return _mon.check(res is False, "is_almost_int", {"x": x, "res": res}, cls="nonfinite")
    if _near_tol(x, tol):
        return _mon.skip("is_almost_int", "tolerance-boundary")
    want = _frac_dist(x) < tol
    _mon.check(bool(res) == want, "is_almost_int", {"x": x, "tol": tol, "res": res}, key="is_almost_int-contract",
               cls="yes" if want else "no", sig=hsig("ai", x, tol), sample={"x": x, "tol": tol, "res": res})


def post_snap_scale(args, kw, res, exc, snap):
    s = args[0]
    tol = args[1] if len(args) > 1 else kw.get("tol", 1e-6)
    if exc is not None:
        return _mon.fail("snap_scale", {"s": s, "tol": tol, "exc": exc}, key="snap_scale-raises")
    if not math.isfinite(s):
        return _mon.skip("snap_scale", "nonfinite")
    # boundary bands where either answer is acceptable
    if abs(abs(s) - (1 - tol)) <= 4 * _ulp(s) or abs(abs(s) - tol) <= 4 * _ulp(s):
        return _mon.skip("snap_scale", "tolerance-boundary")
    if abs(s) >= 1 - tol:
        if _near_tol(s, tol):
            return _mon.skip("snap_scale", "tolerance-boundary")
        want = round(s) if _frac_dist(s) < tol else s
        cls = "int" if _frac_dist(s) < tol else "pass"
    elif abs(s) < tol:
        want, cls = s, "zero"
    else:
        inv = 1 / s
        if _near_tol(inv, tol):
            return _mon.skip("snap_scale", "tolerance-boundary")
        if _frac_dist(inv) < tol:
            want, cls = 1 / round(inv), "1/int"
        else:
            want, cls = s, "pass"
    ok = (res == want) and abs(res - s) <= tol * max(1.0, abs(s)) + 4 * _ulp(s)
    _mon.check(ok, "snap_scale", {"s": s, "tol": tol, "res": res, "want": want}, key="snap_scale-contract", cls=cls,
               sig=hsig("ss", s, tol), sample={"s": s, "tol": tol, "res": res})
    # idempotent
    from odc.geo import math as M

    again = getattr(M.snap_scale, "__vf_original__", M.snap_scale)(res, tol)
    _mon.check(again == res, "snap_scale.idempotent", {"s": s, "tol": tol, "once": res, "twice": again}, key="snap_scale-idempotent")


def post_align_down(args, kw, res, exc, snap):
    x, a = args
    if isinstance(x, np.ndarray):
        ok = exc is None and bool(np.all(res % a == 0) and np.all(res <= x) and np.all(x - res < a))
        return _mon.check(ok, "align_down", {"x": x, "align": a, "res": res, "exc": exc}, key="align_down-contract", cls="array")
    if not (isinstance(x, (int, np.integer)) and isinstance(a, (int, np.integer)) and a > 0):
        return _mon.skip("align_down", "non-integer-or-nonpositive")
    ok = exc is None and res % a == 0 and res <= x and x - res < a
    _mon.check(ok, "align_down", {"x": x, "align": a, "res": res, "exc": exc}, key="align_down-contract", cls="int",
               sig=hsig("ad", int(x), int(a)), sample={"x": int(x), "align": int(a), "res": res})


def post_align_up(args, kw, res, exc, snap):
    x, a = args
    if isinstance(x, np.ndarray):
        ok = exc is None and bool(np.all(res % a == 0) and np.all(res >= x) and np.all(res - x < a))
        return _mon.check(ok, "align_up", {"x": x, "align": a, "res": res, "exc": exc}, key="align_up-contract", cls="array")
    if not (isinstance(x, (int, np.integer)) and isinstance(a, (int, np.integer)) and a > 0):
        return _mon.skip("align_up", "non-integer-or-nonpositive")
    ok = exc is None and res % a == 0 and res >= x and res - x < a
    _mon.check(ok, "align_up", {"x": x, "align": a, "res": res, "exc": exc}, key="align_up-contract", cls="int",
               sig=hsig("au", int(x), int(a)), sample={"x": int(x), "align": int(a), "res": res})


def post_align_up_pow2(args, kw, res, exc, snap):
    (x,) = args
    if not isinstance(x, (int, np.integer)) or x > 2**40:
        return _mon.skip("align_up_pow2", "outside pixel-index range")
    if x <= 0:
        return _mon.check(exc is None and res == 1, "align_up_pow2", {"x": x, "res": res}, cls="nonpositive")
    ok = exc is None and res >= x and res & (res - 1) == 0 and res // 2 < x
    _mon.check(ok, "align_up_pow2", {"x": x, "res": res, "exc": exc}, key="align_up_pow2-contract", cls="positive",
               sig=hsig("aup", int(x)), sample={"x": int(x), "res": res})


def post_align_down_pow2(args, kw, res, exc, snap):
    (x,) = args
    if not isinstance(x, (int, np.integer)) or x > 2**40 or x <= 0:
        return _mon.skip("align_down_pow2", "outside documented domain")
    ok = exc is None and res <= x and res & (res - 1) == 0 and res * 2 > x
    _mon.check(ok, "align_down_pow2", {"x": x, "res": res, "exc": exc}, key="align_down_pow2-contract", cls="positive",
               sig=hsig("adp", int(x)), sample={"x": int(x), "res": res})


def post_snap_grid(args, kw, res, exc, snap):
    names = ("x0", "x1", "res", "off_pix", "tol")
    p = {"off_pix": 0, "tol": 1e-6}
    p.update(dict(zip(names, args)))
    p.update(kw)
    x0, x1, r, off, tol = (p[k] for k in names)
    if not (all(map(math.isfinite, (x0, x1, r))) and x0 <= x1 and r != 0 and (off is None or 0 <= off < 1)):
        return _mon.skip("snap_grid", "precondition")
    if exc is not None:
        return _mon.fail("snap_grid", {**p, "exc": exc}, key="snap_grid-raises")
    tx, nx = res
    a = abs(r)
    lo, hi = (tx, tx + nx * r) if r > 0 else (tx + nx * r, tx)
    eps = 1e-9 * max(1.0, abs(x0) / a, abs(x1) / a)
    covers = isinstance(nx, (int, np.integer)) and nx >= 1 and lo <= x0 + (tol + eps) * a and hi >= x1 - (tol + eps) * a
    if off is None:
        span = (x1 - x0) / a
        if abs(_frac_dist(span) - tol) <= eps:
            return _mon.skip("snap_grid", "tolerance-boundary")
        minimal = nx == 1 or (nx - 1) < span - tol + eps
        aligned = (lo == x0) if r > 0 else (hi == x1)
        cls = "float"
    else:
        u0, u1 = x0 / a - off, x1 / a - off
        if abs(_frac_dist(u0) - tol) <= eps or abs(_frac_dist(u1) - tol) <= eps:
            return _mon.skip("snap_grid", "tolerance-boundary")
        # minimal: dropping the first or the last pixel would uncover x0 / x1 by more than tol
        minimal = nx == 1 or ((lo + a) > x0 + (tol - eps) * a and (hi - a) < x1 - (tol - eps) * a)
        # and never more than a pixel (plus tol) of slack on either side
        minimal = minimal and (x0 - lo) < (1 + tol + eps) * a and (hi - x1) < (1 + tol + eps) * a or (nx == 1 and (hi - lo) <= a * (1 + eps))
        k = lo / a - off
        aligned = abs(k - round(k)) <= 1e-6 * max(1.0, abs(k) * 1e-3 + 1)
        cls = "edge" if off == 0 else "centre" if off == 0.5 else "fraction"
    cls += "+" if r > 0 else "-"
    _mon.check(bool(covers and minimal and aligned), "snap_grid",
               lambda: {**p, "tx": tx, "nx": nx, "covers": bool(covers), "minimal": bool(minimal), "aligned": bool(aligned)},
               key="snap_grid-" + ("covers" if not covers else "minimal" if not minimal else "aligned"),
               cls=cls, sig=hsig("sg", x0, x1, r, off, tol), sample={**p, "tx": tx, "nx": nx})


def _aff6(A):
    return tuple(A)[:6]


def post_snap_affine(args, kw, res, exc, snap):
    A = args[0]
    p = {"ttol": 1e-3, "stol": 1e-6, "tol": 1e-8}
    p.update(dict(zip(("ttol", "stol", "tol"), args[1:])))
    p.update(kw)
    if exc is not None:
        return _mon.fail("snap_affine", {"A": _aff6(A), **p, "exc": exc}, key="snap_affine-raises")
    sx, wx, tx, wy, sy, ty = _aff6(A)
    if not all(map(math.isfinite, (sx, wx, tx, wy, sy, ty))):
        return _mon.skip("snap_affine", "nonfinite")
    if abs(wx) > p["tol"] or abs(wy) > p["tol"]:
        return _mon.check(res is A or _aff6(res) == _aff6(A), "snap_affine", {"A": _aff6(A), "res": _aff6(res)},
                          key="snap_affine-rotated-changed", cls="rotated", sig=hsig("sa", *_aff6(A)))
    rsx, rwx, rtx, rwy, rsy, rty = _aff6(res)
    st, tt = p["stol"], p["ttol"]
    ok = (rwx == 0 and rwy == 0
          and abs(rsx - sx) <= st * max(1, abs(sx)) + 4 * _ulp(sx) and abs(rsy - sy) <= st * max(1, abs(sy)) + 4 * _ulp(sy)
          and abs(rtx - tx) <= tt + 4 * _ulp(tx) and abs(rty - ty) <= tt + 4 * _ulp(ty))
    # snapping must actually happen when well inside tolerance
    for v, r_, t_ in ((tx, rtx, tt), (ty, rty, tt)):
        if _frac_dist(v) < 0.9 * t_:
            ok = ok and r_ == round(v)
        elif _frac_dist(v) > 1.1 * t_:
            ok = ok and r_ == v
    for v, r_ in ((sx, rsx), (sy, rsy)):
        if abs(v) >= 1 and _frac_dist(v) < 0.9 * st:
            ok = ok and r_ == round(v)
    _mon.check(ok, "snap_affine", {"A": _aff6(A), **p, "res": _aff6(res)}, key="snap_affine-contract", cls="axis-aligned",
               sig=hsig("sa", *_aff6(A)), sample={"A": _aff6(A), "res": _aff6(res)})
    from odc.geo import math as M

    again = getattr(M.snap_affine, "__vf_original__", M.snap_affine)(res, p["ttol"], p["stol"], p["tol"])
    _mon.check(_aff6(again) == _aff6(res), "snap_affine.idempotent", {"A": _aff6(A), "once": _aff6(res), "twice": _aff6(again)},
               key="snap_affine-idempotent")


def post_decompose_rws(args, kw, res, exc, snap):
    A = args[0]
    if isinstance(A, Affine):
        a, b, c, d, e, f = _aff6(A)
        M2 = np.array([[a, b], [d, e]], dtype="float64")
    else:
        M2 = np.asarray(A, dtype="float64")
    det = abs(np.linalg.det(M2))
    nrm = np.linalg.norm(M2, 2)
    if not np.all(np.isfinite(M2)) or det < 1e-12 * max(nrm * nrm, 1e-300) or det == 0:
        return _mon.skip("decompose_rws", "singular")
    if exc is not None:
        return _mon.fail("decompose_rws", {"A": M2, "exc": exc}, key="decompose_rws-raises")
    R, W, S = res
    if isinstance(A, Affine):
        tr = (R.c, R.f)
        ok_t = tr == (A.c, A.f) and (W.c, W.f, S.c, S.f) == (0, 0, 0, 0)
        R, W, S = (np.array([[m.a, m.b], [m.d, m.e]]) for m in (R, W, S))
    else:
        ok_t = True
    cond = nrm * nrm / det
    tol = 1e-12 * max(cond, 1.0) ** 2
    ok = (ok_t and np.allclose(R @ W @ S, M2, rtol=0, atol=tol * nrm)
          and np.allclose(R @ R.T, np.eye(2), rtol=0, atol=tol) and np.linalg.det(R) > 0
          and np.allclose(np.diag(W), 1, rtol=0, atol=tol) and abs(W[1, 0]) <= tol
          and abs(S[0, 1]) <= tol * nrm and abs(S[1, 0]) <= tol * nrm)
    _mon.check(bool(ok), "decompose_rws", lambda: {"A": M2, "R": R, "W": W, "S": S, "tol": tol}, key="decompose_rws-contract",
               cls="affine" if isinstance(A, Affine) else "ndarray", sig=hsig("rws", *M2.ravel().tolist()),
               sample={"A": M2.tolist()})


def post_affine_from_pts(args, kw, res, exc, snap):
    X, Y = args
    if len(X) < 3:
        return _mon.skip("affine_from_pts", "fewer than 3 points")
    xs = np.array([p.xy for p in X], dtype="float64")
    ys = np.array([p.xy for p in Y], dtype="float64")
    # judged only when Y is (numerically) an affine image of X and X is in general position
    G = np.hstack([xs, np.ones((len(xs), 1))])
    sv = np.linalg.svd(G - G.mean(axis=0) * [1, 1, 0], compute_uv=False)
    if sv[1] < 1e-6 * max(sv[0], 1e-300):
        return _mon.skip("affine_from_pts", "collinear")
    mm, resid, *_ = np.linalg.lstsq(G, ys, rcond=None)
    scale = max(np.abs(ys).max(), np.abs(ys - ys.mean(axis=0)).max(), 1e-300)
    fit_err = np.abs(G @ mm - ys).max()
    if fit_err > 1e-9 * scale:
        return _mon.skip("affine_from_pts", "not an affine relation")
    if exc is not None:
        return _mon.fail("affine_from_pts", {"X": xs, "Y": ys, "exc": exc}, key="affine_from_pts-raises")
    got = np.array([res * tuple(p) for p in xs])
    err = np.abs(got - ys).max()
    _mon.check(err <= 1e-7 * scale, "affine_from_pts", lambda: {"X": xs, "Y": ys, "A": _aff6(res), "err": err, "scale": scale},
               key="affine_from_pts-contract", cls=f"n={min(len(X), 5)}", sig=hsig("afp", xs.tobytes(), ys.tobytes()),
               sample={"n": len(X), "A": _aff6(res)})


def post_affine_from_axis(args, kw, res, exc, snap):
    xx, yy = np.asarray(args[0], dtype="float64"), np.asarray(args[1], dtype="float64")
    fb = args[2] if len(args) > 2 else kw.get("fallback_resolution")
    if xx.size < 1 or yy.size < 1 or ((xx.size < 2 or yy.size < 2) and fb is None):
        return _mon.check(isinstance(exc, ValueError), "affine_from_axis", {"nx": xx.size, "ny": yy.size, "exc": exc, "res": res},
                          key="affine_from_axis-no-error", cls="invalid")
    for v in (xx, yy):
        if v.size >= 3:
            d = np.diff(v)
            if np.abs(d - d.mean()).max() > 1e-9 * max(abs(d.mean()), 1e-300) * v.size:
                return _mon.skip("affine_from_axis", "irregular labels")
    if exc is not None:
        return _mon.fail("affine_from_axis", {"xx": xx, "yy": yy, "exc": exc}, key="affine_from_axis-raises")
    ix, iy = np.arange(xx.size) + 0.5, np.arange(yy.size) + 0.5
    gx = res.a * ix + res.c
    gy = res.e * iy + res.f
    sx = max(np.abs(xx).max(), abs(res.a) * xx.size)
    sy = max(np.abs(yy).max(), abs(res.e) * yy.size)
    ok = res.b == 0 and res.d == 0 and np.abs(gx - xx).max() <= 1e-9 * sx and np.abs(gy - yy).max() <= 1e-9 * sy
    _mon.check(bool(ok), "affine_from_axis", lambda: {"xx": xx, "yy": yy, "A": _aff6(res)}, key="affine_from_axis-contract",
               cls=("single" if min(xx.size, yy.size) < 2 else "multi") + ("|fallback-given" if fb is not None else ""), sig=hsig("afa", xx.tobytes(), yy.tobytes(), repr(fb)),
               sample={"xx": xx[:3].tolist(), "yy": yy[:3].tolist(), "A": _aff6(res)})


def post_bin(args, kw, res, exc, snap):
    b, x = args
    if not math.isfinite(x):
        return _mon.skip("Bin1D.bin", "nonfinite")
    if exc is not None:
        return _mon.fail("Bin1D.bin", {"sz": b.sz, "origin": b.origin, "dir": b.direction, "x": x, "exc": exc}, key="bin-raises")
    lo, hi = b[res]
    eps = 1e-9 * max(1.0, abs(x), abs(b.origin))
    # the interval of bin i, per the class doc: left edge of bin 0 at origin, index grows in `direction`
    want_lo = b.origin + res * b.sz * b.direction
    ok = isinstance(res, int) and lo - eps <= x < hi + eps and abs(lo - want_lo) <= eps and abs((hi - lo) - b.sz) <= eps
    exact = all(float(v).is_integer() and abs(v) < 2**40 for v in (b.sz, b.origin, x))
    if ok and exact:
        # whole-number size, origin and point: every quantity involved is exact in floating point, so there is no round-off to forgive - a point on a bin's closed
        # left edge belongs to that bin, not to its neighbour
        ok = lo <= x < hi
        if not ok:
            return _mon.fail("Bin1D.bin", {"sz": b.sz, "origin": b.origin, "dir": b.direction, "x": x, "idx": res, "interval": [lo, hi], "why": "exact edge assigned to the neighbouring bin"}, key="bin-contract", cls=f"dir{b.direction:+d}|exact")
        _mon.ok("Bin1D.bin", cls=f"dir{b.direction:+d}|exact")
    _mon.check(ok, "Bin1D.bin", {"sz": b.sz, "origin": b.origin, "dir": b.direction, "x": x, "idx": res, "interval": [lo, hi]},
               key="bin-contract", cls=f"dir{b.direction:+d}", sig=hsig("bin", b.sz, b.origin, b.direction, x),
               sample={"sz": b.sz, "origin": b.origin, "dir": b.direction, "x": x, "idx": res})


def post_from_sample_bin(args, kw, res, exc, snap):
    idx, bn = args[0], args[1]
    d = args[2] if len(args) > 2 else kw.get("direction", 1)
    if not bn[0] < bn[1]:
        return _mon.skip("Bin1D.from_sample_bin", "precondition")
    if exc is not None:
        return _mon.fail("Bin1D.from_sample_bin", {"idx": idx, "bin": bn, "dir": d, "exc": exc}, key="from_sample_bin-raises")
    lo, hi = res[idx]
    sz = bn[1] - bn[0]
    eps = 1e-9 * max(1.0, abs(bn[0]), abs(bn[1]), abs(idx) * sz)
    ok = abs(lo - bn[0]) <= eps and abs(hi - bn[1]) <= eps and res.direction == d
    # the mid point of the sample bin is binned back to idx
    ok = ok and type(res).bin.__vf_original__(res, 0.5 * (bn[0] + bn[1])) == idx if hasattr(type(res).bin, "__vf_original__") else ok
    _mon.check(ok, "Bin1D.from_sample_bin", {"idx": idx, "bin": bn, "dir": d, "got": [lo, hi]}, key="from_sample_bin-contract",
               cls=f"dir{d:+d}", sig=hsig("fsb", idx, bn[0], bn[1], d), sample={"idx": idx, "bin": list(bn), "dir": d})


def post_resolution_from_affine(args, kw, res, exc, snap):
    A = args[0]
    a, b, c, d, e, f = _aff6(A)
    det = a * e - b * d
    if not all(map(math.isfinite, (a, b, d, e))) or abs(det) < 1e-12 * max(a * a + d * d, b * b + e * e, 1e-300):
        return _mon.skip("resolution_from_affine", "singular")
    if exc is not None:
        return _mon.fail("resolution_from_affine", {"A": _aff6(A), "exc": exc}, key="resolution_from_affine-raises")
    rx, ry = res.x, res.y
    n = math.hypot(a, d)
    ok = abs(abs(rx) - n) <= 1e-9 * n and abs(rx * ry - det) <= 1e-9 * abs(det)
    _mon.check(ok, "resolution_from_affine", {"A": _aff6(A), "res": [rx, ry]}, key="resolution_from_affine-contract",
               cls="st" if (abs(b) < 1e-10 and abs(d) < 1e-10) else "rotated", sig=hsig("rfa", a, b, d, e))


def post_apply_affine(args, kw, res, exc, snap):
    A, x, y = args
    if exc is not None:
        return _mon.fail("apply_affine", {"A": _aff6(A), "exc": exc}, key="apply_affine-raises")
    a, b, c, d, e, f = _aff6(A)
    wx, wy = a * x + b * y + c, d * x + e * y + f
    s = max(1.0, float(np.abs(wx).max(initial=0)), float(np.abs(wy).max(initial=0)))
    eps = 1e-9 if (np.asarray(x).dtype.itemsize >= 8 and np.asarray(y).dtype.itemsize >= 8) else 1e-5  # float32 inputs
    ok = res[0].shape == x.shape and np.allclose(res[0], wx, rtol=0, atol=eps * s, equal_nan=True) and np.allclose(res[1], wy, rtol=0, atol=eps * s, equal_nan=True)
    _mon.check(bool(ok), "apply_affine", lambda: {"A": _aff6(A), "shape": x.shape}, key="apply_affine-contract")


def post_poly_fit(args, kw, res, exc, snap):
    aa, bb = np.asarray(args[0], dtype="float64"), np.asarray(args[1], dtype="float64")
    N = aa.shape[0]
    if N < 3:
        return _mon.check(isinstance(exc, ValueError), "Poly2d.fit", {"N": N, "exc": exc}, key="poly-fit-no-error", cls="too-few")
    # Which family is exactly representable for this branch?  3: affine, 4..8: bilinear, >=9: biquadratic
    x, y = (aa - aa.mean(axis=0)).T / max(np.abs(aa - aa.mean(axis=0)).max(), 1e-300)
    if N >= 9:
        cols = [x**i * y**j for i in range(3) for j in range(3)]
    elif N >= 4:
        cols = [np.ones_like(x), x, y, x * y]
    else:
        cols = [np.ones_like(x), x, y]
    G = np.stack(cols, axis=1)
    sv = np.linalg.svd(G, compute_uv=False)
    if sv[-1] < 1e-5 * sv[0]:
        return _mon.skip("Poly2d.fit", "degenerate point set")
    cc, *_ = np.linalg.lstsq(G, bb, rcond=None)
    scale = max(np.abs(bb - bb.mean(axis=0)).max(), np.abs(bb).max() * 1e-3, 1e-300)
    if np.abs(G @ cc - bb).max() > 1e-9 * scale:
        return _mon.skip("Poly2d.fit", "not exactly representable")
    if exc is not None:
        return _mon.fail("Poly2d.fit", {"N": N, "exc": exc, "aa": aa, "bb": bb}, key="poly-fit-raises")
    got = res(aa)
    err = np.abs(got - bb).max()
    cond = sv[0] / sv[-1]
    _mon.check(err <= 1e-10 * cond * scale + 1e-9 * scale, "Poly2d.fit", lambda: {"N": N, "err": err, "scale": scale, "cond": cond, "aa": aa, "bb": bb},
               key="poly-fit-contract", cls="biquadratic" if N >= 9 else "bilinear" if N >= 4 else "affine",
               sig=hsig("pf", aa.tobytes(), bb.tobytes()), sample={"N": N, "aa": aa[:3].tolist(), "bb": bb[:3].tolist()})


def post_with_input_transform(args, kw, res, exc, snap):
    p, A = args
    if exc is not None:
        return _mon.fail("Poly2d.with_input_transform", {"A": _aff6(A), "exc": exc}, key="poly-wit-raises")
    rng = np.random.default_rng(12345)
    pts = rng.uniform(-50, 50, size=(16, 2))
    a, b, c, d, e, f = _aff6(A)
    mapped = np.stack([a * pts[:, 0] + b * pts[:, 1] + c, d * pts[:, 0] + e * pts[:, 1] + f], axis=1)
    want = p(mapped)
    got = res(pts)
    s = max(1.0, float(np.abs(want).max()))
    _mon.check(bool(np.allclose(got, want, rtol=0, atol=1e-8 * s)), "Poly2d.with_input_transform",
               lambda: {"A": _aff6(A), "max_err": float(np.abs(got - want).max())}, key="poly-wit-contract",
               cls="st" if (abs(b) < 1e-6 and abs(d) < 1e-6) else "rotated", sig=hsig("wit", *_aff6(A)))


def install(mon: Monitor) -> None:
    global _mon
    _mon = mon
    from odc.geo import math as M

    for name, post in [("split_float", post_split_float), ("maybe_int", post_maybe_int), ("is_almost_int", post_is_almost_int),
                       ("snap_scale", post_snap_scale), ("align_down", post_align_down), ("align_up", post_align_up),
                       ("align_up_pow2", post_align_up_pow2), ("align_down_pow2", post_align_down_pow2),
                       ("snap_grid", post_snap_grid), ("snap_affine", post_snap_affine), ("decompose_rws", post_decompose_rws),
                       ("affine_from_pts", post_affine_from_pts), ("affine_from_axis", post_affine_from_axis),
                       ("resolution_from_affine", post_resolution_from_affine), ("apply_affine", post_apply_affine)]:
        attach(M, name, post=post, on_error=_err, label=name)
    attach(M.Bin1D, "bin", post=post_bin, on_error=_err, label="Bin1D.bin")
    attach(M.Bin1D, "from_sample_bin", post=post_from_sample_bin, on_error=_err, label="Bin1D.from_sample_bin")
    attach(M.Poly2d, "fit", post=post_poly_fit, on_error=_err, label="Poly2d.fit")
    attach(M.Poly2d, "with_input_transform", post=post_with_input_transform, on_error=_err, label="Poly2d.with_input_transform")


# --------------------------------------------------------------------------- workloads
TOLS = (1e-6, 1e-3, 0.01, 0.05, 1e-8)


def near_int_values(rng: random.Random, tol: float):
    k = rng.choice([0, 1, -1, 2, -3, 7, 100, -1000, 12345, 10**6, -(10**7)])
    off = rng.choice([0.0, tol * 0.9, -tol * 0.9, tol * 1.1, -tol * 1.1, tol * 0.5, 0.5, -0.5, 0.5 + 1e-12, 0.5 - 1e-12,
                      -0.5 - 1e-12, -0.5 + 1e-12, 0.25, 1e-9, -1e-9, rng.uniform(-0.5, 0.5)])
    return k + off


def drive_scalar(mon: Monitor, rng: random.Random, n: int) -> None:
    from odc.geo import math as M

    for _ in range(n):
        tol = rng.choice(TOLS)
        x = rng.choice([near_int_values(rng, tol), rng.uniform(-1e7, 1e7), rng.uniform(-3, 3), float(rng.randint(-50, 50))])
        M.split_float(x)
        M.maybe_int(x, tol)
        M.is_almost_int(x, tol)
        # scales: integers, fractions 1/n, both signs, near misses
        n_ = rng.randint(1, 12)
        e = rng.choice([0, tol * 0.5, -tol * 0.5, tol * 2, -tol * 2, tol * 0.9, -tol * 1.1])
        s = rng.choice([n_ + e, -(n_ + e), 1 / (n_ + e), -1 / (n_ + e), rng.uniform(-4, 4), e * 0.1, 1 - tol * 0.5, 1 - 2 * tol])
        M.snap_scale(s, tol)
    for x in (math.inf, -math.inf, math.nan):
        M.split_float(x), M.maybe_int(x, 1e-3), M.is_almost_int(x, 1e-3)


def drive_align(mon: Monitor, rng: random.Random, exhaustive_to: int, n_rand: int) -> None:
    from odc.geo import math as M

    for x in range(-exhaustive_to, 2 * exhaustive_to):
        for a in range(1, 65):
            M.align_down(x, a), M.align_up(x, a)
    for _ in range(n_rand):
        x, a = rng.randint(-(10**9), 10**9), rng.randint(1, 4096)
        M.align_down(x, a), M.align_up(x, a)
    xs = list(range(-2, 5000 if exhaustive_to >= 64 else 600)) + [2**k + d for k in range(1, 41) for d in (-1, 0, 1)]
    for x in xs:
        if x <= 2**40:
            M.align_up_pow2(x), M.align_down_pow2(x)
    arr = np.array([-5, 0, 1, 15, 16, 17, 1000], dtype="int64")
    for a in (1, 4, 16, 7):
        M.align_down(arr, a), M.align_up(arr, a)


def drive_snap_grid(mon: Monitor, rng: random.Random, n: int) -> None:
    from odc.geo import math as M

    for _ in range(n):
        r = rng.choice([1, 10, 0.5, 30, 0.1, 1 / 3, 25, 1e-3, 0.00025, 1000]) * rng.choice([1, -1])
        a = abs(r)
        mag = rng.choice([1, 1e3, 1e6, 1e7])
        x0 = rng.uniform(-mag, mag)
        tol = rng.choice([1e-6, 0.01, 1e-3, 0.05])
        off = rng.choice([0, 0.5, None, 0.25, rng.random() * 0.999])
        if rng.random() < 0.5:
            x0 = (round(x0 / a) + (off or 0)) * a + rng.choice([0, 1e-9, -1e-9, 0.5 * tol, -0.5 * tol, 2 * tol, -2 * tol, 0.5]) * a
        span = rng.choice([0, rng.uniform(0, 5) * a, rng.randint(0, 50) * a, rng.uniform(0, 1e4) * a,
                           rng.randint(1, 50) * a + rng.choice([0.5, -0.5, 2, -2]) * tol * a])
        x1 = x0 + max(span, 0)
        M.snap_grid(x0, x1, r, off, tol)


def drive_affine(mon: Monitor, rng: random.Random, n: int) -> None:
    from odc.geo import math as M
    from odc.geo import xy_

    for _ in range(n):
        ttol, stol = rng.choice([1e-3, 0.05, 0.01]), rng.choice([1e-6, 1e-4])
        k = rng.randint(1, 5)
        sx = rng.choice([k, -k, 1 / k, k + stol * 0.5, k - stol * 2, rng.uniform(-4, 4) or 1.0])
        sy = rng.choice([k, -k, 1 / k, -1 / k + stol * 0.1, rng.uniform(-4, 4) or 1.0])
        tx = rng.randint(-100, 100) + rng.choice([0, 0.5 * ttol, -0.5 * ttol, 2 * ttol, 0.5, rng.random()])
        ty = rng.randint(-100, 100) + rng.choice([0, 0.2 * ttol, -0.8 * ttol, -3 * ttol, 0.25, rng.random()])
        rot = rng.choice([0, 0, 0, 1e-12, 1e-9, 1e-3, 0.3])
        A = Affine(sx, rot, tx, -rot * rng.choice([1, 0, -1]), sy, ty)
        M.snap_affine(A, ttol=ttol, stol=stol)
        M.snap_affine(A)
        # decomposition
        m = np.array([[rng.uniform(-5, 5) for _ in range(2)] for _ in range(2)])
        if rng.random() < 0.3:
            ang = rng.uniform(0, 2 * math.pi)
            m = np.array([[math.cos(ang), -math.sin(ang)], [math.sin(ang), math.cos(ang)]]) @ np.diag([rng.choice([10, -10, 30, 0.001]), rng.choice([10, -10, -30, 0.001])])
        if abs(np.linalg.det(m)) >= 1e-3 * max(1e-6, np.linalg.norm(m, 2) ** 2):
            M.decompose_rws(m.copy())
            Af = Affine(m[0, 0], m[0, 1], rng.uniform(-1e6, 1e6), m[1, 0], m[1, 1], rng.uniform(-1e6, 1e6))
            M.decompose_rws(Af)
            M.resolution_from_affine(Af)
        # affine from points
        npts = rng.choice([3, 3, 4, 5, 8, 20])
        B = Affine(rng.uniform(-30, 30), rng.uniform(-3, 3), rng.uniform(-1e6, 1e6), rng.uniform(-3, 3), rng.uniform(-30, 30) or 1, rng.uniform(-1e6, 1e6))
        pts = [(rng.uniform(0, 1000), rng.uniform(0, 1000)) for _ in range(npts)]
        X = [xy_(*p) for p in pts]
        Y = [xy_(*(B * p)) for p in pts]
        M.affine_from_pts(X, Y)
        xs = np.array(pts)
        M.apply_affine(B, xs[:, 0], xs[:, 1])


def drive_axis_bins(mon: Monitor, rng: random.Random, n: int) -> None:
    from odc.geo import math as M

    for _ in range(n):
        nx, ny = rng.choice([1, 2, 3, 10, 100]), rng.choice([1, 2, 5, 64])
        rx = rng.choice([1, 10, 0.5, 0.25, 30, 0.01, 1 / 3]) * rng.choice([1, -1])
        ry = rng.choice([1, 10, 0.5, 0.25, 30, 0.01, 1 / 3]) * rng.choice([1, -1])
        x0, y0 = rng.uniform(-1e6, 1e6), rng.uniform(-1e6, 1e6)
        xx = x0 + (np.arange(nx) + 0.5) * rx
        yy = y0 + (np.arange(ny) + 0.5) * ry
        fb = None
        if nx < 2 or ny < 2:
            from odc.geo import resxy_

            fb = resxy_(rx, ry) if rng.random() < 0.8 else None
        if rng.random() < 0.4:
            # a fallback that disagrees with the labels (stale metadata, other sign, non-square pixels): only axes with a single label may use it
            from odc.geo import res_, resxy_

            fb = rng.choice([resxy_(rx * 2, ry), resxy_(rx, -ry), resxy_(-rx, ry * 3), res_(abs(rx)), resxy_(ry, rx)])
        try:
            M.affine_from_axis(xx, yy, fb)
        except ValueError:
            pass
        sz = rng.choice([1, 10, 0.5, 100000, 1 / 3, 96000.0])
        org = rng.choice([0, rng.uniform(-1e6, 1e6), -sz * 3])
        d = rng.choice([1, -1])
        b = M.Bin1D(sz, org, d)
        for x in (rng.uniform(-1e7, 1e7), org, org + sz * rng.randint(-20, 20), org + sz * (rng.randint(-20, 20) + 0.5), org - 1e-9):
            b.bin(x)
        # whole-number grids (tile sizes in metres): every bin edge within +-12 bins of the origin, exactly
        szi = rng.choice([100000, 50000, 49, 3, 7, 10, 30, 60, 1000, 96000, 3600, 2560, 25])
        bi = M.Bin1D(szi, rng.choice([0, 0, -3 * szi, 7, 2000000, -1500000]), d)
        for kk_ in range(-12, 13):
            bi.bin(float(bi.origin + kk_ * szi) if rng.random() < 0.5 else bi.origin + kk_ * szi)
        j = rng.randint(-50, 50)
        b2 = M.Bin1D.from_sample_bin(j, b[j], d)
        for kk in (j, j + 1, j - 7, 0):
            lo, hi = b[kk]
            lo2, hi2 = b2[kk]
            eps = 1e-9 * max(1.0, abs(org), abs(kk) * sz, abs(j) * sz)
            mon.check(abs(lo - lo2) <= eps and abs(hi - hi2) <= eps, "Bin1D.roundtrip", {"sz": sz, "origin": org, "dir": d, "j": j, "k": kk,
                      "orig": [lo, hi], "rebuilt": [lo2, hi2]}, key="bin-roundtrip")


def drive_poly(mon: Monitor, rng: random.Random, n: int) -> None:
    from odc.geo import math as M

    nprng = np.random.default_rng(rng.randint(0, 2**31))
    for _ in range(n):
        N = rng.choice([3, 4, 5, 8, 9, 12, 25])
        if N >= 9:
            g = int(math.ceil(math.sqrt(N)))
            gx, gy = np.meshgrid(np.linspace(0, 1000, g), np.linspace(0, 800, g))
            aa = np.stack([gx.ravel(), gy.ravel()], axis=1)[:N] + nprng.uniform(-20, 20, size=(N, 2))
            if N == 9:
                aa = np.stack([gx.ravel(), gy.ravel()], axis=1) + nprng.uniform(-20, 20, size=(9, 2))
        else:
            base = np.array([[0, 0], [1000, 0], [0, 800], [1000, 800], [500, 300], [200, 700], [800, 100], [100, 400]], dtype="float64")
            aa = base[:N] + nprng.uniform(-30, 30, size=(N, 2))
        x, y = ((aa - [500, 400]) / 500).T
        c = nprng.uniform(-1, 1, size=(3, 3, 2))
        c[1, 0] += (3, 0)
        c[0, 1] += (0, 3)
        if N < 9:
            c[2, :, :] = 0
            c[:, 2, :] = 0
        if N < 4:
            c[1, 1, :] = 0
        off = np.array([rng.choice([0, 1e5, -3e6]), rng.choice([0, 5e6])])
        sc = rng.choice([1, 100, 1e4])
        bb = sum(c[i, j][None, :] * (x**i * y**j)[:, None] for i in range(3) for j in range(3)) * sc + off
        try:
            p = M.Poly2d.fit(aa.copy(), bb.copy())
        except Exception:
            continue
        # held-out points inside the hull: the fitted polynomial is the generating one
        q = nprng.uniform(100, 700, size=(8, 2))
        qx, qy = ((q - [500, 400]) / 500).T
        want = sum(c[i, j][None, :] * (qx**i * qy**j)[:, None] for i in range(3) for j in range(3)) * sc + off
        got = p(q)
        mon.check(bool(np.abs(got - want).max() <= 1e-6 * sc * 10), "Poly2d.heldout",
                  lambda: {"N": N, "err": float(np.abs(got - want).max()), "scale": sc}, key="poly-heldout",
                  cls="biquadratic" if N >= 9 else "bilinear" if N >= 4 else "affine")
        A = Affine(rng.uniform(0.5, 2), rng.choice([0, 0, 0.2]), rng.uniform(-10, 10), rng.choice([0, 0, -0.1]), rng.uniform(0.5, 2), rng.uniform(-10, 10))
        p1 = p.with_input_transform(A)
        # views of views: crop then zoom then rotate - each step is judged against the polynomial it was applied to (post_with_input_transform), so the order of composition matters
        A2 = Affine.translation(rng.uniform(-20, 20), rng.uniform(-20, 20)) * Affine.scale(rng.choice([2, 0.5, 3, 1.5]), rng.choice([2, 0.25, 1]))
        A3 = Affine.rotation(rng.choice([90, 30, -45, 180])) * Affine.translation(rng.uniform(-5, 5), 0)
        try:
            p2 = p1.with_input_transform(A2)
            p2.with_input_transform(A3)
            p1.with_input_transform(A3).with_input_transform(A2)
            mon.obs["poly2d_input_transform_chains"] += 2
        except Exception:
            pass
    # regular grids: one control point sits exactly at the centroid (centre of an odd x odd grid, centre of a quincunx)
    for gx_, gy_ in ((3, 3), (5, 5), (3, 5), (7, 3)):
        xs, ys = np.meshgrid(np.linspace(0, 100 * (gx_ - 1), gx_), np.linspace(0, 80 * (gy_ - 1), gy_))
        aa = np.stack([xs.ravel(), ys.ravel()], axis=1)
        for dtype in ("float64", "int64"):
            bb = np.stack([100 + 0.1 * aa[:, 0] + 0.01 * aa[:, 1], -30 - 0.1 * aa[:, 1]], axis=1)
            try:
                p = M.Poly2d.fit(aa.astype(dtype), bb.copy())
                q = np.array([[12.5, 7.0], [150.0, 33.0]])
                want = np.stack([100 + 0.1 * q[:, 0] + 0.01 * q[:, 1], -30 - 0.1 * q[:, 1]], axis=1)
                got = p(q)
                mon.check(bool(np.isfinite(got).all() and np.abs(got - want).max() <= 1e-8), "Poly2d.heldout", lambda: {"grid": [gx_, gy_], "dtype": dtype, "got": got, "want": want},
                          key="poly-centroid-point", cls="regular-grid")
            except Exception as e:
                mon.fail("Poly2d.heldout", {"grid": [gx_, gy_], "dtype": dtype, "exc": e}, key="poly-centroid-point", cls="regular-grid")
    quincunx = np.array([[0, 0], [100, 0], [0, 80], [100, 80], [50, 40]], dtype="float64")
    try:
        bb = np.stack([5 + 2 * quincunx[:, 0], 7 - 3 * quincunx[:, 1]], axis=1)
        p = M.Poly2d.fit(quincunx.copy(), bb)
        got = p(np.array([[10.0, 10.0]]))
        mon.check(bool(np.abs(got - [[25.0, -23.0]]).max() <= 1e-8), "Poly2d.heldout", lambda: {"points": "quincunx", "got": got}, key="poly-centroid-point", cls="regular-grid")
    except Exception as e:
        mon.fail("Poly2d.heldout", {"points": "quincunx", "exc": e}, key="poly-centroid-point", cls="regular-grid")
    for N in (0, 1, 2):
        try:
            M.Poly2d.fit(np.zeros((N, 2)), np.zeros((N, 2)))
        except ValueError:
            pass
        except Exception:
            pass


def drive_indirect(mon: Monitor, rng: random.Random, n: int) -> None:
    """Library operations that call the helpers internally (monitors fire inside)."""
    from odc.geo.geobox import GeoBox
    from odc.geo.geom import BoundingBox
    from odc.geo.gridspec import GridSpec
    from odc.geo.overlap import compute_reproject_roi
    from odc.geo.gcp import GCPGeoBox, GCPMapping
    from odc.geo import xy_, wh_

    before = dict(calls)
    for _ in range(n):
        r = rng.choice([10, 30, 0.5, 100])
        x0, y0 = rng.uniform(-1e6, 1e6), rng.uniform(-1e6, 1e6)
        w, h = rng.uniform(1, 200) * r, rng.uniform(1, 200) * r
        try:
            g = GeoBox.from_bbox(BoundingBox(x0, y0, x0 + w, y0 + h, "epsg:3857"), resolution=r,
                                 anchor=rng.choice(["edge", "center", "floating"]), tol=rng.choice([0.01, 1e-3]))
            g2 = g.zoom_out(rng.choice([2, 3, 1.5]))[1:, 1:]
            compute_reproject_roi(g, g2)
            compute_reproject_roi(g, g.translate_pix(rng.randint(-5, 5), rng.randint(-5, 5)))
            gs = GridSpec("epsg:3857", (rng.choice([100, 256]), rng.choice([100, 256])), r, origin=xy_(rng.choice([0, -1000.0]), rng.choice([0, 500.0])))
            gs.pt2idx(x0, y0)
            list(gs.tiles(g.boundingbox))
            GridSpec.from_sample_tile(g.extent, shape=g.shape, idx=(rng.randint(-5, 5), rng.randint(-5, 5)), flipy=rng.random() < 0.5)
            _ = g.resolution, g.rotate(rng.uniform(-40, 40)).resolution
        except Exception as e:
            mon.error("indirect", e)
    # GCP fit path
    try:
        pix = [xy_(x, y) for x in (0, 50, 100) for y in (0, 40, 80)]
        wld = [xy_(100 + 0.1 * p.x, -30 - 0.1 * p.y) for p in pix]
        GCPGeoBox(wh_(100, 80), GCPMapping(pix, wld, "epsg:4326"))[10:50, 20:90]
    except Exception as e:
        mon.error("indirect-gcp", e)
    mon.notes["indirect_calls"] = {k: calls[k] - before.get(k, 0) for k in calls if calls[k] - before.get(k, 0) > 0}


def run(mon: Monitor, tier: str, seed: int, shard: int, nshards: int) -> None:
    install(mon)
    try:
        rng = random.Random(seed * 1000 + shard)
        if tier == "quick":
            N = dict(scalar=30000, align_ex=40, align_r=3000, grid=30000, aff=4000, axis=4000, poly=600, ind=60)
        else:
            N = dict(scalar=200000, align_ex=(200 if shard == 0 else 40), align_r=20000, grid=200000, aff=25000, axis=25000, poly=4000, ind=300)
        drive_scalar(mon, rng, N["scalar"])
        drive_align(mon, rng, N["align_ex"], N["align_r"])
        drive_snap_grid(mon, rng, N["grid"])
        drive_affine(mon, rng, N["aff"])
        drive_axis_bins(mon, rng, N["axis"])
        drive_poly(mon, rng, N["poly"])
        drive_indirect(mon, rng, N["ind"])
        for pt, n in [("split_float", 1000), ("maybe_int", 1000), ("is_almost_int", 1000), ("snap_scale", 1000), ("align_down", 1000),
                      ("align_up", 1000), ("align_up_pow2", 100), ("align_down_pow2", 100), ("snap_grid", 1000), ("snap_affine", 500),
                      ("decompose_rws", 500), ("affine_from_pts", 500), ("affine_from_axis", 500), ("affine_from_axis|multi|fallback-given", 50), ("affine_from_axis|single|fallback-given", 50), ("Bin1D.bin", 1000),
                      ("Bin1D.from_sample_bin", 500), ("Poly2d.fit", 100), ("Poly2d.with_input_transform", 100), ("Poly2d.heldout", 100),
                      ("snap_grid|edge+", 50), ("snap_grid|edge-", 50), ("snap_grid|centre+", 50), ("snap_grid|centre-", 50),
                      ("snap_grid|float+", 50), ("snap_grid|float-", 50), ("snap_grid|fraction+", 50),
                      ("snap_scale|int", 50), ("snap_scale|1/int", 50), ("snap_scale|pass", 50),
                      ("Poly2d.fit|affine", 20), ("Poly2d.heldout|regular-grid", 9), ("Poly2d.fit|bilinear", 20), ("Poly2d.fit|biquadratic", 20),
                      ("Bin1D.bin|dir+1", 100), ("Bin1D.bin|dir-1", 100)]:
            mon.floor(pt, n)
    finally:
        detach_all()


def replay(mon: Monitor, case) -> None:
    from ..attach import replay_call

    install(mon)
    try:
        if not replay_call(case):
            mon.error("replay", "case is not a recorded call")
    finally:
        detach_all()
