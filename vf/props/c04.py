"""C04 - tilings are exact partitions; blocks reassemble the mosaic.

Oracle: brute force on a counting array (every pixel painted exactly once), plain numpy mosaics for the
BlockAssembler.  Besides the tilings the driver constructs, every Tiles / VariableSizedTiles instance
created *inside* library code during the run (GeoboxTiles, crop, clip, roi_tiles) is recorded by an
__init__ hook and validated with the same model (invariant at a hook).
"""
from __future__ import annotations

import itertools
import random

import numpy as np
from affine import Affine

from ..attach import attach, detach_all
from ..kernel import Monitor, call, hsig

PID = "C04"
RULE = ("1-D exhaustive: every (N<=NMAX, tile<=NMAX+10) regular tiling and every composition of totals<=CMAX as variable tiling "
        "(2-D objects are built as products of two 1-D cases), seeded 2-D crops/clips/selections, seeded block mosaics "
        "(subsets of present blocks x windows x dtypes x fill x axis position); distinct = distinct (tiling parameters | mosaic case) "
        "with at least one pixel")
ASSUMPTIONS = ["numpy indexing/assignment as reference mosaic", "an N-D assembler without any block cannot know its extra axes: judged for 2-D only"]
SHARDS = {"quick": 1, "thorough": 8}

_mon: Monitor = None  # type: ignore
_recorded = []


def _err(label, e):
    _mon.error(label, e)


def _sl(s):
    return [s.start, s.stop] if isinstance(s, slice) else s


# --------------------------------------------------------------------------- model check of one tiling object
def model_offsets_regular(N: int, t: int):
    n = -(-N // t)
    return [min(i * t, N) for i in range(n + 1)]


def check_tiling(mon: Monitor, T, offs_y, offs_x, label: str, desc, deep: bool = True) -> bool:
    """T must be the tiling whose row/col boundaries are offs_y/offs_x (model computed independently)."""
    NY, NX = offs_y[-1], offs_x[-1]
    ny, nx = len(offs_y) - 1, len(offs_x) - 1
    w = lambda **kw: {"tiling": desc, **kw}
    ok = True
    ok &= mon.check(tuple(T.shape) == (ny, nx), f"{label}.shape", lambda: w(shape=tuple(T.shape), want=(ny, nx)), key="tiles-shape")
    ok &= mon.check(tuple(T.base) == (NY, NX), f"{label}.base", lambda: w(base=tuple(T.base), want=(NY, NX)), key="tiles-base")
    if not ok:
        return False
    want_chunks = (tuple(np.diff(offs_y).tolist()), tuple(np.diff(offs_x).tolist()))
    ch, e = call(lambda: T.chunks)
    if ny > 0 and nx > 0:
        mon.check(e is None and tuple(map(tuple, ch)) == want_chunks, f"{label}.chunks", lambda: w(chunks=ch, want=want_chunks, exc=e), key="tiles-chunks")
    if NY * NX > 40000 or not deep:
        return ok
    paint = np.zeros((NY, NX), dtype="int32")
    bad = None
    for r in range(ny):
        for c in range(nx):
            roi, e = call(T.__getitem__, (r, c))
            want = (slice(offs_y[r], offs_y[r + 1]), slice(offs_x[c], offs_x[c + 1]))
            if e is not None or tuple(map(_sl, roi)) != tuple(map(_sl, want)):
                bad = bad or w(idx=(r, c), got=roi, want=want, exc=e)
                continue
            paint[roi] += 1
            ts, e = call(T.tile_shape, (r, c))
            if e is not None or tuple(ts) != (want[0].stop - want[0].start, want[1].stop - want[1].start):
                bad = bad or w(idx=(r, c), tile_shape=ts, want=want, exc=e)
    mon.check(bad is None, f"{label}.getitem", lambda: bad, key="tiles-region")
    mon.check(bool((paint == 1).all()), f"{label}.partition", lambda: w(uncovered=int((paint == 0).sum()), overlapped=int((paint > 1).sum())), key="tiles-partition")
    # locate is the inverse of region lookup, for every pixel
    bad = None
    for y in range(NY):
        r = int(np.searchsorted(offs_y, y, "right") - 1)
        # skip zero-sized rows: the model row is the one with offs[r] <= y < offs[r+1]
        for x in (range(NX) if NY * NX <= 4096 else sorted(v for v in {0, NX - 1, *offs_x[:-1], *[o - 1 for o in offs_x[1:] if o > 0]} if 0 <= v < NX)):
            c = int(np.searchsorted(offs_x, x, "right") - 1)
            got, e = call(T.locate, (y, x))
            if e is not None or tuple(got) != (r, c):
                bad = bad or w(pix=(y, x), got=got, want=(r, c), exc=e)
    mon.check(bad is None, f"{label}.locate", lambda: bad, key="tiles-locate")
    for p in ((-1, 0), (0, -1), (NY, 0), (0, NX)):
        _, e = call(T.locate, p)
        mon.check(isinstance(e, IndexError), f"{label}.locate-outside", lambda: w(pix=p, exc=e), key="tiles-locate-outside")
    for idx in ((ny, 0), (0, nx)):
        _, e = call(T.__getitem__, idx)
        mon.check(isinstance(e, IndexError), f"{label}.index-outside", lambda: w(idx=idx, exc=e), key="tiles-index-outside")
        _, e = call(T.tile_shape, idx)
        mon.check(isinstance(e, IndexError), f"{label}.index-outside", lambda: w(idx=idx, exc=e, what="tile_shape"), key="tiles-index-outside")
    return ok


def spell(rng: random.Random, a: int, b: int, n: int):
    """One of the equivalent ways of writing the index range [a, b) of an axis with n entries: explicit, open-ended (`:`, `a:`, `:b`), from the end, or a bare integer."""
    opts = [slice(a, b)]
    starts = [a] + ([a - n] if a > 0 else [None, None, 0, -n])
    stops = [b] + ([b - n] if b < n else [None, None, n])
    opts += [slice(rng.choice(starts), rng.choice(stops)) for _ in range(3)]
    if b == a + 1:
        opts += [a, a - n]
    return rng.choice(opts)


def check_crop(mon: Monitor, T, offs_y, offs_x, rng: random.Random, label: str, desc, ncrops: int = 3) -> None:
    """crop / slicing by tile-index ranges / clip_tiles against the model."""
    from odc.geo.roi import clip_tiles

    ny, nx = len(offs_y) - 1, len(offs_x) - 1
    if ny < 1 or nx < 1:
        return
    for _ in range(ncrops):
        r0 = rng.randint(0, ny - 1)
        r1 = rng.randint(r0 + 1, ny)
        c0 = rng.randint(0, nx - 1)
        c1 = rng.randint(c0 + 1, nx)
        roi = (slice(r0, r1), slice(c0, c1))
        if rng.random() < 0.3:
            roi = (slice(r0 - ny, r1 if r1 < ny else None), slice(c0 if rng.random() < 0.5 else (c0 or None), c1))
        elif rng.random() < 0.4:
            roi = (spell(rng, r0, r1, ny), spell(rng, c0, c1, nx))
            if not isinstance(roi[0], slice) and not isinstance(roi[1], slice):
                roi = (slice(r0, r1), roi[1])  # (int, int) addresses one tile, not a range
        w = lambda **kw: {"tiling": desc, "tile_roi": [_sl(s) for s in roi], **kw}
        region, e = call(T.__getitem__, roi)
        want = (slice(offs_y[r0], offs_y[r1]), slice(offs_x[c0], offs_x[c1]))
        mon.check(e is None and tuple(map(_sl, region)) == tuple(map(_sl, want)), f"{label}.getitem-range", lambda: w(got=region, want=want, exc=e), key="tiles-range")
        C, e = call(T.crop, roi)
        if e is not None:
            mon.fail(f"{label}.crop", w(exc=e), key="tiles-crop-raises")
            continue
        oy = [o - offs_y[r0] for o in offs_y[r0:r1 + 1]]
        ox = [o - offs_x[c0] for o in offs_x[c0:c1 + 1]]
        check_tiling(mon, C, oy, ox, f"{label}.crop", {"crop_of": desc, "tile_roi": [_sl(s) for s in roi]})
        # re-based indices: cropped[r,c] + offset == T[r0+r, c0+c]
        bad = None
        for r, c in itertools.product(range(r1 - r0), range(c1 - c0)):
            a, e1 = call(C.__getitem__, (r, c))
            b, e2 = call(T.__getitem__, (r0 + r, c0 + c))
            if e1 or e2 or (a[0].start + offs_y[r0], a[0].stop + offs_y[r0], a[1].start + offs_x[c0], a[1].stop + offs_x[c0]) != (b[0].start, b[0].stop, b[1].start, b[1].stop):
                bad = bad or w(idx=(r, c), cropped=a, original=b, exc=e1 or e2)
        mon.check(bad is None, f"{label}.crop-rebase", lambda: bad, key="tiles-crop-rebase")
        # clip_tiles on a random selection inside the block
        sel = sorted({(rng.randint(r0, r1 - 1), rng.randint(c0, c1 - 1)) for _ in range(rng.randint(1, 5))})
        rng.shuffle(sel)
        res, e = call(clip_tiles, T, sel)
        if e is not None:
            mon.fail(f"{label}.clip_tiles", w(selection=sel, exc=e), key="tiles-clip-raises")
            continue
        C2, roi2, sel_new = res
        ys, xs = [s[0] for s in sel], [s[1] for s in sel]
        want_roi = (slice(min(ys), max(ys) + 1), slice(min(xs), max(xs) + 1))
        ok = tuple(map(_sl, roi2)) == tuple(map(_sl, want_roi)) and list(map(tuple, sel_new)) == [(y - min(ys), x - min(xs)) for y, x in sel]
        if ok:
            for (y, x), (yn, xn) in zip(sel, sel_new):
                a = C2[yn, xn]
                b = T[y, x]
                oy0, ox0 = offs_y[min(ys)], offs_x[min(xs)]
                ok = ok and (a[0].start + oy0, a[0].stop + oy0, a[1].start + ox0, a[1].stop + ox0) == (b[0].start, b[0].stop, b[1].start, b[1].stop)
            ok = ok and tuple(C2.base) == (offs_y[max(ys) + 1] - offs_y[min(ys)], offs_x[max(xs) + 1] - offs_x[min(xs)])
        mon.check(ok, f"{label}.clip_tiles", lambda: w(selection=sel, roi=roi2, new=sel_new), key="tiles-clip")


# --------------------------------------------------------------------------- drivers
def compositions(n: int):
    """All tuples of positive ints summing to n."""
    if n == 0:
        yield ()
        return
    for first in range(1, n + 1):
        for rest in compositions(n - first):
            yield (first, *rest)


def drive_regular(mon: Monitor, rng: random.Random, nmax: int, shard: int, nshards: int) -> None:
    from odc.geo.roi import Tiles, roi_tiles

    cases = [(N, t) for N in range(1, nmax + 1) for t in range(1, nmax + 11)]
    for k, (N, t) in enumerate(cases):
        if k % nshards != shard:
            continue
        rs = rng.getrandbits(48)
        mon.case = {"kind": "regular", "N": N, "t": t, "rs": rs, "nmax": nmax}
        _regular_case(mon, random.Random(rs), N, t, cases)
    mon.case = None


def _regular_case(mon, rng, N, t, cases):
    from odc.geo.roi import Tiles, roi_tiles

    if True:
        N2, t2 = cases[rng.randrange(len(cases))]
        if N * N2 > 20000:
            N2, t2 = rng.randint(1, max(1, 20000 // N)), rng.randint(1, 20)
        as_y = rng.random() < 0.5
        base, tile = ((N, N2), (t, t2)) if as_y else ((N2, N), (t2, t))
        T, e = call(Tiles, base, tile) if rng.random() < 0.7 else call(roi_tiles, base, tile)
        desc = {"kind": "regular", "base": base, "tile": tile}
        if e is not None:
            mon.fail("Tiles.init", {**desc, "exc": e}, key="tiles-init-raises")
            return
        oy, ox = model_offsets_regular(base[0], tile[0]), model_offsets_regular(base[1], tile[1])
        cls = "tile>image" if t > N else "dividing" if N % t == 0 else "ragged"
        cls = "1px-tile" if t == 1 and N > 1 else cls
        mon.ok("Tiles", cls=cls, sig=hsig("T", base, tile), sample=desc)
        check_tiling(mon, T, oy, ox, "Tiles", desc)
        # numpy style negative tile index
        ny, nx = len(oy) - 1, len(ox) - 1
        ts, e = call(T.tile_shape, (-1, -1))
        mon.check(e is None and tuple(ts) == (oy[-1] - oy[-2], ox[-1] - ox[-2]), "Tiles.negative-index", lambda: {**desc, "tile_shape(-1,-1)": ts, "exc": e}, key="tiles-negative-index")
        check_crop(mon, T, oy, ox, rng, "Tiles", desc, ncrops=2)


def drive_variable(mon: Monitor, rng: random.Random, cmax: int, shard: int, nshards: int, n_random: int) -> None:
    from odc.geo.roi import VariableSizedTiles, roi_tiles

    comps = [c for n in range(1, cmax + 1) for c in compositions(n)]
    for k, cy in enumerate(comps):
        if k % nshards != shard:
            continue
        cx = comps[rng.randrange(len(comps))]
        if rng.random() < 0.5:
            cy, cx = cx, cy
        rs = rng.getrandbits(48)
        mon.case = {"kind": "variable", "cy": cy, "cx": cx, "cls": "exhaustive", "rs": rs}
        _one_variable(mon, random.Random(rs), cy, cx, "exhaustive")
    for _ in range(n_random):
        cy = tuple(rng.choice([1, 1, 2, 3, 5, 16, 64, 100, 0]) for _ in range(rng.randint(1, 8)))
        cx = tuple(rng.choice([1, 2, 7, 8, 33, 256, 0]) for _ in range(rng.randint(1, 8)))
        if sum(cy) == 0 or sum(cx) == 0:
            continue
        rs = rng.getrandbits(48)
        cls = "zero-chunks" if (0 in cy or 0 in cx) else "random"
        mon.case = {"kind": "variable", "cy": cy, "cx": cx, "cls": cls, "rs": rs}
        _one_variable(mon, random.Random(rs), cy, cx, cls)
    mon.case = None
    mon.notes["compositions"] = len(comps)


def _one_variable(mon, rng, cy, cx, cls):
    from odc.geo.roi import VariableSizedTiles, roi_tiles

    desc = {"kind": "variable", "chunks": [list(cy), list(cx)]}
    T, e = call(VariableSizedTiles, (cy, cx)) if rng.random() < 0.7 else call(roi_tiles, (sum(cy), sum(cx)), (cy, cx))
    if e is not None:
        return mon.fail("VariableSizedTiles.init", {**desc, "exc": e}, key="tiles-init-raises")
    oy = [0, *np.cumsum(cy).tolist()]
    ox = [0, *np.cumsum(cx).tolist()]
    mon.ok("VariableSizedTiles", cls=cls, sig=hsig("V", cy, cx), sample=desc)
    if cls == "zero-chunks":
        # zero-sized chunks: regions/chunks/partition judged, locate only on the model's owning tile
        check_tiling(mon, T, oy, ox, "VariableSizedTiles.zero", desc)
        return
    check_tiling(mon, T, oy, ox, "VariableSizedTiles", desc)
    check_crop(mon, T, oy, ox, rng, "VariableSizedTiles", desc, ncrops=2)


def drive_geobox_tiles(mon: Monitor, rng: random.Random, count: int) -> None:
    from odc.geo.geobox import GeoBox, GeoboxTiles
    from .. import gen

    for _ in range(count):
        rs = rng.getrandbits(48)
        mon.case = {"kind": "gbt", "rs": rs}
        _gbt_case(mon, random.Random(rs))
    mon.case = None


def _gbt_case(mon, rng):
    from odc.geo.geobox import GeoBox, GeoboxTiles
    from .. import gen

    for _ in range(1):
        gb, fam = gen.geobox(rng, crs=rng.choice(gen.CRS_TAGS), shp=(rng.randint(1, 70), rng.randint(1, 70)))
        NY, NX = gb.shape
        if rng.random() < 0.6:
            tile = (rng.randint(1, NY + 5), rng.randint(1, NX + 5))
            oy, ox = model_offsets_regular(NY, tile[0]), model_offsets_regular(NX, tile[1])
            how = tile
        else:
            def split(n):
                cuts = sorted(rng.sample(range(1, n), min(n - 1, rng.randint(0, 4)))) if n > 1 else []
                return [0, *cuts, n]
            oy, ox = split(NY), split(NX)
            if rng.random() < 0.35:
                # chunk tuples as dask hands them over: regular runs (equal chunks, a shorter last one) and zero-length chunks - at the end, at the start, in the middle
                def regular(n):
                    c = rng.randint(1, max(1, n))
                    return [min(k * c, n) for k in range(-(-n // c) + 1)]
                oy, ox = regular(NY), regular(NX)
                for o in (oy, ox):
                    if rng.random() < 0.5:
                        k = rng.choice([len(o) - 1, len(o) - 1, 0, rng.randrange(len(o))])
                        o.insert(k, o[k])  # an empty chunk at position k (the offsets repeat)
            how = (tuple(np.diff(oy).tolist()), tuple(np.diff(ox).tolist()))
        desc = {"gbox": gen.gbox_desc(gb), "tiles": how, "family": fam}
        gbt, e = call(GeoboxTiles, gb, how)
        if e is not None:
            mon.fail("GeoboxTiles.init", {**desc, "exc": e}, key="gbt-init-raises")
            continue
        ny, nx = len(oy) - 1, len(ox) - 1
        ok = tuple(gbt.shape) == (ny, nx) and gbt.base is gb or gbt.base == gb
        bad = None
        a, b, c, d, e_, f = tuple(gb.affine)[:6]
        for r, cc in itertools.product(range(ny), range(nx)):
            g, ex = call(gbt.__getitem__, (r, cc))
            if ex is not None:
                bad = bad or {"idx": (r, cc), "exc": ex}
                continue
            # independent: parent cropped to the model region (plain arithmetic, no Affine composition)
            x0, y0 = ox[cc], oy[r]
            want_aff = (a, b, a * x0 + b * y0 + c, d, e_, d * x0 + e_ * y0 + f)
            got_aff = tuple(g.affine)[:6]
            scale = max(1.0, abs(want_aff[2]), abs(want_aff[5]))
            same = tuple(g.shape) == (oy[r + 1] - oy[r], ox[cc + 1] - ox[cc]) and g.crs == gb.crs and all(abs(p - q) <= 1e-9 * scale for p, q in zip(got_aff, want_aff))
            same = same and g == gb[oy[r]:oy[r + 1], ox[cc]:ox[cc + 1]]
            cs, ex2 = call(gbt.chunk_shape, (r, cc))
            same = same and ex2 is None and tuple(cs) == tuple(g.shape)
            if not same:
                bad = bad or {"idx": (r, cc), "got": gen.gbox_desc(g), "want_affine": want_aff, "chunk_shape": cs}
        mon.check(ok and bad is None, "GeoboxTiles.getitem", lambda: {**desc, **(bad or {}), "shape": tuple(gbt.shape)}, key="gbt-tile",
                  cls=fam, sig=hsig("G", gen.aff6(gb.affine), tuple(gb.shape), how), sample=desc)
        ch, ex = call(lambda: gbt.chunks)
        mon.check(ex is None and tuple(map(tuple, ch)) == (tuple(np.diff(oy).tolist()), tuple(np.diff(ox).tolist())), "GeoboxTiles.chunks", lambda: {**desc, "chunks": ch, "exc": ex}, key="gbt-chunks")
        # crop / clip
        r0, c0 = rng.randint(0, ny - 1), rng.randint(0, nx - 1)
        r1, c1 = rng.randint(r0 + 1, ny), rng.randint(c0 + 1, nx)
        sub, ex = call(lambda: gbt.crop[r0:r1, c0:c1])
        if ex is not None:
            mon.fail("GeoboxTiles.crop", {**desc, "roi": [r0, r1, c0, c1], "exc": ex}, key="gbt-crop-raises")
        else:
            okc = tuple(sub.shape) == (r1 - r0, c1 - c0) and gen.gbox_close(sub.base, gb[oy[r0]:oy[r1], ox[c0]:ox[c1]])
            for r, cc in itertools.product(range(r1 - r0), range(c1 - c0)):
                okc = okc and gen.gbox_close(sub[r, cc], gbt[r0 + r, c0 + cc])
            mon.check(okc, "GeoboxTiles.crop", lambda: {**desc, "roi": [r0, r1, c0, c1], "sub_base": gen.gbox_desc(sub.base)}, key="gbt-crop", cls=fam)
        # the same thing however the range is written: all rows / all columns with a proper subset on the other axis, open ends, negative offsets, a bare integer
        for k in range(3):
            r0, c0 = rng.randint(0, ny - 1), rng.randint(0, nx - 1)
            r1, c1 = rng.randint(r0 + 1, ny), rng.randint(c0 + 1, nx)
            if k == 0:
                r0, r1 = 0, ny
            elif k == 1:
                c0, c1 = 0, nx
            sy_, sx_ = spell(rng, r0, r1, ny), spell(rng, c0, c1, nx)
            sub, ex = call(lambda: gbt.crop[sy_, sx_])
            wsp = lambda: {**desc, "selector": [_sl(sy_) if isinstance(sy_, slice) else sy_, _sl(sx_) if isinstance(sx_, slice) else sx_], "means": [r0, r1, c0, c1], "exc": ex,
                           "sub_shape": None if sub is None else tuple(sub.shape), "sub_base": None if sub is None else gen.gbox_desc(sub.base)}
            if ex is not None:
                mon.fail("GeoboxTiles.crop", wsp(), key="gbt-crop-raises")
                continue
            okc = tuple(sub.shape) == (r1 - r0, c1 - c0) and gen.gbox_close(sub.base, gb[oy[r0]:oy[r1], ox[c0]:ox[c1]])
            okc = okc and tuple(map(tuple, sub.chunks)) == (tuple(np.diff(oy[r0:r1 + 1]).tolist()), tuple(np.diff(ox[c0:c1 + 1]).tolist()))
            for r, cc in itertools.product(range(r1 - r0), range(c1 - c0)):
                okc = okc and gen.gbox_close(sub[r, cc], gbt[r0 + r, c0 + cc])
            full = ("full-rows" if (r0, r1) == (0, ny) else "") + ("full-cols" if (c0, c1) == (0, nx) else "")
            mon.check(okc, "GeoboxTiles.crop", wsp, key="gbt-crop", cls=fam + "|spelled" + ("|" + full if full else ""))
        sel = sorted({(rng.randint(0, ny - 1), rng.randint(0, nx - 1)) for _ in range(rng.randint(1, 4))})
        res, ex = call(gbt.clip, sel)
        if ex is not None:
            mon.fail("GeoboxTiles.clip", {**desc, "selection": sel, "exc": ex}, key="gbt-clip-raises")
        else:
            sub, new_idx = res
            okc = len(new_idx) == len(sel)
            for old, new in zip(sel, new_idx):
                okc = okc and gen.gbox_close(sub[new], gbt[old])
            ys, xs = [s[0] for s in sel], [s[1] for s in sel]
            okc = okc and gen.gbox_close(sub.base, gb[oy[min(ys)]:oy[max(ys) + 1], ox[min(xs)]:ox[max(xs) + 1]])
            mon.check(okc, "GeoboxTiles.clip", lambda: {**desc, "selection": sel, "new_idx": new_idx, "sub_base": gen.gbox_desc(sub.base)}, key="gbt-clip", cls=fam)


DTYPES = ["uint8", "int8", "uint16", "int16", "int32", "float32", "float64"]


def drive_blocks(mon: Monitor, rng: random.Random, count: int) -> None:
    from odc.geo._blocks import BlockAssembler

    for it in range(count):
        rs = rng.getrandbits(48)
        mon.case = {"kind": "blocks", "rs": rs, "it": it}
        _blocks_case(mon, random.Random(rs), it)
    mon.case = None


def _blocks_case(mon, rng, it):
    from odc.geo._blocks import BlockAssembler

    nprng = np.random.default_rng(rng.randint(0, 2**31))
    for _ in range(1):
        cy = tuple(rng.choice([1, 2, 3, 5, 8]) for _ in range(rng.randint(1, 4)))
        cx = tuple(rng.choice([1, 2, 4, 7]) for _ in range(rng.randint(1, 4)))
        axis = rng.choice([0, 0, 1])
        prefix = (rng.randint(1, 3),) if axis == 1 else ()
        postfix = rng.choice([(), (), (2,), (3,)])
        dt = np.dtype(rng.choice(DTYPES))
        oy, ox = [0, *np.cumsum(cy).tolist()], [0, *np.cumsum(cx).tolist()]
        all_idx = list(itertools.product(range(len(cy)), range(len(cx))))
        kind = rng.choice(["all", "some", "some", "one", "none"])
        present = all_idx if kind == "all" else [] if kind == "none" else rng.sample(all_idx, 1 if kind == "one" else rng.randint(1, len(all_idx)))
        shape = (*prefix, oy[-1], ox[-1], *postfix)
        blocks = {}
        for (iy, ix) in present:
            bshape = (*prefix, cy[iy], cx[ix], *postfix)
            if dt.kind == "f":
                blocks[(iy, ix)] = nprng.uniform(-1000, 1000, size=bshape).astype(dt)
            else:
                info = np.iinfo(dt)
                blocks[(iy, ix)] = nprng.integers(max(info.min, -30000) + 1, min(info.max, 30000), size=bshape).astype(dt)
        mixed = False
        if len(present) > 1 and rng.random() < 0.15:
            k0 = rng.choice(present)  # any block, not just the first in the mapping, may be the wider one - and it holds values the narrower type cannot
            wide = blocks[k0].astype("float64" if dt.kind == "f" else "int64")
            blocks[k0] = wide + (1 / 3 if dt.kind == "f" else 100000 * (1 if dt.itemsize < 8 else 0))
            mixed = True
        desc = {"chunks": [list(cy), list(cx)], "axis": axis, "prefix": prefix, "postfix": postfix, "dtype": str(dt), "present": sorted(present), "mixed": mixed}
        if kind == "none" and (prefix or postfix):
            mon.skip("BlockAssembler", "no blocks with extra axes")
            continue
        ba, e = call(BlockAssembler, blocks, (cy, cx), axis=axis if kind != "none" else 0)
        if e is not None:
            mon.fail("BlockAssembler.init", {**desc, "exc": e}, key="blockassembler-raises")
            continue
        ok = tuple(ba.shape) == shape
        mon.check(ok, "BlockAssembler.shape", lambda: {**desc, "shape": ba.shape, "want": shape}, key="blocks-shape")
        if not ok:
            continue
        a = len(prefix)
        fill = rng.choice([None, None, 0, -1, 255, -9999, float("nan"), 7.5])
        want_dtype = rng.choice([None, None, None, "float32", "float64"])
        # window
        wk = rng.choice(["none", "yx", "yx", "full", "int-extra", "partial"])
        def rs(n, allow_empty=True):
            s = rng.randint(0, n - (0 if allow_empty else 1))
            return slice(s, rng.randint(s if allow_empty else s + 1, n))
        if wk == "none":
            roi = None
            np_roi = tuple(slice(0, n) for n in shape)
        elif wk == "yx":
            ry, rx = rs(shape[a]), rs(shape[a + 1])
            roi = (ry, rx)
            np_roi = (*[slice(0, n) for n in prefix], ry, rx, *[slice(0, n) for n in postfix])
        elif wk == "full":
            np_roi = tuple(rs(n, allow_empty=False) for n in shape)
            roi = np_roi
        elif wk == "int-extra" and (prefix or postfix):
            np_roi = [rs(n, allow_empty=False) for n in shape]
            for k in range(len(shape)):
                if k not in (a, a + 1) and rng.random() < 0.7:
                    np_roi[k] = rng.randint(0, shape[k] - 1)
            np_roi = tuple(np_roi)
            roi = np_roi
        elif wk == "partial" and len(shape) > 2 and a == 0:
            np_roi = (rs(shape[0], False), rs(shape[1], False), *[slice(0, n) for n in shape[2:]])
            roi = np_roi[:2]
        else:
            roi = None
            np_roi = tuple(slice(0, n) for n in shape)
        kw = {}
        if want_dtype is not None:
            kw["dtype"] = want_dtype
        casting_needed = want_dtype is not None and not np.can_cast(np.result_type(*[b.dtype for b in blocks.values()]) if blocks else np.float32, np.dtype(want_dtype), "same_kind")
        if casting_needed:
            kw["casting"] = "unsafe"
        via_getitem = fill is None and want_dtype is None and roi is not None and rng.random() < 0.5
        if via_getitem:
            got, e = call(ba.__getitem__, roi)
        else:
            got, e = call(ba.extract, fill, roi=roi, **kw)
        desc2 = {**desc, "fill": fill, "dtype_req": want_dtype, "roi": roi, "via": "getitem" if via_getitem else "extract"}
        if e is not None:
            # a fill value the dtype cannot hold is the caller's problem
            if fill is not None and want_dtype is None and isinstance(e, (TypeError, OverflowError, ValueError)) and "cast" in str(e).lower():
                mon.skip("BlockAssembler.extract", "fill-not-castable")
                continue
            mon.fail("BlockAssembler.extract", {**desc2, "exc": e}, key="blocks-extract-raises")
            continue
        # reference mosaic in the result's dtype
        rdt = got.dtype
        block_dt = np.result_type(*[b.dtype for b in blocks.values()]) if blocks else np.dtype("float32")
        eff_fill = fill
        if eff_fill is None:
            eff_fill = np.nan if rdt.kind == "f" else 0
        try:
            with np.errstate(all="ignore"):
                full = np.full(shape, eff_fill, dtype=rdt)
        except (OverflowError, ValueError):
            mon.skip("BlockAssembler.extract", "fill-not-representable")
            continue
        for (iy, ix), b in blocks.items():
            reg = (*[slice(None)] * a, slice(oy[iy], oy[iy + 1]), slice(ox[ix], ox[ix + 1]))
            with np.errstate(all="ignore"):
                full[reg] = b.astype(rdt)
        want = full[np_roi]
        ok_vals = got.shape == want.shape and np.array_equal(got, want, equal_nan=rdt.kind == "f")
        ok_dtype = (rdt == np.dtype(want_dtype)) if want_dtype is not None else np.can_cast(block_dt, rdt, "safe")
        if want_dtype is None and fill is None:
            ok_dtype = ok_dtype and rdt == block_dt
        cls = f"{kind}|axis{axis}|{wk}"
        mon.check(bool(ok_vals and ok_dtype), "BlockAssembler.extract", lambda: {**desc2, "got_shape": got.shape, "want_shape": want.shape, "got_dtype": str(rdt),
                  "block_dtype": str(block_dt), "values_equal": bool(ok_vals), "ndiff": int((got != want).sum()) if got.shape == want.shape else None},
                  key="blocks-values" if not ok_vals else "blocks-dtype", cls=cls, sig=hsig("B", cy, cx, axis, prefix, postfix, str(dt), tuple(sorted(present)), repr(roi), repr(fill), want_dtype),
                  sample=desc2)
        # ownership: a window handed out is the caller's to edit, and the blocks handed in stay the caller's - neither may show through the other afterwards
        if blocks and ok_vals and it % 2 == 0:
            snaps = {k: b.copy() for k, b in blocks.items()}
            (by, bx) = rng.choice(sorted(blocks))
            y0, y1, x0, x1 = oy[by], oy[by + 1], ox[bx], ox[bx + 1]
            wy0 = rng.randint(y0, y1 - 1); wy1 = rng.randint(wy0 + 1, y1); wx0 = rng.randint(x0, x1 - 1); wx1 = rng.randint(wx0 + 1, x1)
            roi1 = (*[slice(0, n) for n in prefix], slice(wy0, wy1), slice(wx0, wx1), *[slice(0, n) for n in postfix]) if rng.random() < 0.5 else (slice(wy0, wy1), slice(wx0, wx1))
            if len(roi1) == 2 and a != 0:
                roi1 = (*[slice(0, n) for n in prefix], slice(wy0, wy1), slice(wx0, wx1), *[slice(0, n) for n in postfix])
            w1, e1 = call(ba.extract, roi=roi1)
            if e1 is None:
                ref1 = w1.copy()
                try:
                    if w1.flags.writeable:
                        w1[...] = 99
                except Exception:  # noqa: BLE001
                    pass
                untouched = all(np.array_equal(blocks[k], snaps[k], equal_nan=True) for k in blocks)
                w2, e2 = call(ba.extract, roi=roi1)
                same_again = e2 is None and np.array_equal(w2, ref1, equal_nan=True)
                # and the other way round: the caller recycles a block buffer after extraction
                kept = True
                if e2 is None:
                    ref2 = w2.copy()
                    blocks[(by, bx)][...] = 55
                    kept = bool(np.array_equal(w2, ref2, equal_nan=True))
                    blocks[(by, bx)][...] = snaps[(by, bx)]
                mon.check(untouched and same_again and kept, "BlockAssembler.ownership", lambda: {**desc, "window": [wy0, wy1, wx0, wx1], "inside_block": [by, bx], "callers_blocks_untouched_by_editing_the_window": untouched,
                          "same_window_again_unchanged": bool(same_again), "window_unchanged_when_block_buffer_is_reused": kept}, key="blocks-alias", cls=cls)
        # planes
        if it % 3 == 0:
            yx = None if rng.random() < 0.5 else (rs(shape[a]), rs(shape[a + 1]))
            planes, e = call(lambda: list(ba.planes_yx(yx)))
            if e is not None:
                mon.fail("BlockAssembler.planes_yx", {**desc, "yx": yx, "exc": e}, key="blocks-planes-raises")
                continue
            seen = np.zeros(shape, dtype="int32")
            okp = True
            for p in planes:
                sub = seen[p]
                okp = okp and sub.ndim == 2
                seen[p] += 1
            exp = np.zeros(shape, dtype="int32")
            sel = (*[slice(None)] * a, *(yx if yx is not None else (slice(None), slice(None))))
            exp[sel] = 1
            okp = okp and np.array_equal(seen, exp) and len(planes) == int(np.prod(prefix + postfix, dtype=int))
            mon.check(bool(okp), "BlockAssembler.planes_yx", lambda: {**desc, "yx": yx, "planes": planes[:6]}, key="blocks-planes", cls=f"axis{axis}")


def _hook_init(cls_name):
    def post(args, kw, res, exc, snap):
        if exc is None and len(_recorded) < 5000:
            _recorded.append((cls_name, args[0]))
    return post


def validate_recorded(mon: Monitor) -> None:
    """Every tiling created inside library code is validated against the model rebuilt from its own chunks."""
    from odc.geo.roi import Tiles

    n = 0
    seen = set()
    for cls_name, T in _recorded:
        try:
            if cls_name == "Tiles":
                key = ("T", tuple(T._base_shape), tuple(T._tile_shape))
                oy = model_offsets_regular(T._base_shape[0], T._tile_shape[0])
                ox = model_offsets_regular(T._base_shape[1], T._tile_shape[1])
            else:
                ch = T.chunks
                key = ("V", tuple(ch[0]), tuple(ch[1]))
                oy, ox = [0, *np.cumsum(ch[0]).tolist()], [0, *np.cumsum(ch[1]).tolist()]
        except Exception as e:
            mon.error("hooked-instance", e)
            continue
        if key in seen or oy[-1] * ox[-1] > 10000 or oy[-1] * ox[-1] == 0 or 0 in np.diff(oy) or 0 in np.diff(ox):
            continue
        seen.add(key)
        if len(seen) > 300:
            break
        check_tiling(mon, T, oy, ox, "hooked", {"kind": cls_name, "key": key[1:]})
        n += 1
    mon.obs["hooked_instances_validated"] += n
    mon.obs["hooked_instances_recorded"] += len(_recorded)


def run(mon: Monitor, tier: str, seed: int, shard: int, nshards: int) -> None:
    global _mon
    _mon = mon
    from odc.geo import roi as R

    _recorded.clear()
    rng = random.Random(seed * 1000 + shard + 4)
    quick = tier == "quick"
    drive_regular(mon, rng, 24 if quick else 120, shard, nshards)
    drive_variable(mon, rng, 6 if quick else 9, shard, nshards, 150 if quick else 1500)
    attach(R.Tiles, "__init__", post=_hook_init("Tiles"), on_error=_err, label="Tiles.__init__")
    attach(R.VariableSizedTiles, "__init__", post=_hook_init("VariableSizedTiles"), on_error=_err, label="VariableSizedTiles.__init__")
    try:
        drive_geobox_tiles(mon, rng, 250 if quick else 3000)
        drive_blocks(mon, rng, 2500 if quick else 30000)
    finally:
        detach_all()
    validate_recorded(mon)
    mon.exhaustive = True
    mon.notes["exhaustive_domain"] = {"regular N<=": 24 if quick else 120, "tile<=": 34 if quick else 130, "variable total<=": 6 if quick else 9}
    for pt, n in [("Tiles", 50), ("Tiles.partition", 50), ("Tiles.locate", 50), ("Tiles.crop.partition", 30), ("Tiles.clip_tiles", 30),
                  ("VariableSizedTiles", 30), ("VariableSizedTiles.partition", 30), ("VariableSizedTiles.locate", 30), ("VariableSizedTiles.clip_tiles", 20),
                  ("GeoboxTiles.getitem", 30), ("GeoboxTiles.crop", 30), ("GeoboxTiles.clip", 30), ("BlockAssembler.extract", 300), ("BlockAssembler.ownership", 100),
                  ("BlockAssembler.planes_yx", 100), ("hooked.partition", 20),
                  ("Tiles|tile>image", 5), ("Tiles|ragged", 10), ("Tiles|1px-tile", 3)]:
        mon.floor(pt, n)


def replay(mon: Monitor, case) -> None:
    global _mon
    _mon = mon
    k = (case or {}).get("kind")
    mon.case = case
    rng = random.Random(case["rs"]) if case and "rs" in case else None
    if k == "regular":
        nmax = case["nmax"]
        cases = [(N, t) for N in range(1, nmax + 1) for t in range(1, nmax + 11)]
        _regular_case(mon, rng, case["N"], case["t"], cases)
    elif k == "variable":
        _one_variable(mon, rng, tuple(case["cy"]), tuple(case["cx"]), case["cls"])
    elif k == "gbt":
        _gbt_case(mon, rng)
    elif k == "blocks":
        _blocks_case(mon, rng, case.get("it", 0))
    else:
        mon.error("replay", f"unknown case kind {k}")
