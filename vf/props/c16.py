"""C16 - GeoBox and bounding-box set operations respect the common pixel grid.

Oracle: integer-lattice reference model.  Every member of a family derived from a base grid by whole-pixel
shifts is the rectangle [tx,tx+nx) x [ty,ty+ny) in base pixel space; the real operations are run on the real
GeoBoxes and their results are mapped back to rectangles (through plain numpy 3x3 matrices) and compared.
"""
from __future__ import annotations

import itertools
import math
import random

import numpy as np
from affine import Affine

from .. import gen
from ..kernel import Monitor, call, hsig

PID = "C16"
RULE = ("seeded families of 2-4 GeoBoxes on a common grid (north-up / mirrored / non-square / rotated / sheared bases, shifts +-15 px, shapes 1..12; "
        "disjoint, touching, nested and overlapping placements), regions in same and other CRS for enclosing, sub-pixel perturbations "
        "1e-3..0.5 px / scale / rotation for snapping and rejection, seeded bounding-box triples; distinct = distinct (case kind, family rectangles, base family)")
ASSUMPTIONS = ["numpy 3x3 matrix algebra maps results back to base pixel space", "pyproj transformer (fresh) for regions given in another CRS",
               "grid differences below 1e-3 px / 1e-3 relative scale are unspecified and not generated"]
SHARDS = {"quick": 1, "thorough": 8}


def M3(A) -> np.ndarray:
    a, b, c, d, e, f = tuple(A)[:6]
    return np.array([[a, b, c], [d, e, f], [0, 0, 1]], dtype="float64")


def rect_of(g, base):
    """Rectangle (x0, y0, x1, y1) of GeoBox g in pixel space of base, or None when not on the grid."""
    T = np.linalg.solve(M3(base.affine), M3(g.affine))
    lin = T[:2, :2]
    if not np.allclose(lin, np.eye(2), rtol=0, atol=1e-7):
        return None
    tx, ty = T[0, 2], T[1, 2]
    if abs(tx - round(tx)) > 1e-5 or abs(ty - round(ty)) > 1e-5:
        return None
    ny, nx = g.shape
    return (round(tx), round(ty), round(tx) + nx, round(ty) + ny)


def rect_union(rs):
    return (min(r[0] for r in rs), min(r[1] for r in rs), max(r[2] for r in rs), max(r[3] for r in rs))


def rect_isect(rs):
    x0, y0, x1, y1 = max(r[0] for r in rs), max(r[1] for r in rs), min(r[2] for r in rs), min(r[3] for r in rs)
    return (x0, y0, x1, y1)


def rect_empty(r) -> bool:
    return r[2] <= r[0] or r[3] <= r[1]


def make_base(rng: random.Random, fam=None):
    from odc.geo.geobox import GeoBox

    fam = fam or rng.choice(gen.AFFINE_FAMILIES)
    res = rng.choice([10.0, 30.0, 0.5, 100.0, 0.25, 1.0, 0.001, 1 / 3])
    A, fam = gen.affine(rng, fam, res=res, mag=res * rng.choice([0, 100, 1e4, 1e5]))
    crs = rng.choice(["EPSG:3857", "EPSG:32633", "EPSG:4326", None, "EPSG:3577"])
    if crs == "EPSG:4326":
        A = Affine.scale(1e-4) * A if abs(A.c) > 100 or abs(A.f) > 80 or res > 0.5 else A
    return GeoBox((rng.randint(1, 12), rng.randint(1, 12)), A, crs), fam


def member(base, rect):
    """GeoBox on base's grid occupying rect."""
    x0, y0, x1, y1 = rect
    return base.translate_pix(x0, y0).crop((y1 - y0, x1 - x0))


def family(rng: random.Random, base, n: int):
    placement = rng.choice(["overlap", "overlap", "disjoint-x", "disjoint-y", "touch", "nested", "identical", "far"])
    ny, nx = base.shape
    rects = [(0, 0, nx, ny)]
    for _ in range(n - 1):
        w, h = rng.randint(1, 12), rng.randint(1, 12)
        if placement == "overlap":
            x0, y0 = rng.randint(-w + 1, nx - 1), rng.randint(-h + 1, ny - 1)
        elif placement == "disjoint-x":
            x0, y0 = rng.choice([-w - rng.randint(1, 15), nx + rng.randint(1, 15)]), rng.randint(-h + 1, ny - 1)
        elif placement == "disjoint-y":
            x0, y0 = rng.randint(-w + 1, nx - 1), rng.choice([-h - rng.randint(1, 15), ny + rng.randint(1, 15)])
        elif placement == "touch":
            x0, y0 = rng.choice([(-w, rng.randint(-h, ny)), (nx, rng.randint(-h, ny)), (rng.randint(-w, nx), -h), (rng.randint(-w, nx), ny), (nx, ny), (-w, -h)])
        elif placement == "nested":
            w, h = rng.randint(1, nx), rng.randint(1, ny)
            x0, y0 = rng.randint(0, nx - w), rng.randint(0, ny - h)
        elif placement == "identical":
            x0, y0, w, h = 0, 0, nx, ny
        else:
            x0, y0 = rng.choice([-1, 1]) * rng.randint(50, 5000), rng.choice([-1, 1]) * rng.randint(50, 5000)
        rects.append((x0, y0, x0 + w, y0 + h))
    return placement, rects


def case_lattice(mon: Monitor, rng: random.Random) -> None:
    from odc.geo.geobox import geobox_intersection_conservative, geobox_union_conservative

    base, fam = make_base(rng)
    n = rng.choice([2, 2, 3, 4])
    placement, rects = family(rng, base, n)
    gs = [member(base, r) for r in rects]
    order = list(range(n))
    rng.shuffle(order)
    gs = [gs[i] for i in order]
    rects = [rects[i] for i in order]
    gen.maybe_warm(*gs)  # operands that were looked at (footprint, hash, ...) before being combined
    desc = {"base": gen.gbox_desc(base), "family": fam, "placement": placement, "rects": rects}
    cls = f"{fam}|{placement}"
    sig = hsig("L", fam, tuple(rects))

    def judge_union(res, e, want, label):
        if e is not None:
            return mon.fail(label, {**desc, "exc": e}, key="union-raises", cls=cls)
        got = rect_of(res, base)
        mon.check(got == want and res.crs == base.crs, label, lambda: {**desc, "got_rect": got, "want_rect": want, "result": gen.gbox_desc(res)}, key="union-rect", cls=cls, sig=sig, sample=desc)

    def judge_isect(res, e, want, label):
        if e is not None:
            return mon.fail(label, {**desc, "exc": e}, key="intersection-raises", cls=cls)
        if rect_empty(want):
            return mon.check(res.is_empty() and res.crs == base.crs, label, lambda: {**desc, "want": "empty", "result": gen.gbox_desc(res)}, key="intersection-not-empty", cls=cls, sig=sig)
        got = rect_of(res, base)
        mon.check(got == want and res.crs == base.crs, label, lambda: {**desc, "got_rect": got, "want_rect": want, "result": gen.gbox_desc(res)}, key="intersection-rect", cls=cls, sig=sig)

    a, b = gs[0], gs[1]
    ra, rb = rects[0], rects[1]
    judge_union(*call(lambda: a | b), rect_union([ra, rb]), "GeoBox.__or__")
    judge_union(*call(lambda: b | a), rect_union([ra, rb]), "GeoBox.__or__")
    judge_isect(*call(lambda: a & b), rect_isect([ra, rb]), "GeoBox.__and__")
    judge_isect(*call(lambda: b & a), rect_isect([ra, rb]), "GeoBox.__and__")
    judge_union(*call(geobox_union_conservative, gs), rect_union(rects), "geobox_union_conservative")
    judge_isect(*call(geobox_intersection_conservative, gs), rect_isect(rects), "geobox_intersection_conservative")
    judge_union(*call(geobox_union_conservative, gs[::-1]), rect_union(rects), "geobox_union_conservative")
    judge_isect(*call(geobox_intersection_conservative, gs[::-1]), rect_isect(rects), "geobox_intersection_conservative")
    if n >= 3:
        c, rc = gs[2], rects[2]
        judge_union(*call(lambda: (a | b) | c), rect_union([ra, rb, rc]), "union.assoc")
        judge_union(*call(lambda: a | (b | c)), rect_union([ra, rb, rc]), "union.assoc")
        # associativity of intersection is only meaningful while intermediates are non-empty
        if not rect_empty(rect_isect([ra, rb])) and not rect_empty(rect_isect([rb, rc])):
            judge_isect(*call(lambda: (a & b) & c), rect_isect([ra, rb, rc]), "intersection.assoc")
            judge_isect(*call(lambda: a & (b & c)), rect_isect([ra, rb, rc]), "intersection.assoc")
    # overlap_roi marks exactly the shared pixels of the first operand
    for (p, rp), (q, rq) in (((a, ra), (b, rb)), ((b, rb), (a, ra))):
        roi, e = call(p.overlap_roi, q)
        if e is not None:
            mon.fail("GeoBox.overlap_roi", {**desc, "exc": e}, key="overlap-roi-raises", cls=cls)
            continue
        ny, nx = p.shape
        mask = np.zeros((ny, nx), dtype=bool)
        try:
            mask[roi] = True
        except Exception as ex:
            mon.fail("GeoBox.overlap_roi", {**desc, "roi": roi, "exc": ex}, key="overlap-roi-bad-index", cls=cls)
            continue
        want = np.zeros((ny, nx), dtype=bool)
        i = rect_isect([rp, rq])
        if not rect_empty(i):
            want[i[1] - rp[1]:i[3] - rp[1], i[0] - rp[0]:i[2] - rp[0]] = True
        neg = any(v is not None and v < 0 for s in roi for v in (s.start, s.stop))
        mon.check(bool(np.array_equal(mask, want)) and not neg, "GeoBox.overlap_roi", lambda: {**desc, "first": rp, "other": rq, "roi": [[s.start, s.stop] for s in roi],
                  "marked": int(mask.sum()), "shared": int(want.sum())}, key="overlap-roi-negative-stop" if neg else "overlap-roi-pixels", cls=cls, sig=sig)


def _proj_pts(pts, src_crs, dst_crs):
    import pyproj

    if src_crs == dst_crs:
        return np.asarray(pts, dtype="float64")
    tr = gen.transformer(str(src_crs), str(dst_crs))
    x, y = tr.transform(np.asarray(pts)[:, 0], np.asarray(pts)[:, 1])
    return np.stack([x, y], axis=1)


def case_enclosing(mon: Monitor, rng: random.Random) -> None:
    from odc.geo import geom
    from odc.geo.geom import BoundingBox

    other_crs = rng.random() < 0.35
    if other_crs:
        entry = rng.choice(gen.CRS_WINDOWS[1:])
        base, (lon, lat, ext) = gen.window_geobox(rng, entry, npix=(rng.randint(4, 40), rng.randint(4, 40)), fam=rng.choice(["north-up", "rotated"]))
        fam = "window"
        k = rng.uniform(0.05, 0.6)
        cx, cy = lon + rng.uniform(-ext, ext), lat + rng.uniform(-ext, ext)
        pts = [(cx - k * ext, cy - k * ext), (cx + k * ext, cy - k * ext), (cx + k * ext, cy + k * ext), (cx - k * ext, cy + k * ext)]
        region_crs = "EPSG:4326"
    else:
        base, fam = make_base(rng)
        if base.crs is None:
            from odc.geo.geobox import GeoBox

            base = GeoBox(base.shape, base.affine, "EPSG:3857")
        ny, nx = base.shape
        # region from pixel-space points (any placement, incl. sub-pixel and far outside)
        kind = rng.choice(["inside", "straddle", "outside", "subpixel", "exact"])
        def pp():
            if kind == "inside":
                return rng.uniform(0, nx), rng.uniform(0, ny)
            if kind == "straddle":
                return rng.uniform(-nx, 2 * nx), rng.uniform(-ny, 2 * ny)
            if kind == "outside":
                return rng.uniform(3 * nx, 5 * nx), rng.uniform(-4 * ny, -2 * ny)
            if kind == "exact":
                return float(rng.randint(-5, nx + 5)), float(rng.randint(-5, ny + 5))
            return 0.3 + rng.uniform(0, 0.2), 0.4 + rng.uniform(0, 0.2)
        ppix = [pp() for _ in range(rng.choice([3, 4, 6]))]
        if kind == "exact":
            x0, y0 = ppix[0]
            ppix = [(x0, y0), (x0 + rng.randint(1, 6), y0), (x0 + rng.randint(1, 6), y0 + rng.randint(1, 6))]
        pts = [tuple(base.affine * p) for p in ppix]
        region_crs = base.crs
    as_bbox = rng.random() < 0.3
    if as_bbox:
        xs, ys = [p[0] for p in pts], [p[1] for p in pts]
        region = BoundingBox(min(xs), min(ys), max(xs), max(ys), region_crs)
        pts = [(min(xs), min(ys)), (max(xs), min(ys)), (max(xs), max(ys)), (min(xs), max(ys))]
    else:
        import shapely.geometry as sg

        poly = sg.MultiPoint(pts).convex_hull
        if poly.geom_type != "Polygon":
            return mon.skip("GeoBox.enclosing", "degenerate region")
        if rng.random() < 0.3:
            # a smooth outline with hundreds of vertices (a buffered point, a digitised coast line) instead of a handful: the ellipse inscribed in the hull's bounding box
            import shapely.affinity as sa

            x0_, y0_, x1_, y1_ = poly.bounds
            if x1_ > x0_ and y1_ > y0_:
                poly = sa.scale(sg.Point((x0_ + x1_) / 2, (y0_ + y1_) / 2).buffer(0.5, quad_segs=rng.choice([64, 100, 200])), x1_ - x0_, y1_ - y0_)
                mon.obs["regions_with_hundreds_of_vertices"] += 1
        region = geom.Geometry(poly, region_crs)
        pts = list(poly.exterior.coords)
    desc = {"base": gen.gbox_desc(base), "family": fam, "region_crs": str(region_crs), "region": pts[:6], "bbox": as_bbox}
    res, e = call(base.enclosing, region)
    if e is not None:
        return mon.fail("GeoBox.enclosing", {**desc, "exc": e}, key="enclosing-raises")
    rect = rect_of(res, base)
    if rect is None or res.crs != base.crs:
        return mon.fail("GeoBox.enclosing", {**desc, "result": gen.gbox_desc(res)}, key="enclosing-off-grid")
    wp = _proj_pts(pts, region_crs, base.crs)
    pix = np.linalg.solve(M3(base.affine), np.vstack([wp.T, np.ones(len(wp))]))[:2].T
    lo, hi = pix.min(axis=0), pix.max(axis=0)
    tol = 1e-6 * max(1.0, float(np.abs(pix).max()))
    covers = rect[0] <= lo[0] + tol and rect[1] <= lo[1] + tol and rect[2] >= hi[0] - tol and rect[3] >= hi[1] - tol
    # exceeds by less than one pixel per side (a region thinner than a pixel still gets one pixel)
    tight = (lo[0] - rect[0] < 1 + tol) and (lo[1] - rect[1] < 1 + tol) and (rect[2] - hi[0] < 1 + tol or rect[2] - rect[0] == 1) and (rect[3] - hi[1] < 1 + tol or rect[3] - rect[1] == 1)
    mon.check(bool(covers and tight), "GeoBox.enclosing", lambda: {**desc, "rect": rect, "region_px": [lo.tolist(), hi.tolist()], "covers": bool(covers), "tight": bool(tight)},
              key="enclosing-covers" if not covers else "enclosing-tight", cls=("other-crs" if other_crs else fam) + ("|bbox" if as_bbox else "|poly"),
              sig=hsig("E", fam, tuple(map(tuple, np.round(pix, 6).tolist()))), sample=desc)


def case_snap(mon: Monitor, rng: random.Random) -> None:
    base, fam = make_base(rng)
    ny, nx = base.shape
    tx, ty = rng.randint(-15, 15), rng.randint(-15, 15)
    dx = rng.choice([0, 1e-3, -1e-3, 0.01, 0.2, -0.3, 0.49, -0.49, rng.uniform(-0.49, 0.49), 1e-10])
    dy = rng.choice([0, 1e-3, 0.05, -0.25, 0.4, rng.uniform(-0.49, 0.49)])
    g = base.translate_pix(tx + dx, ty + dy).crop((rng.randint(1, 12), rng.randint(1, 12)))
    desc = {"base": gen.gbox_desc(base), "family": fam, "shift": [tx + dx, ty + dy]}
    res, e = call(g.snap_to, base)
    if e is not None:
        return mon.fail("GeoBox.snap_to", {**desc, "exc": e}, key="snap-raises", cls=fam)
    rect = rect_of(res, base)
    moved = np.linalg.solve(M3(g.affine), M3(res.affine))
    mv = max(abs(moved[0, 2]), abs(moved[1, 2]))
    ok = rect is not None and tuple(res.shape) == tuple(g.shape) and res.crs == g.crs and mv <= 0.5 + 1e-6 and np.allclose(moved[:2, :2], np.eye(2), atol=1e-9)
    if ok:
        ok = (rect[0], rect[1]) == (tx, ty) or abs(abs(dx) - 0.5) < 1e-6 or abs(abs(dy) - 0.5) < 1e-6
    mon.check(bool(ok), "GeoBox.snap_to", lambda: {**desc, "rect": rect, "moved_px": float(mv), "result": gen.gbox_desc(res)}, key="snap", cls=fam,
              sig=hsig("S", fam, tx, ty, dx, dy), sample=desc)


def case_reject(mon: Monitor, rng: random.Random) -> None:
    from odc.geo.geobox import GeoBox

    base, fam = make_base(rng)
    kind = rng.choice(["subpixel", "scale", "rotation", "subpixel", "anisotropic"])
    tx, ty = rng.randint(-10, 10), rng.randint(-10, 10)
    if kind == "subpixel":
        d = rng.choice([1e-3, -1e-3, 0.01, 0.25, 0.5, -0.4, rng.uniform(0.001, 0.999)])
        if rng.random() < 0.4:
            # distant tiles of a large mosaic: thousands of whole pixels apart and off the grid by a visible fraction of a pixel (the tolerance is absolute, not relative to the distance)
            kind = "subpixel-far"
            tx, ty = rng.choice([-1, 1]) * rng.choice([3200, 6400, 32000, 51200, 200000]), rng.choice([-1, 1]) * rng.choice([0, 3200, 51200, 200000])
            d = rng.choice([0.05, 0.3, -0.45, 0.2, -0.1, 0.5])
        other = base.translate_pix(tx + (d if rng.random() < 0.5 else 0), ty + d)
    elif kind == "scale":
        f = rng.choice([1 + 1e-3, 1 - 1e-3, 1.01, 2, 0.5, 3])
        other = base.translate_pix(tx, ty).zoom_out(f)
    elif kind == "anisotropic":
        f = rng.choice([1 + 1e-3, 1.01, 2])
        other = base.translate_pix(tx, ty) * (Affine.scale(f, 1) if rng.random() < 0.5 else Affine.scale(1, f))
    else:
        ang = rng.choice([0.1, -0.1, 1, 30, 90, 180])
        other = base.translate_pix(tx, ty) * Affine.rotation(ang)
    other = other.crop((rng.randint(1, 12), rng.randint(1, 12)))
    warmed = gen.maybe_warm(base, other, p=0.6)
    desc = {"base": gen.gbox_desc(base), "other": gen.gbox_desc(other), "family": fam, "perturbation": kind, "operands_looked_at_before": warmed}
    from odc.geo.geobox import geobox_intersection_conservative, geobox_union_conservative

    for label, fn in (("or", lambda: base | other), ("and", lambda: base & other), ("overlap_roi", lambda: base.overlap_roi(other)),
                      ("or-rev", lambda: other | base), ("overlap_roi-rev", lambda: other.overlap_roi(base)),
                      ("union3", lambda: geobox_union_conservative([base, base.translate_pix(1, 1), other])),
                      ("isect3", lambda: geobox_intersection_conservative([base, base.translate_pix(1, 1), other]))):
        res, e = call(fn)
        mon.check(isinstance(e, ValueError), "reject-incompatible", lambda: {**desc, "op": label, "exc": e, "result": repr(res)[:200]}, key="incompatible-accepted",
                  cls=f"{kind}|{label}", sig=hsig("R", fam, kind, label, gen.aff6(other.affine)), sample=desc)


def case_bbox(mon: Monitor, rng: random.Random) -> None:
    from odc.geo.geom import BoundingBox, bbox_intersection, bbox_union

    crs = rng.choice([None, "EPSG:4326", "EPSG:3857"])
    mag = rng.choice([1, 100, 1e6, 1e-3])

    def bb():
        k = rng.choice(["float", "int", "grid"])
        if k == "float":
            x0, y0 = rng.uniform(-mag, mag), rng.uniform(-mag, mag)
            return BoundingBox(x0, y0, x0 + rng.uniform(0, mag), y0 + rng.uniform(0, mag), crs)
        if k == "int":
            x0, y0 = rng.randint(-10, 10), rng.randint(-10, 10)
            return BoundingBox(x0, y0, x0 + rng.randint(0, 10), y0 + rng.randint(0, 10), crs)
        x0, y0 = rng.randint(-4, 4) * 0.25 * mag, rng.randint(-4, 4) * 0.25 * mag
        return BoundingBox(x0, y0, x0 + rng.randint(0, 4) * 0.25 * mag, y0 + rng.randint(0, 4) * 0.25 * mag, crs)

    a, b, c = bb(), bb(), bb()
    T = lambda x: tuple(x.bbox) + (x.crs,)
    desc = {"a": T(a)[:4], "b": T(b)[:4], "c": T(c)[:4], "crs": crs}
    sig = hsig("BB", T(a)[:4], T(b)[:4], T(c)[:4])
    U = lambda *xs: bbox_union(iter(xs)) if rng.random() < 0.5 else (xs[0] | xs[1] if len(xs) == 2 else bbox_union(list(xs)))
    I = lambda *xs: bbox_intersection(iter(xs)) if rng.random() < 0.5 else (xs[0] & xs[1] if len(xs) == 2 else bbox_intersection(list(xs)))
    try:
        laws = {
            "union-commutative": T(U(a, b)) == T(U(b, a)),
            "intersection-commutative": T(I(a, b)) == T(I(b, a)),
            "union-associative": T(U(U(a, b), c)) == T(U(a, U(b, c))) == T(bbox_union([a, b, c])),
            "intersection-associative": T(I(I(a, b), c)) == T(I(a, I(b, c))) == T(bbox_intersection([a, b, c])),
            "union-idempotent": T(U(a, a)) == T(a),
            "intersection-idempotent": T(I(a, a)) == T(a),
            "absorption-1": T(U(a, I(a, b))) == T(a),
            "absorption-2": T(I(a, U(a, b))) == T(a),
        }
        u, i = a | b, a & b
        laws["union-contains"] = all(u.left <= x.left and u.bottom <= x.bottom and u.right >= x.right and u.top >= x.top for x in (a, b))
        laws["intersection-contained"] = all(i.left >= x.left and i.bottom >= x.bottom and i.right <= x.right and i.top <= x.top for x in (a, b))
        # model: componentwise min/max
        laws["union-model"] = tuple(u.bbox) == (min(a.left, b.left), min(a.bottom, b.bottom), max(a.right, b.right), max(a.top, b.top)) and u.crs == a.crs
        laws["intersection-model"] = tuple(i.bbox) == (max(a.left, b.left), max(a.bottom, b.bottom), min(a.right, b.right), min(a.top, b.top)) and i.crs == a.crs
    except Exception as e:
        return mon.fail("bbox-laws", {**desc, "exc": e}, key="bbox-raises")
    for law, ok in laws.items():
        mon.check(ok, f"bbox.{law}", lambda: {**desc, "law": law}, key=f"bbox-{law}", sig=sig, sample=desc)


CASES = {"lattice": case_lattice, "enclosing": case_enclosing, "snap": case_snap, "reject": case_reject, "bbox": case_bbox}


def run(mon: Monitor, tier: str, seed: int, shard: int, nshards: int) -> None:
    rng = random.Random(seed * 1000 + shard + 16)
    counts = {"lattice": 1200, "enclosing": 800, "snap": 500, "reject": 400, "bbox": 1000} if tier == "quick" else \
             {"lattice": 40000, "enclosing": 15000, "snap": 10000, "reject": 8000, "bbox": 20000}
    for kind, n in counts.items():
        for _ in range(n):
            rs = rng.getrandbits(48)
            mon.case = {"kind": kind, "rs": rs}
            try:
                CASES[kind](mon, random.Random(rs))
            except Exception as e:
                mon.error(kind, e)
    mon.case = None
    for pt, n in [("GeoBox.__or__", 300), ("GeoBox.__and__", 300), ("GeoBox.overlap_roi", 300), ("geobox_union_conservative", 300),
                  ("geobox_intersection_conservative", 300), ("union.assoc", 100), ("intersection.assoc", 50), ("GeoBox.enclosing", 300),
                  ("GeoBox.snap_to", 300), ("reject-incompatible", 500), ("bbox.absorption-1", 500),
                  ("GeoBox.overlap_roi|north-up|disjoint-x", 2), ("GeoBox.overlap_roi|rotated|overlap", 2), ("GeoBox.enclosing|other-crs|poly", 20), ("reject-incompatible|subpixel-far|or", 10), ("reject-incompatible|subpixel-far|overlap_roi", 10)]:
        mon.floor(pt, n)


def replay(mon: Monitor, case) -> None:
    mon.case = case
    CASES[case["kind"]](mon, random.Random(case["rs"]))
