"""C08 - a GeoBox built from a region covers it and is snapped as requested.

Post-condition monitors on GeoBox.from_bbox / from_geopolygon / zoom_to(resolution=): arithmetic on the
result only (pixel size, coverage, excess, anchor alignment, displacement), evaluated on every call -
the stratified direct workload and the calls made from inside compute_output_geobox, GridSpec etc.
"""
from __future__ import annotations

import math
import random

import numpy as np

from .. import gen
from ..attach import attach, detach_all, calls, replay_call
from ..kernel import Monitor, hsig

PID = "C08"
RULE = ("seeded regions (coordinates 1e-3..1e9 px, spans 0.1 px..1e6 px, start coordinates at k*res+{0,+-1e-9,+-tol/2,+-2tol,res/2}) x resolutions (square, non-square, either sign "
        "per axis) x anchors (edge, centre, floating, fraction, per-axis XY) x tight x tol in {1e-3,0.01,0.05}; shape-driven requests with shapes 1..300; polygons in the same and "
        "another CRS; zoom_to(resolution=) on north-up and rotated boxes; distinct = distinct (entry point, region, request)")
ASSUMPTIONS = ["float arithmetic with eps = 1e-9*max(1,|coord|/pixel)", "regions within 10% of the tolerance boundary are generated on either side, never on it",
               "polygon regions in another CRS are projected with the oracle's own pyproj transformer"]
SHARDS = {"quick": 1, "thorough": 8}
SUITE_UNDER_MONITOR = True

_mon: Monitor = None  # type: ignore


def _err(label, e):
    _mon.error(label, e)


def _anchor_xy(anchor, tight):
    """-> (ax, ay) pixel fractions or None when floating."""
    from odc.geo.types import XY, AnchorEnum

    if tight:
        return None
    if isinstance(anchor, AnchorEnum):
        return {AnchorEnum.EDGE: (0.0, 0.0), AnchorEnum.CENTER: (0.5, 0.5), AnchorEnum.FLOATING: None}[anchor]
    if isinstance(anchor, XY):
        return tuple(anchor.xy)
    if isinstance(anchor, (int, float)):
        return (float(anchor), float(anchor))
    return {"edge": (0.0, 0.0), "default": (0.0, 0.0), "center": (0.5, 0.5), "centre": (0.5, 0.5), "floating": None}[anchor]


def judge_resolution(point, region, res_xy, anchor_xy, tol, gb, wit, cls, sig, sample=None):
    """region=(left,bottom,right,top); res_xy=(rx,ry) requested; gb the result."""
    rx, ry = res_xy
    A = gb.affine
    if not (A.a == rx and A.e == ry and A.b == 0 and A.d == 0):
        return _mon.fail(point, wit({"why": "pixel size/orientation", "affine": gen.aff6(A)}), key="c08-pixel-size", cls=cls)
    ny, nx = gb.shape
    if nx < 1 or ny < 1:
        return _mon.fail(point, wit({"why": "empty GeoBox", "shape": [ny, nx]}), key="c08-empty", cls=cls)
    xs = sorted((A.c, A.c + nx * rx))
    ys = sorted((A.f, A.f + ny * ry))
    for ax, (lo, hi), (qlo, qhi), r, an in ((0, xs, (region[0], region[2]), abs(rx), None if anchor_xy is None else anchor_xy[0]),
                                              (1, ys, (region[1], region[3]), abs(ry), None if anchor_xy is None else anchor_xy[1])):
        # float round-off only: a few ulps of the pixel index (1e-9 relative would hide a half-pixel error at 1 cm pixels in UTM, index ~6e8)
        eps = 1e-9 + 1e-14 * max(abs(qlo) / r, abs(qhi) / r)
        cover = lo <= qlo + (tol + eps) * r and hi >= qhi - (tol + eps) * r
        excess = (qlo - lo) < (1 + tol + eps) * r and (hi - qhi) < (1 + tol + eps) * r
        if an is None:
            # snapping off: one edge sits exactly on the region
            snapped = min(abs(lo - qlo), abs(hi - qhi)) <= eps * r
        else:
            k = lo / r - an
            snapped = abs(k - round(k)) <= 1e-6 + 1e-14 * abs(k)
        if not (cover and excess and snapped):
            why = "coverage" if not cover else "excess" if not excess else "alignment"
            return _mon.fail(point, wit({"why": why, "axis": "xy"[ax], "grid": [lo, hi], "region": [qlo, qhi], "pixel": r, "shape": [ny, nx]}), key=f"c08-{why}", cls=cls)
    _mon.ok(point, cls=cls, sig=sig, sample=sample)


def judge_shape(point, region, shape, anchor_xy, gb, wit, cls, sig, sample=None):
    ny, nx = shape
    sx, sy = region[2] - region[0], region[3] - region[1]
    A = gb.affine
    ok = tuple(gb.shape) == (ny, nx) and A.b == 0 and A.d == 0 and abs(A.a - sx / nx) <= 1e-12 * abs(sx / nx) and abs(A.e + sy / ny) <= 1e-12 * abs(sy / ny)
    if not ok:
        return _mon.fail(point, wit({"why": "shape/pixel size", "affine": gen.aff6(A), "shape": list(gb.shape)}), key="c08-shape", cls=cls)
    xs = sorted((A.c, A.c + nx * A.a))
    ys = sorted((A.f, A.f + ny * A.e))
    dx = max(abs(xs[0] - region[0]), abs(xs[1] - region[2])) / abs(A.a)
    dy = max(abs(ys[0] - region[1]), abs(ys[1] - region[3])) / abs(A.e)
    eps = 1e-6 + 1e-9 * max(abs(region[0]) / abs(A.a), abs(region[1]) / abs(A.e))
    ok = (dx <= eps and dy <= eps) if anchor_xy is None else (dx < 1 + eps and dy < 1 + eps)
    _mon.check(ok, point, lambda: wit({"why": "displacement", "dx_px": dx, "dy_px": dy, "affine": gen.aff6(A)}), key="c08-displacement", cls=cls, sig=sig, sample=sample)


def post_from_bbox(args, kw, res, exc, snap):
    from odc.geo.geom import BoundingBox
    from odc.geo.types import res_, shape_

    p = {"crs": None, "tight": False, "shape": None, "resolution": None, "anchor": "default", "tol": 0.01}
    p.update(dict(zip(("bbox", "crs"), args)))
    p.update(kw)
    bbox, crs = p["bbox"], p["crs"]
    if isinstance(crs, str) and crs.lower().startswith("utm"):
        return _mon.skip("GeoBox.from_bbox", "utm keyword")
    region = tuple(bbox.bbox) if isinstance(bbox, BoundingBox) else tuple(bbox)
    if not all(map(math.isfinite, region)) or region[2] < region[0] or region[3] < region[1]:
        return _mon.skip("GeoBox.from_bbox", "degenerate region")
    wit = lambda extra=None: {"region": region, "resolution": repr(p["resolution"]), "shape": repr(p["shape"]), "anchor": repr(p["anchor"]), "tight": p["tight"], "tol": p["tol"],
                              "result": gen.gbox_desc(res) if res is not None else None, **(extra or {})}
    if p["shape"] is None and p["resolution"] is None:
        return _mon.check(isinstance(exc, ValueError), "GeoBox.from_bbox", wit({"exc": exc}), key="c08-no-request-accepted", cls="invalid")
    anchor_xy = _anchor_xy(p["anchor"], p["tight"])
    shape, resolution = p["shape"], p["resolution"]
    if isinstance(shape, (int, float)):
        sx, sy = region[2] - region[0], region[3] - region[1]
        if sx <= 0 or sy <= 0 or shape <= 0:
            return _mon.skip("GeoBox.from_bbox", "zero span")
        resolution = (sx / shape) if (sx / sy > 1) else (sy / shape)
        shape = None
        mode = "int-shape"
    elif resolution is not None:
        mode = "resolution"
    else:
        mode = "shape"
    if exc is not None:
        return _mon.fail("GeoBox.from_bbox", wit({"exc": exc}), key="c08-raises", cls=mode)
    want_crs = bbox.crs if isinstance(bbox, BoundingBox) and bbox.crs is not None else (crs or "epsg:4326")
    if res.crs != want_crs:
        return _mon.fail("GeoBox.from_bbox", wit({"why": "crs", "want_crs": str(want_crs)}), key="c08-crs", cls=mode)
    acls = "floating" if anchor_xy is None else "edge" if anchor_xy == (0, 0) else "centre" if anchor_xy == (0.5, 0.5) else "fraction"
    if mode in ("resolution", "int-shape"):
        r = res_(resolution)
        if r.x == 0 or r.y == 0 or not (math.isfinite(r.x) and math.isfinite(r.y)):
            return _mon.skip("GeoBox.from_bbox", "zero resolution")
        sgn = ("+" if r.x > 0 else "-") + ("+" if r.y > 0 else "-")
        judge_resolution("GeoBox.from_bbox", region, (r.x, r.y), anchor_xy, p["tol"], res, wit, f"{mode}|{acls}|{sgn}",
                         hsig("fb", region, r.x, r.y, anchor_xy, p["tol"]), sample=wit())
    else:
        sh = tuple(shape_(shape))
        if region[2] <= region[0] or region[3] <= region[1]:
            return _mon.skip("GeoBox.from_bbox", "zero span")
        judge_shape("GeoBox.from_bbox", region, sh, anchor_xy, res, wit, f"shape|{acls}", hsig("fbs", region, sh, anchor_xy), sample=wit())


def post_from_geopolygon(args, kw, res, exc, snap):
    from odc.geo.types import Unset, res_, shape_

    p = {"resolution": None, "crs": None, "align": None, "shape": None, "tight": False, "anchor": "default", "tol": 0.01}
    p.update(dict(zip(("geopolygon", "resolution", "crs", "align"), args)))
    p.update(kw)
    poly = p["geopolygon"]
    crs = p["crs"]
    if crs is None or isinstance(crs, Unset):
        target = poly.crs
        b = poly.geom.bounds
    else:
        from odc.geo.crs import CRS

        target = CRS(crs) if not isinstance(crs, str) or not crs.lower().startswith("utm") else None
        if target is None:
            return _mon.skip("GeoBox.from_geopolygon", "utm keyword")
        if poly.crs == target:
            b = poly.geom.bounds
        else:
            import shapely

            pts = shapely.get_coordinates(poly.geom)
            tr = gen.transformer(str(poly.crs), str(target))
            x, y = tr.transform(pts[:, 0], pts[:, 1])
            b = (min(x), min(y), max(x), max(y))
    region = tuple(map(float, b))
    if not all(map(math.isfinite, region)) or region[2] <= region[0] or region[3] <= region[1]:
        return _mon.skip("GeoBox.from_geopolygon", "degenerate region")
    wit = lambda extra=None: {"region": region, "poly_crs": str(poly.crs), "crs": repr(crs), "resolution": repr(p["resolution"]), "shape": repr(p["shape"]), "anchor": repr(p["anchor"]),
                              "align": repr(p["align"]), "tight": p["tight"], "tol": p["tol"], "result": gen.gbox_desc(res) if res is not None else None, **(extra or {})}
    if exc is not None:
        if p["shape"] is None and p["resolution"] is None:
            return _mon.ok("GeoBox.from_geopolygon", cls="invalid")
        return _mon.fail("GeoBox.from_geopolygon", wit({"exc": exc}), key="c08-raises")
    if res.crs != target:
        return _mon.fail("GeoBox.from_geopolygon", wit({"why": "crs"}), key="c08-crs")
    anchor_xy = _anchor_xy(p["anchor"], p["tight"])
    if p["align"] is not None and p["resolution"] is not None:
        r = res_(p["resolution"])
        ax, ay = p["align"].xy
        anchor_xy = None if p["tight"] else ((ax / abs(r.x)) % 1.0, (ay / abs(r.y)) % 1.0)
    cross = poly.crs != target
    if p["resolution"] is not None and not isinstance(p["shape"], (int, float, tuple)):
        r = res_(p["resolution"])
        judge_resolution("GeoBox.from_geopolygon", region, (r.x, r.y), anchor_xy, p["tol"], res, wit, ("cross-crs|" if cross else "same-crs|") + "resolution",
                         hsig("fg", region, r.x, r.y, anchor_xy, p["tol"]), sample=wit())
    elif isinstance(p["shape"], tuple) or (p["shape"] is not None and not isinstance(p["shape"], (int, float))):
        judge_shape("GeoBox.from_geopolygon", region, tuple(shape_(p["shape"])), anchor_xy, res, wit, ("cross-crs|" if cross else "same-crs|") + "shape", hsig("fgs", region, repr(p["shape"])))
    else:
        # a single number: that many pixels along the longer side of the region *in the grid's CRS* (square pixels); judged here as well as at from_bbox, so that a
        # detour that never reaches from_bbox with the number is seen.  The region is the oracle's projection of the polygon: 2 % allowance, one pixel for snapping
        n = int(p["shape"])
        sx, sy = region[2] - region[0], region[3] - region[1]
        A = res.affine
        want_px = max(sx, sy) / n if n > 0 else float("nan")
        snapping = anchor_xy is not None
        ok = n > 0 and max(res.shape) in ((n, n + 1) if snapping else (n,)) and abs(abs(A.a) - want_px) <= 0.02 * want_px and abs(abs(A.e) - want_px) <= 0.02 * want_px and A.b == 0 and A.d == 0
        _mon.check(bool(ok), "GeoBox.from_geopolygon", lambda: wit({"why": "single-number shape: longest side / pixel size", "shape_got": list(res.shape), "pixel": [A.a, A.e], "expected_pixel": want_px}),
                   key="c08-int-shape", cls=("cross-crs|" if cross else "same-crs|") + "int-shape", sig=hsig("fgi", region, n, cross))


def post_zoom_to(args, kw, res, exc, snap):
    from odc.geo.types import res_

    self = args[0]
    shape = args[1] if len(args) > 1 else kw.get("shape")
    resolution = kw.get("resolution")
    if shape is not None or resolution is None:
        return _mon.skip("GeoBox.zoom_to", "shape request (C02)")
    r = res_(resolution)
    A = self.affine
    ny, nx = self.shape
    wit = lambda extra=None: {"source": gen.gbox_desc(self), "resolution": [r.x, r.y], "result": gen.gbox_desc(res) if res is not None else None, **(extra or {})}
    if exc is not None:
        return _mon.fail("GeoBox.zoom_to", wit({"exc": exc}), key="c08-raises")
    a, b, c, d, e, f = gen.aff6(A)
    cx = [a * x + b * y + c for x, y in ((0, 0), (nx, 0), (0, ny), (nx, ny))]
    cy = [d * x + e * y + f for x, y in ((0, 0), (nx, 0), (0, ny), (nx, ny))]
    region = (min(cx), min(cy), max(cx), max(cy))
    if res.crs != self.crs:
        return _mon.fail("GeoBox.zoom_to", wit({"why": "crs"}), key="c08-crs")
    rot = abs(b) > 1e-12 * abs(a) or abs(d) > 1e-12 * abs(e)
    judge_resolution("GeoBox.zoom_to", region, (r.x, r.y), None, 0.01, res, wit, ("rotated" if rot else "axis-aligned"),
                     hsig("zt", gen.aff6(A), (ny, nx), r.x, r.y), sample=wit())


def install(mon: Monitor) -> None:
    global _mon
    _mon = mon
    from odc.geo.geobox import GeoBox

    attach(GeoBox, "from_bbox", post=post_from_bbox, on_error=_err, label="GeoBox.from_bbox")
    attach(GeoBox, "from_geopolygon", post=post_from_geopolygon, on_error=_err, label="GeoBox.from_geopolygon")
    attach(GeoBox, "zoom_to", post=post_zoom_to, on_error=_err, label="GeoBox.zoom_to")


# --------------------------------------------------------------------------- workload
def rand_request(rng: random.Random):
    from odc.geo import resxy_, xy_

    a = rng.choice([1, 10, 0.5, 30, 0.1, 1 / 3, 25, 1e-3, 0.00025, 1000])
    rx = a * rng.choice([1, -1])
    ry = rng.choice([a, a, a * 2, a / 3]) * rng.choice([1, -1, -1])
    tol = rng.choice([0.01, 1e-3, 0.05])
    mag = rng.choice([1e-3, 1, 1e3, 1e6, 1e7, 1e8, 1e9]) * a
    x0, y0 = rng.uniform(-mag, mag), rng.uniform(-mag, mag)
    from odc.geo.types import AnchorEnum

    anchor = rng.choice(["edge", "center", "floating", "default", 0.25, xy_(0.1, 0.7), 0, 0.5, rng.random() * 0.99, AnchorEnum.EDGE, AnchorEnum.CENTER, AnchorEnum.FLOATING])
    axy = _anchor_xy(anchor, False) or (0, 0)
    if rng.random() < 0.5:
        off = lambda r: rng.choice([0, 1e-9, -1e-9, 0.5 * tol, -0.5 * tol, 2 * tol, -2 * tol, 0.5]) * abs(r)
        x0 = (round(x0 / abs(rx)) + axy[0]) * abs(rx) + off(rx)
        y0 = (round(y0 / abs(ry)) + axy[1]) * abs(ry) + off(ry)
    span = lambda r: rng.choice([0, 0.5 * tol, 1e-9, 0.1, 0.3, rng.uniform(0, 5), rng.randint(1, 50), rng.randint(1, 50) + rng.choice([0.5, -0.5, 2, -2]) * tol, rng.uniform(0, 1e4), 1e6]) * abs(r)
    sx, sy = span(rx), span(ry)
    tight = rng.random() < 0.2
    return dict(region=(x0, y0, x0 + sx, y0 + sy), res=resxy_(rx, ry), anchor=anchor, tight=tight, tol=tol)


def drive(mon: Monitor, rng: random.Random, n: int) -> None:
    from odc.geo import geom
    from odc.geo.geobox import GeoBox
    from odc.geo.geom import BoundingBox
    from odc.geo import xy_

    for i in range(n):
        q = rand_request(rng)
        crs = rng.choice(["EPSG:3857", "EPSG:32633", "EPSG:3577"])
        try:
            k = i % 10
            if k < 5:
                bbox = BoundingBox(*q["region"], crs) if rng.random() < 0.7 else q["region"]
                res = q["res"] if rng.random() < 0.8 or q["res"].x != -q["res"].y or q["res"].x < 0 else q["res"].x
                GeoBox.from_bbox(bbox, crs if not isinstance(bbox, BoundingBox) else None, resolution=res, anchor=q["anchor"], tight=q["tight"], tol=q["tol"])
            elif k < 7:
                x0, y0, x1, y1 = q["region"]
                if x1 - x0 > 0 and y1 - y0 > 0:
                    shape = rng.choice([(rng.randint(1, 300), rng.randint(1, 300)), (1, 1), (1, rng.randint(1, 50)), rng.randint(1, 400)])
                    GeoBox.from_bbox(BoundingBox(x0, y0, x1, y1, crs), shape=shape, anchor=q["anchor"], tight=q["tight"], tol=q["tol"])
            elif k < 9:
                x0, y0, x1, y1 = q["region"]
                if x1 - x0 > 0 and y1 - y0 > 0:
                    pts = [(x0, rng.uniform(y0, y1)), (rng.uniform(x0, x1), y0), (x1, rng.uniform(y0, y1)), (rng.uniform(x0, x1), y1)]
                    poly = geom.polygon(pts + pts[:1], crs)
                    if rng.random() < 0.2:
                        r = q["res"]
                        GeoBox.from_geopolygon(poly, q["res"], align=xy_(rng.choice([0, 0.25, 0.5]) * abs(r.x), rng.choice([0, 0.5]) * abs(r.y)), tol=q["tol"])
                    elif rng.random() < 0.25:
                        GeoBox.from_geopolygon(poly, shape=(rng.randint(1, 200), rng.randint(1, 200)), anchor=q["anchor"], tight=q["tight"], tol=q["tol"])
                    else:
                        GeoBox.from_geopolygon(poly, q["res"], anchor=q["anchor"], tight=q["tight"], tol=q["tol"])
            else:
                gb, fam = gen.geobox(rng, crs=crs)
                r0 = abs(gb.resolution.x)
                f = rng.choice([0.5, 2, 3, 1.7, 10, 0.1])
                gb.zoom_to(resolution=r0 * f)
        except Exception:
            pass  # exceptions are judged by the post-conditions
    # no request at all
    try:
        GeoBox.from_bbox(BoundingBox(0, 0, 1, 1, "epsg:4326"))
    except ValueError:
        pass


def drive_cross(mon: Monitor, rng: random.Random, n: int) -> None:
    """Polygons handed over in another CRS, and indirect calls through compute_output_geobox."""
    from odc.geo import geom
    from odc.geo.geobox import GeoBox

    before = dict(calls)
    for _ in range(n):
        entry = rng.choice(gen.CRS_WINDOWS[1:])
        g, (lon, lat, ext) = gen.window_geobox(rng, entry, npix=(16, 16))
        gen.crs_churn(5, limit=10**9)  # (more throw-away CRSs between the cross-CRS requests: detection of identity-keyed CRS caches must not hinge on allocator luck)
        x0_, y0_, x1_, y1_ = lon - ext / 2, lat - ext / 2, lon + ext / 2, lat + ext / 2
        kind = rng.choice(["box", "box", "diamond", "triangle", "sliver"])
        if kind == "box":
            poly = geom.box(x0_, y0_, x1_, y1_, "EPSG:4326")
        else:
            # shapes that are not their own envelope: the region is that of the projected *shape*, not of its projected bounding box
            ring = {"diamond": [(lon, y0_), (x1_, lat), (lon, y1_), (x0_, lat)], "triangle": [(x0_, y0_), (x1_, y0_ + 0.2 * ext), (x0_ + 0.3 * ext, y1_)],
                    "sliver": [(x0_, y0_), (x0_ + 0.05 * ext, y0_), (x1_, y1_), (x1_ - 0.05 * ext, y1_)]}[kind]
            poly = geom.polygon(ring, "EPSG:4326")
        r = abs(g.resolution.x)
        try:
            GeoBox.from_geopolygon(poly, r * rng.choice([1, 2, 0.5]), crs=entry[0], anchor=rng.choice(["edge", "center", "floating"]), tol=rng.choice([0.01, 0.05]), tight=rng.random() < 0.2)
            if rng.random() < 0.3:
                # and the other way round: a shape in the projected CRS, grid asked for in lon/lat
                pn = poly.to_crs(entry[0])
                GeoBox.from_geopolygon(pn, ext / rng.choice([16, 40]), crs="EPSG:4326", anchor=rng.choice(["edge", "center"]))
            g.to_crs(rng.choice(["EPSG:4326", "EPSG:3857", "EPSG:6933"]), tight=rng.random() < 0.3)
            # shape requests across CRSs: both forms of `shape=`
            GeoBox.from_geopolygon(poly, shape=rng.choice([rng.randint(20, 300), (rng.randint(10, 200), rng.randint(10, 200))]), crs=entry[0], anchor=rng.choice(["edge", "floating", "center"]))
            if rng.random() < 0.4:
                GeoBox.from_geopolygon(poly.to_crs(entry[0]), shape=rng.randint(20, 300), crs="EPSG:4326")
        except Exception:
            pass
    mon.notes["indirect_calls"] = {k: calls[k] - before.get(k, 0) for k in calls}


def run(mon: Monitor, tier: str, seed: int, shard: int, nshards: int) -> None:
    install(mon)
    try:
        rng = random.Random(seed * 1000 + shard + 8)
        drive(mon, rng, 25000 if tier == "quick" else 250000)
        drive_cross(mon, rng, 250 if tier == "quick" else 3000)
        for pt, n in [("GeoBox.from_bbox", 5000), ("GeoBox.from_geopolygon", 1000), ("GeoBox.zoom_to", 500),
                      ("GeoBox.from_bbox|resolution|edge|+-", 100), ("GeoBox.from_bbox|resolution|edge|--", 100), ("GeoBox.from_bbox|resolution|edge|++", 30),
                      ("GeoBox.from_bbox|resolution|centre|+-", 100), ("GeoBox.from_bbox|resolution|fraction|+-", 100), ("GeoBox.from_bbox|resolution|floating|+-", 100),
                      ("GeoBox.from_bbox|shape|edge", 100), ("GeoBox.from_bbox|shape|floating", 100), ("GeoBox.from_bbox|int-shape|edge|+-", 50),
                      ("GeoBox.from_geopolygon|same-crs|resolution", 500), ("GeoBox.from_geopolygon|cross-crs|resolution", 50),
                      ("GeoBox.zoom_to|rotated", 50), ("GeoBox.zoom_to|axis-aligned", 50)]:
            mon.floor(pt, n)
    finally:
        detach_all()


def replay(mon: Monitor, case) -> None:
    install(mon)
    try:
        if not replay_call(case):
            mon.error("replay", "case is not a recorded call")
    finally:
        detach_all()
