"""C01 - operations never silently mix coordinate reference systems.

Every combining operation of the Geometry / BoundingBox / GeoBox APIs is called on operands whose CRS tags come
from a labelled pool; ground truth for "CRSs differ" is the generator's label (cross-checked once with
pyproj.CRS.equals), never odc.geo's own CRS.__eq__.  Differ => must raise ValueError (CRSMismatchError for
geometries and bounding boxes) and return nothing; equal (even if spelled differently) => result equals the same
shapely call on the raw shapes, tagged with the first operand's CRS.
"""
from __future__ import annotations

import itertools
import random

import numpy as np
from affine import Affine

from ..kernel import Monitor, call, hsig

PID = "C01"
RULE = ("product of combining operations (16 shapely-wrapped Geometry methods, split, multigeom, common_crs, unary_union, unary_intersection, geom.intersects, bbox_union/_intersection, "
        "BoundingBox &,|, GeoBox |,&,overlap_roi,snap_to, geobox_*_conservative, pixel_translation, bounding_box_in_pixel_domain) x ordered pairs of 13 CRS tags "
        "(none, 4 CRSs, and 4326/3857 in other spellings: lower case, int, WKT2, PROJJSON, pyproj object, CRS object) x geometry kinds (11); n-ary operations get streams of 1-4 "
        "operands with the odd one at every position; thorough tier enumerates the full product; distinct = distinct (operation, CRS tag tuple, kind tuple)")
ASSUMPTIONS = ["generator labels (cross-checked with pyproj.CRS.equals) decide whether two tags denote the same CRS", "shapely/GEOS on the raw shapes is the reference result"]
SHARDS = {"quick": 1, "thorough": 8}

BINARY = ["contains", "covers", "crosses", "disjoint", "intersects", "touches", "within", "overlaps", "difference", "intersection",
          "symmetric_difference", "union", "__and__", "__or__", "__xor__", "__sub__"]
KINDS = ["point", "line", "ring", "polygon", "polygon-hole", "multipoint", "multiline", "multipolygon", "collection", "empty-polygon", "empty-collection",
         # shapes GEOS calls invalid (what digitised or machine-made outlines often are): the CRS verdict comes first, whatever else is wrong with an operand
         "bowtie", "multipolygon-overlapping", "hole-outside"]


def crs_pool():
    """[(tag name, equivalence class, value to hand to the library)]"""
    import pyproj
    from odc.geo.crs import CRS

    p4326, p3857 = pyproj.CRS.from_epsg(4326), pyproj.CRS.from_epsg(3857)
    pool = [
        ("none", None, None),
        ("EPSG:4326", "4326", "EPSG:4326"),
        ("epsg:4326", "4326", "epsg:4326"),
        ("int-4326", "4326", 4326),
        ("wkt2-4326", "4326", p4326.to_wkt()),
        ("json-4326", "4326", p4326.to_json()),
        ("pyproj-4326", "4326", p4326),
        ("CRS-4326", "4326", CRS("EPSG:4326")),
        ("EPSG:3857", "3857", "EPSG:3857"),
        ("wkt2-3857", "3857", p3857.to_wkt()),
        ("pyproj-3857", "3857", p3857),
        ("EPSG:32633", "32633", "EPSG:32633"),
        ("EPSG:3577", "3577", "EPSG:3577"),
        # user-defined CRSs that no authority lists (MODIS sinusoidal, a local equal-area grid, an ellipsoid-only geographic CRS) and another spelling of the first
        ("sinu-modis", "sinu", "+proj=sinu +lon_0=0 +x_0=0 +y_0=0 +R=6371007.181 +units=m +no_defs"),
        ("sinu-modis-wkt", "sinu", pyproj.CRS.from_user_input("+proj=sinu +lon_0=0 +x_0=0 +y_0=0 +R=6371007.181 +units=m +no_defs").to_wkt()),
        ("laea-custom", "laea", "+proj=laea +lat_0=52 +lon_0=20 +x_0=0 +y_0=0 +ellps=GRS80 +units=m +no_defs"),
        ("longlat-grs80", "llgrs80", "+proj=longlat +ellps=GRS80 +no_defs"),
    ]
    # CRS objects of other libraries (what GeoBox.from_rio / rioxarray hand over): a rasterio CRS of a datum-less definition that merely *resembles* a registered
    # CRS, the same definition as a PROJ string, and the registered CRS it resembles - two classes, three tags
    try:
        import rasterio.crs

        near = "+proj=utm +zone=55 +south +ellps=GRS80 +units=m +no_defs"
        pool += [("rio-utm55s-grs80", "utm55s-grs80", rasterio.crs.CRS.from_string(near)), ("proj-utm55s-grs80", "utm55s-grs80", near), ("EPSG:7855", "7855", "EPSG:7855"),
                 ("rio-4326", "4326", rasterio.crs.CRS.from_epsg(4326))]
    except Exception:  # noqa: BLE001 - rasterio not importable: the foreign-object tags are simply absent
        pass
    # cross-check the labels with pyproj itself
    for (n1, c1, v1), (n2, c2, v2) in itertools.combinations([p for p in pool if p[1] is not None], 2):
        wk = lambda v: v.to_wkt() if (hasattr(v, "to_wkt") and not isinstance(v, (pyproj.CRS, CRS))) else v
        a = v1 if isinstance(v1, pyproj.CRS) else pyproj.CRS.from_user_input(v1.proj if isinstance(v1, CRS) else wk(v1))
        b = v2 if isinstance(v2, pyproj.CRS) else pyproj.CRS.from_user_input(v2.proj if isinstance(v2, CRS) else wk(v2))
        assert a.equals(b) == (c1 == c2), (n1, n2)
    return pool


def pair_class(c1, c2) -> str:
    def k(c):
        return "none" if c is None else "geographic" if c in ("4326", "llgrs80") else "custom" if c in ("sinu", "laea", "utm55s-grs80") else "projected"
    if c1 == c2:
        return f"same:{k(c1)}"
    return f"{k(c1)}->{k(c2)}"


def shapes(rng: random.Random):
    import shapely.geometry as sg

    def pt():
        return (rng.uniform(-40, 40), rng.uniform(-40, 40))
    def poly(cx=None, cy=None, r=None, hole=False):
        cx = rng.uniform(-20, 20) if cx is None else cx
        cy = rng.uniform(-20, 20) if cy is None else cy
        r = r or rng.uniform(3, 15)
        shell = [(cx - r, cy - r), (cx + r, cy - r), (cx + r, cy + r), (cx - r, cy + r)]
        holes = [[(cx - r / 3, cy - r / 3), (cx + r / 3, cy - r / 3), (cx, cy + r / 3)]] if hole else []
        return sg.Polygon(shell, holes)
    out = {
        "point": sg.Point(*pt()),
        "line": sg.LineString([pt(), pt(), pt()]),
        "ring": sg.LinearRing([(-10, -10), (12, -9), (11, 13), (-8, 9)]),
        "polygon": poly(),
        "polygon-hole": poly(hole=True),
        "multipoint": sg.MultiPoint([pt(), pt(), pt()]),
        "multiline": sg.MultiLineString([[pt(), pt()], [pt(), pt(), pt()]]),
        "multipolygon": sg.MultiPolygon([poly(-25, -25, 4), poly(20, 20, 6, hole=True)]),
        "collection": sg.GeometryCollection([sg.Point(*pt()), sg.LineString([pt(), pt()]), poly(0, 0, 5)]),
        "empty-polygon": sg.Polygon(),
        "empty-collection": sg.GeometryCollection(),
        "bowtie": sg.Polygon([(-10, -10), (10, 10), (10, -10), (-10, 10)]),
        "multipolygon-overlapping": sg.MultiPolygon([poly(0, 0, 6), poly(3, 3, 6)]),
        "hole-outside": sg.Polygon([(0, 0), (8, 0), (8, 8), (0, 8)], [[(20, 20), (22, 20), (21, 22)]]),
    }
    return out


def same_result(a, b) -> bool:
    from shapely.geometry.base import BaseGeometry

    if isinstance(a, BaseGeometry) and isinstance(b, BaseGeometry):
        return a.geom_type == b.geom_type and (a.wkb == b.wkb or (a.is_empty and b.is_empty) or a.equals_exact(b, 0))
    if isinstance(a, (bool, np.bool_)) and isinstance(b, (bool, np.bool_)):
        return bool(a) == bool(b)
    return a == b


class Ctx:
    def __init__(self, mon: Monitor):
        self.mon = mon
        self.pool = crs_pool()
        self.byname = {p[0]: p for p in self.pool}

    def judge_mismatch(self, point, res, exc, witness, cls, sig, want_type=None, shapely_exc=None):
        from odc.geo.crs import CRSMismatchError

        want_type = want_type or CRSMismatchError
        ok = isinstance(exc, ValueError) and isinstance(exc, want_type)
        if not ok and shapely_exc is not None and exc is not None and type(exc) is type(shapely_exc):
            # GEOS rejects these raw shapes whatever their CRS (e.g. collections): nothing was computed, nothing was mixed
            self.mon.skip(point, "shapely rejects the raw shapes")
            return
        key = "mixed-crs-accepted" if exc is None else "mixed-crs-wrong-exception"
        self.mon.check(ok, point, lambda: {**witness, "result": repr(res)[:200], "exc": exc}, key=key, cls=cls, sig=sig, sample=witness)


def geoms_for(tags, kinds, shp, ctx):
    from odc.geo.geom import Geometry

    return [Geometry(shp[k], ctx.byname[t][2]) for t, k in zip(tags, kinds)]


def do_binary(ctx: Ctx, op: str, t1: str, t2: str, k1: str, k2: str, shp) -> None:
    mon = ctx.mon
    (_, c1, _), (_, c2, _) = ctx.byname[t1], ctx.byname[t2]
    a, b = geoms_for((t1, t2), (k1, k2), shp, ctx)
    cls = pair_class(c1, c2)
    sig = hsig(op, t1, t2, k1, k2)
    wit = {"op": op, "crs": [t1, t2], "kinds": [k1, k2]}
    res, exc = call(getattr(a, op), b)
    pt = f"Geometry.{op}"
    want, wexc = call(getattr(shp[k1], op), shp[k2])
    if c1 != c2:
        return ctx.judge_mismatch(pt, res, exc, wit, cls, sig, shapely_exc=wexc)
    if wexc is not None:
        return mon.check(exc is not None and type(exc) is type(wexc), pt, lambda: {**wit, "shapely_exc": wexc, "exc": exc, "result": repr(res)[:100]}, key="exception-parity", cls=cls, sig=sig)
    if exc is not None:
        return mon.fail(pt, {**wit, "exc": exc}, key="equal-crs-rejected" if isinstance(exc, ValueError) else "equal-crs-raises", cls=cls)
    from odc.geo.geom import Geometry

    if isinstance(res, Geometry):
        ok = same_result(res.geom, want) and res.crs == a.crs and (res.crs is None) == (c1 is None)
        if ok and c1 is not None:
            ok = str(res.crs) == str(a.crs)  # tagged with the (first) operand's CRS
    else:
        ok = same_result(res, want)
    mon.check(ok, pt, lambda: {**wit, "result": repr(res)[:200], "shapely": repr(want)[:200], "result_crs": str(getattr(res, "crs", None))[:40]}, key="result-differs-from-shapely", cls=cls, sig=sig, sample=wit)


def do_split(ctx: Ctx, t1, t2, k1, k2, shp) -> None:
    import shapely.ops

    mon = ctx.mon
    c1, c2 = ctx.byname[t1][1], ctx.byname[t2][1]
    a, b = geoms_for((t1, t2), (k1, k2), shp, ctx)
    cls, sig, wit = pair_class(c1, c2), hsig("split", t1, t2, k1, k2), {"op": "split", "crs": [t1, t2], "kinds": [k1, k2]}
    res, exc = call(lambda: list(a.split(b)))
    want, wexc = call(lambda: list(shapely.ops.split(shp[k1], shp[k2]).geoms))
    if c1 != c2:
        return ctx.judge_mismatch("Geometry.split", res, exc, wit, cls, sig, shapely_exc=wexc)
    if wexc is not None:
        return mon.check(exc is not None and type(exc) is type(wexc), "Geometry.split", lambda: {**wit, "shapely_exc": wexc, "exc": exc}, key="exception-parity", cls=cls, sig=sig)
    if exc is not None:
        return mon.fail("Geometry.split", {**wit, "exc": exc}, key="equal-crs-raises", cls=cls)
    ok = len(res) == len(want) and all(same_result(r.geom, w) and r.crs == a.crs for r, w in zip(res, want))
    mon.check(ok, "Geometry.split", lambda: {**wit, "n": len(res), "want_n": len(want)}, key="result-differs-from-shapely", cls=cls, sig=sig, sample=wit)


NARY = ["multigeom", "common_crs", "unary_union", "unary_intersection"]


def do_nary(ctx: Ctx, op: str, tags, kinds, shp) -> None:
    import shapely.ops
    from odc.geo import geom as G

    mon = ctx.mon
    cs = [ctx.byname[t][1] for t in tags]
    gs = geoms_for(tags, kinds, shp, ctx)
    differ = len(set(cs)) > 1
    cls = ("mixed" if differ else "same") + f"|n={len(tags)}|odd@{next((i for i, c in enumerate(cs) if c != cs[0]), '-') if differ else '-'}"
    if differ and cs.count(cs[0]) == 1 and len(cs) > 2:
        cls = f"mixed|n={len(tags)}|odd@0"
    sig = hsig(op, tuple(tags), tuple(kinds))
    wit = {"op": op, "crs": list(tags), "kinds": list(kinds)}
    feed = (lambda: iter(gs)) if op != "common_crs" and len(gs) % 2 else (lambda: list(gs))
    res, exc = call(getattr(G, op), feed())
    pt = f"geom.{op}"
    raw = [shp[k] for k in kinds]
    if op == "multigeom":
        want, wexc = call(G._multigeom, raw)
    elif op == "unary_union":
        want, wexc = call(shapely.ops.unary_union, raw)
    elif op == "unary_intersection":
        def red():
            r = raw[0]
            for x in raw[1:]:
                r = r.intersection(x)
            return r
        want, wexc = call(red)
    else:
        want, wexc = None, None
    if differ:
        return ctx.judge_mismatch(pt, res, exc, wit, cls, sig, shapely_exc=wexc)
    if wexc is not None:
        return mon.check(exc is not None and type(exc) is type(wexc), pt, lambda: {**wit, "shapely_exc": wexc, "exc": exc}, key="exception-parity", cls=cls, sig=sig)
    if exc is not None:
        return mon.fail(pt, {**wit, "exc": exc}, key="equal-crs-rejected" if isinstance(exc, ValueError) else "equal-crs-raises", cls=cls)
    if op == "common_crs":
        ok = (res is None) == (cs[0] is None) and res == gs[0].crs
    else:
        ok = same_result(res.geom, want) and res.crs == gs[0].crs and (res.crs is None) == (cs[0] is None)
    mon.check(ok, pt, lambda: {**wit, "result": repr(res)[:200]}, key="result-differs-from-shapely", cls=cls, sig=sig, sample=wit)


def do_intersects_fn(ctx: Ctx, t1, t2, k1, k2, shp) -> None:
    from odc.geo import geom as G

    mon = ctx.mon
    c1, c2 = ctx.byname[t1][1], ctx.byname[t2][1]
    a, b = geoms_for((t1, t2), (k1, k2), shp, ctx)
    cls, sig, wit = pair_class(c1, c2), hsig("intersects()", t1, t2, k1, k2), {"op": "geom.intersects", "crs": [t1, t2], "kinds": [k1, k2]}
    res, exc = call(G.intersects, a, b)
    if c1 != c2:
        return ctx.judge_mismatch("geom.intersects", res, exc, wit, cls, sig)
    want = shp[k1].intersects(shp[k2]) and not shp[k1].touches(shp[k2])
    mon.check(exc is None and bool(res) == bool(want), "geom.intersects", lambda: {**wit, "res": res, "want": want, "exc": exc}, key="result-differs-from-shapely", cls=cls, sig=sig)


def do_bbox(ctx: Ctx, rng: random.Random, tags) -> None:
    from odc.geo.geom import BoundingBox, bbox_intersection, bbox_union

    mon = ctx.mon
    cs = [ctx.byname[t][1] for t in tags]
    bbs = []
    for t in tags:
        x0, y0 = rng.uniform(-50, 50), rng.uniform(-50, 50)
        bbs.append(BoundingBox(x0, y0, x0 + rng.uniform(1, 30), y0 + rng.uniform(1, 30), ctx.byname[t][2]))
    differ = len(set(cs)) > 1
    odd = next((i for i, c in enumerate(cs) if c != cs[0]), "-") if differ else "-"
    if differ and cs.count(cs[0]) == 1 and len(cs) > 2:
        odd = 0
    cls = ("mixed" if differ else "same") + f"|n={len(tags)}|odd@{odd}"
    ops = [("bbox_union", lambda: bbox_union(iter(bbs))), ("bbox_intersection", lambda: bbox_intersection(list(bbs)))]
    if len(bbs) == 2:
        ops += [("BoundingBox.__or__", lambda: bbs[0] | bbs[1]), ("BoundingBox.__and__", lambda: bbs[0] & bbs[1])]
    for name, fn in ops:
        res, exc = call(fn)
        wit = {"op": name, "crs": list(tags), "boxes": [tuple(b.bbox) for b in bbs]}
        sig = hsig(name, tuple(tags))
        if differ:
            ctx.judge_mismatch(name, res, exc, wit, cls, sig)
            continue
        L = [b.left for b in bbs]; B = [b.bottom for b in bbs]; R = [b.right for b in bbs]; T = [b.top for b in bbs]
        want = (min(L), min(B), max(R), max(T)) if "union" in name or "__or__" in name else (max(L), max(B), min(R), min(T))
        ok = exc is None and tuple(res.bbox) == want and res.crs == bbs[0].crs and (res.crs is None) == (cs[0] is None)
        mon.check(ok, name, lambda: {**wit, "result": repr(res), "exc": exc, "want": want}, key="bbox-result", cls=cls, sig=sig, sample=wit)


def do_geobox(ctx: Ctx, rng: random.Random, tags) -> None:
    from odc.geo.geobox import (GeoBox, bounding_box_in_pixel_domain, geobox_intersection_conservative, geobox_union_conservative, pixel_translation)

    mon = ctx.mon
    cs = [ctx.byname[t][1] for t in tags]
    A = rng.choice([Affine(10, 0, 500, 0, -10, 900), Affine(0.25, 0, -3, 0, -0.25, 7), Affine.rotation(30) * Affine.scale(2, -2)])
    gbs, ref = [], []
    for t in tags:
        tx, ty = rng.randint(-6, 6), rng.randint(-6, 6)
        shape = (rng.randint(1, 9), rng.randint(1, 9))
        gbs.append(GeoBox(shape, A * Affine.translation(tx, ty), ctx.byname[t][2]))
        ref.append(GeoBox(shape, A * Affine.translation(tx, ty), ctx.byname[tags[0]][2]))
    differ = len(set(cs)) > 1
    odd = next((i for i, c in enumerate(cs) if c != cs[0]), "-") if differ else "-"
    if differ and cs.count(cs[0]) == 1 and len(cs) > 2:
        odd = 0
    cls = ("mixed" if differ else "same") + f"|n={len(tags)}|odd@{odd}"
    ops = [("geobox_union_conservative", lambda g: geobox_union_conservative(list(g))), ("geobox_intersection_conservative", lambda g: geobox_intersection_conservative(list(g)))]
    if len(tags) == 2:
        ops += [("GeoBox.__or__", lambda g: g[0] | g[1]), ("GeoBox.__and__", lambda g: g[0] & g[1]), ("GeoBox.overlap_roi", lambda g: g[0].overlap_roi(g[1])),
                ("GeoBox.snap_to", lambda g: g[0].snap_to(g[1])), ("pixel_translation", lambda g: pixel_translation(g[0], g[1])),
                ("bounding_box_in_pixel_domain", lambda g: bounding_box_in_pixel_domain(g[0], g[1]))]
    for name, fn in ops:
        res, exc = call(fn, gbs)
        wit = {"op": name, "crs": list(tags), "affine": tuple(A)[:6]}
        sig = hsig(name, tuple(tags))
        if differ:
            ctx.judge_mismatch(name, res, exc, wit, cls, sig, want_type=ValueError)
            continue
        want, wexc = call(fn, ref)
        if wexc is not None or exc is not None:
            mon.check(exc is not None and wexc is not None and type(exc) is type(wexc), name, lambda: {**wit, "exc": exc, "ref_exc": wexc}, key="equal-crs-rejected", cls=cls, sig=sig)
            continue
        if isinstance(res, GeoBox):
            ok = res.shape == want.shape and tuple(res.affine) == tuple(want.affine) and res.crs == gbs[0].crs and (res.crs is None) == (cs[0] is None)
        elif isinstance(res, tuple) and res and isinstance(res[0], slice):
            ok = [(s.start, s.stop) for s in res] == [(s.start, s.stop) for s in want]
        else:
            ok = res == want
        mon.check(ok, name, lambda: {**wit, "result": repr(res)[:200], "reference": repr(want)[:200]}, key="geobox-result", cls=cls, sig=sig, sample=wit)


def streams(rng: random.Random, names, n_max=4):
    """Operand tag tuples of length 1..4 with one odd tag at every position (plus all-same)."""
    out = []
    for n in range(1, n_max + 1):
        base = rng.choice(names)
        out.append((base,) * n)
        for pos in range(n):
            if n == 1:
                continue
            odd = rng.choice([x for x in names if x != base])
            t = [base] * n
            t[pos] = odd
            out.append(tuple(t))
    return out


def drive_history(ctx: Ctx, rng: random.Random, k_warm: int, n_probe: int, n_pairs: int) -> None:
    """A long-running process: hundreds of one-off CRSs (per-tile local projections) are used in two spellings each and dropped; later, thousands of *different*
    one-off CRSs are combined pairwise.  Whatever the library remembers about earlier objects (parse caches, verdicts keyed by object identity, ...) must not leak into
    the later verdicts.  Object addresses of the public `crs.proj` / the CRS wrapper are used only as a *search heuristic* (pairs that now live where an earlier equal
    pair lived are tried first); the verdict comes from the generator's labels, as everywhere in this check."""
    import gc

    import pyproj
    from odc.geo.crs import CRS

    mon = ctx.mon
    shp = shapes(rng)
    base = rng.randrange(10**6)

    def spec(i: int, fam: str) -> str:
        return f"+proj={fam} +lat_0={(i % 120) - 60} +lon_0={(i * 7) % 360 - 180} +x_0={base + i} +datum=WGS84 +units=m +no_defs"

    seen = {}
    warm = []
    for i in range(k_warm):
        s = spec(i, "laea")
        a, b = CRS(s), CRS(pyproj.CRS(s).to_wkt())
        ta, tb = f"warm{i}-proj", f"warm{i}-wkt"
        ctx.byname[ta], ctx.byname[tb] = (ta, f"warm{i}", a), (tb, f"warm{i}", b)
        mon.case = {"kind": "history", "phase": "warm", "spec": s}
        do_binary(ctx, rng.choice(["intersection", "intersects", "union", "__and__"]), ta, tb, "polygon", "polygon-hole", shp)
        for x, y in ((a, b), (b, a)):
            seen[id(x.proj)] = id(y.proj)
            seen[("w", id(x))] = id(y)
        warm.append((ta, tb))
    for ta, tb in warm:
        del ctx.byname[ta], ctx.byname[tb]
    del a, b, x, y
    gc.collect()
    live, cands = {}, []
    for j in range(n_probe):
        s = spec(j, "aeqd" if j % 2 else "ortho")
        x = CRS(s)
        t = f"probe{j}"
        ctx.byname[t] = (t, t, x)
        live[id(x.proj)] = t
        live[("w", id(x))] = t
        for k in (id(x.proj), ("w", id(x))):
            o = live.get(seen.get(k))
            if o is not None and o != t:
                cands.append((t, o))
    mon.obs["history_pairs_at_recycled_addresses"] += len(cands)
    names = [f"probe{j}" for j in range(n_probe)]
    pairs = cands[: n_pairs // 2]
    pairs += [tuple(rng.sample(names, 2)) for _ in range(n_pairs - len(pairs))]
    for t1, t2 in pairs:
        for (u, v) in ((t1, t2), (t2, t1)):
            mon.case = {"kind": "history", "phase": "probe", "specs": [str(ctx.byname[u][2])[:80], str(ctx.byname[v][2])[:80]]}
            for op in ("intersects", "intersection", "__or__", "difference"):
                do_binary(ctx, op, u, v, "polygon", rng.choice(KINDS[:9]), shp)
            do_split(ctx, u, v, "polygon", "line", shp)
            do_intersects_fn(ctx, u, v, "polygon", "polygon", shp)
            for op in NARY:
                do_nary(ctx, op, (u, v), ["polygon", "polygon"], shp)
            do_bbox(ctx, rng, (u, v))
            do_geobox(ctx, rng, (u, v))
            mon.ok("history.pair", cls="recycled-address" if (t1, t2) in cands else "random")
    for t in names:
        del ctx.byname[t]
    mon.case = None


def run(mon: Monitor, tier: str, seed: int, shard: int, nshards: int) -> None:
    rng = random.Random(seed * 1000 + shard + 1)
    ctx = Ctx(mon)
    names = [p[0] for p in ctx.pool]
    pairs = list(itertools.product(names, repeat=2))
    full = tier == "thorough"
    shp = shapes(rng)
    n = 0
    for op in BINARY + ["split", "intersects()"]:
        for (t1, t2) in pairs:
            kind_pairs = list(itertools.product(KINDS, repeat=2)) if full else [(rng.choice(KINDS), rng.choice(KINDS)) for _ in range(6)]
            for (k1, k2) in kind_pairs:
                n += 1
                if n % nshards != shard:
                    continue
                if n % 500 == 0:
                    shp = shapes(rng)
                mon.case = {"kind": "binary", "op": op, "tags": [t1, t2], "kinds": [k1, k2], "shape_seed": None}
                try:
                    if op == "split":
                        do_split(ctx, t1, t2, k1, k2, shp)
                    elif op == "intersects()":
                        do_intersects_fn(ctx, t1, t2, k1, k2, shp)
                    else:
                        do_binary(ctx, op, t1, t2, k1, k2, shp)
                except Exception as e:
                    mon.error(op, e)
    # n-ary operations and BoundingBox / GeoBox operands
    reps = 40 if full else 10
    for rep in range(reps):
        if rep % nshards != shard % max(1, min(nshards, reps)):
            continue
        shp = shapes(rng)
        for tags in streams(rng, names) + [p for p in pairs if rep == 0 or rng.random() < 0.15]:
            kinds = [rng.choice(KINDS[:9] + KINDS[11:]) for _ in tags]
            if rng.random() < 0.3:
                kinds = [kinds[0]] * len(tags)  # twins: byte-identical coordinates under different CRS tags (de-duplication by shape must not hide the tag)
            for op in NARY:
                mon.case = {"kind": "nary", "op": op, "tags": list(tags), "kinds": kinds}
                try:
                    do_nary(ctx, op, tags, kinds, shp)
                except Exception as e:
                    mon.error(op, e)
            mon.case = {"kind": "bbox/geobox", "tags": list(tags)}
            try:
                do_bbox(ctx, rng, tags)
                do_geobox(ctx, rng, tags)
            except Exception as e:
                mon.error("bbox/geobox", e)
    mon.case = None
    try:
        drive_history(ctx, random.Random(seed * 1000 + shard + 101), 500, 4000 if not full else 8000, 12 if not full else 60)
    except Exception as e:
        mon.error("history", e)
    mon.floor("history.pair", 20)
    if full:
        mon.exhaustive = True
        mon.notes["exhaustive_domain"] = "binary ops x 17^2 CRS tag pairs x 14^2 kind pairs"
    for op in BINARY:
        mon.floor(f"Geometry.{op}", 100 // (1 if not full else 1))
    for pt, k in [("Geometry.split", 100), ("geom.intersects", 100), ("geom.multigeom", 50), ("geom.common_crs", 50), ("geom.unary_union", 50), ("geom.unary_intersection", 50),
                  ("bbox_union", 50), ("bbox_intersection", 50), ("BoundingBox.__or__", 20), ("BoundingBox.__and__", 20), ("GeoBox.__or__", 20), ("GeoBox.__and__", 20),
                  ("GeoBox.overlap_roi", 20), ("GeoBox.snap_to", 20), ("geobox_union_conservative", 50), ("geobox_intersection_conservative", 50), ("pixel_translation", 20),
                  ("bounding_box_in_pixel_domain", 20)]:
        mon.floor(pt, k)
    for cls in ("none->geographic", "geographic->none", "none->projected", "projected->none", "geographic->projected", "projected->geographic", "projected->projected",
                "same:none", "same:geographic", "same:projected"):
        mon.floor(f"Geometry.union|{cls}", 1)
        mon.floor(f"Geometry.contains|{cls}", 1)
    for cls in ("mixed|n=3|odd@0", "mixed|n=3|odd@1", "mixed|n=3|odd@2", "mixed|n=4|odd@3", "mixed|n=2|odd@1"):
        mon.floor(f"geom.unary_union|{cls}", 1)
        mon.floor(f"bbox_union|{cls}", 1)
        mon.floor(f"geobox_union_conservative|{cls}", 1)


def replay(mon: Monitor, case) -> None:
    rng = random.Random(mon.seed)
    ctx = Ctx(mon)
    mon.case = case
    k = case.get("kind")
    if k == "history":
        # a verdict that depends on what the process did before: the whole history is replayed
        return drive_history(ctx, random.Random(mon.seed * 1000 + 101), 500, 4000, 12)
    # shapes are seeded-random; a CRS verdict does not depend on the coordinates, so several draws are replayed
    for _ in range(5):
        shp = shapes(rng)
        if k == "binary":
            t1, t2 = case["tags"]; k1, k2 = case["kinds"]
            if case["op"] == "split":
                do_split(ctx, t1, t2, k1, k2, shp)
            elif case["op"] == "intersects()":
                do_intersects_fn(ctx, t1, t2, k1, k2, shp)
            else:
                do_binary(ctx, case["op"], t1, t2, k1, k2, shp)
        elif k == "nary":
            do_nary(ctx, case["op"], tuple(case["tags"]), case["kinds"], shp)
        else:
            do_bbox(ctx, rng, tuple(case["tags"]))
            do_geobox(ctx, rng, tuple(case["tags"]))
