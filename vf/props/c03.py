"""C03 - reprojection planning never drops a needed pixel.

Post-condition monitor on compute_reproject_roi (every alias rebound): brute force over all destination pixel centres with an independent transform - numpy solve for the same
CRS, the oracle's own pyproj transformer across CRSs (never the library's cached transformer or ReprojectInfo.transform).
"""
from __future__ import annotations

import math
import random

import numpy as np

from .. import gen, pairs
from ..attach import attach, detach_all, calls, replay_call
from ..kernel import Monitor, call, hsig

PID = "C03"
RULE = ("seeded GeoBox pairs: same CRS (whole-pixel shifts, sub-pixel shifts, integer / near-integer / fractional scales, mirrors, rotations; contained, partial on each side, touching, "
        "disjoint near and far) x padding {None,0,1,3} x align {None,4,16}; different CRSs from a table of 10 CRSs with windows inside their valid areas (extents <= 2 deg, same / shifted / "
        "touching / near / far); all destination pixel centres are brute-forced; distinct = distinct (src, dst, padding, align)")
ASSUMPTIONS = ["numpy.linalg.solve on 3x3 pixel<->world matrices (same CRS) and the oracle's own pyproj transformer (cross CRS) give the true source location of a destination pixel centre",
               "centres within 1e-6 px (same CRS) / 0.02 px (cross CRS) of the source image edge are don't-care", "cross-CRS pairs stay inside CRS valid areas and <= 2 deg extents (5 boundary points per side, padding 1)"]
SHARDS = {"quick": 1, "thorough": 8}

_mon: Monitor = None  # type: ignore


def _err(label, e):
    _mon.error(label, e)


def _sl(roi):
    return [[s.start, s.stop] for s in roi]


def post_roi(args, kw, res, exc, snap):
    from odc.geo.geobox import GeoBox

    names = ("src", "dst", "ttol", "stol", "padding", "align")
    p = {"ttol": 0.05, "stol": 1e-3, "padding": None, "align": None}
    p.update(dict(zip(names, args)))
    p.update(kw)
    src, dst, padding, align = p["src"], p["dst"], p["padding"], p["align"]
    if not (isinstance(src, GeoBox) and isinstance(dst, GeoBox)):
        return _mon.skip("compute_reproject_roi", "GCP geobox")
    H, W = src.shape
    ny, nx = dst.shape
    if 0 in (H, W, ny, nx) or ny * nx > 300000:  # the brute force runs over destination pixels only
        return _mon.skip("compute_reproject_roi", "empty or too large for brute force")
    same = src.crs == dst.crs
    wit = lambda extra=None: {"src": gen.gbox_desc(src), "dst": gen.gbox_desc(dst), "padding": padding, "align": align,
                              "roi_src": _sl(res.roi_src) if res is not None else None, "roi_dst": _sl(res.roi_dst) if res is not None else None,
                              "scale": getattr(res, "scale", None), "read_shrink": getattr(res, "read_shrink", None), **(extra or {})}
    if exc is not None:
        return _mon.fail("compute_reproject_roi", wit({"exc": exc}), key="roi-raises", cls="same-crs" if same else "cross-crs")
    ri = res
    (sy0, sx0), (dy0, dx0) = ri.roi_src, ri.roi_dst
    rs = ri.read_shrink
    # ---- brute force
    jj, ii = np.meshgrid(np.arange(nx) + 0.5, np.arange(ny) + 0.5)
    pts = np.c_[jj.ravel(), ii.ravel()]
    try:
        S = pairs.dst_to_src_px(src, dst, pts)
    except Exception as e:
        return _mon.error("compute_reproject_roi", e)
    sxs, sys_ = S[:, 0], S[:, 1]
    m = 1e-6 if same else 0.02
    finite = np.isfinite(sxs) & np.isfinite(sys_)
    inside = finite & (sxs > m) & (sxs < W - m) & (sys_ > m) & (sys_ < H - m)
    # placement class from the brute force
    frac = inside.mean()
    # ---- (a) regions within their images
    ok_int = isinstance(rs, (int, np.integer)) and rs >= 1 and all(isinstance(v, (int, np.integer)) for s in (sy0, sx0, dy0, dx0) for v in (s.start, s.stop))
    if not ok_int:
        return _mon.fail("compute_reproject_roi", wit({"why": "non-integer region bounds or read_shrink"}), key="roi-not-integer")
    up = lambda n: -(-n // rs) * rs
    ok_dst = 0 <= dx0.start <= dx0.stop <= nx and 0 <= dy0.start <= dy0.stop <= ny
    ok_src = 0 <= sx0.start <= sx0.stop <= up(W) and 0 <= sy0.start <= sy0.stop <= up(H)
    # ---- (b) every needed pixel is inside the regions
    ind = (pts[:, 0] > dx0.start) & (pts[:, 0] < dx0.stop) & (pts[:, 1] > dy0.start) & (pts[:, 1] < dy0.stop)
    tol_s = 1e-6 if same else 0.05
    ins = (sxs >= sx0.start - tol_s) & (sxs <= sx0.stop + tol_s) & (sys_ >= sy0.start - tol_s) & (sys_ <= sy0.stop + tol_s)
    miss_dst = int((inside & ~ind).sum())
    miss_src = int((inside & ~ins).sum())
    # ---- (c) separation => both empty
    t = np.linspace(0, 1, 33)
    edge = np.array([(x * nx, 0) for x in t] + [(nx, y * ny) for y in t] + [((1 - x) * nx, ny) for x in t] + [(0, (1 - y) * ny) for y in t])
    E = pairs.dst_to_src_px(src, dst, edge)
    E = E[np.isfinite(E).all(axis=1)]
    sep_ok = True
    gap = None
    if len(E):
        gx = max(E[:, 0].min() - W, 0 - E[:, 0].max(), 0.0)
        gy = max(E[:, 1].min() - H, 0 - E[:, 1].max(), 0.0)
        gap = max(gx, gy)
        pad_eff = padding if padding is not None else (0 if ri.paste_ok else 1)
        margin = pad_eff + (align or 0) + (1e-6 if same else 1.5)
        if gap > margin:
            sep_ok = (sx0.stop - sx0.start) * (sy0.stop - sy0.start) == 0 and (dx0.stop - dx0.start) * (dy0.stop - dy0.start) == 0
    place = "disjoint" if frac == 0 and gap is not None and gap > 0 else "touching" if frac == 0 else "contained" if frac == 1 else "partial"
    # ---- (d) scale
    ok_scale = True
    why_scale = None
    sc2 = (float(ri.scale2.x), float(ri.scale2.y))
    if same:
        A = np.linalg.solve(pairs.M3(src.affine), pairs.M3(dst.affine))[:2, :2]
        sv = np.linalg.svd(A, compute_uv=False)
        ok_scale = abs(ri.scale - min(sc2)) <= 1e-12 * max(1.0, abs(ri.scale))
        if abs(A[0, 1]) < 1e-12 * abs(A[0, 0]) and abs(A[1, 0]) < 1e-12 * abs(A[1, 1]):
            ok_scale = ok_scale and abs(sc2[0] - abs(A[0, 0])) <= 1e-9 * abs(A[0, 0]) and abs(sc2[1] - abs(A[1, 1])) <= 1e-9 * abs(A[1, 1])
            why_scale = "per-axis pixel-size ratio"
        elif abs(sv[0] - sv[1]) <= 1e-9 * sv[0]:
            ok_scale = ok_scale and all(abs(v - sv[0]) <= 1e-7 * sv[0] for v in sc2)
            why_scale = "uniform scale of a similarity"
        else:
            ok_scale = ok_scale and all(sv[1] * (1 - 1e-6) <= v <= sv[0] * (1 + 1e-6) for v in sc2)
            why_scale = "bracketed by singular values"
    else:
        empty_dst = (dx0.stop - dx0.start) * (dy0.stop - dy0.start) == 0
        if empty_dst:
            ok_scale = ri.scale == 0 or ri.scale == min(sc2)
        else:
            cx, cy = (dx0.start + dx0.stop) / 2, (dy0.start + dy0.stop) / 2
            q = np.array([[cx, cy], [cx + 1, cy], [cx - 1, cy], [cx, cy + 1], [cx, cy - 1]])
            Q = pairs.dst_to_src_px(src, dst, q)
            if np.isfinite(Q).all():
                J = np.array([[(Q[1, 0] - Q[2, 0]) / 2, (Q[3, 0] - Q[4, 0]) / 2], [(Q[1, 1] - Q[2, 1]) / 2, (Q[3, 1] - Q[4, 1]) / 2]])
                sv = np.linalg.svd(J, compute_uv=False)
                ok_scale = abs(ri.scale - min(sc2)) <= 1e-12 * max(1.0, abs(ri.scale)) and all(sv[1] * 0.98 <= v <= sv[0] * 1.02 for v in sc2)
                why_scale = "bracketed by singular values of the Jacobian at the overlap centre"
    # ---- (e) read shrink
    ok_rs = rs >= 1 and (rs - ri.scale <= 1e-3 + 1e-12 or ri.scale < 1 and rs == 1)
    if ri.scale >= 1:
        _mon.obs["read_shrink_maximal" if rs >= math.floor(ri.scale + 1e-9) else "read_shrink_not_maximal"] += 1
    # ---- (f) the reported transform agrees with the independent one
    ok_tr = True
    k = min(len(pts), 25)
    if k and finite.any():
        from odc.geo import xy_

        sel = np.flatnonzero(finite)[:: max(1, finite.sum() // k)][:k]
        back = ri.transform.back([xy_(float(x), float(y)) for x, y in pts[sel]])
        B = np.array([b.xy for b in back], dtype="float64")
        tol_t = (1e-6 if same else 1e-3) * max(1.0, float(np.abs(S[sel]).max()))
        fin = np.isfinite(B).all(axis=1)
        ok_tr = bool(fin.any()) and float(np.abs(B[fin] - S[sel][fin]).max()) <= tol_t
    ok = ok_dst and ok_src and miss_dst == 0 and miss_src == 0 and sep_ok and ok_scale and ok_rs and ok_tr
    key = ("roi-outside-image" if not (ok_dst and ok_src) else "roi-drops-needed-pixel" if (miss_dst or miss_src) else "roi-not-empty-when-separated" if not sep_ok
           else "scale" if not ok_scale else "read-shrink" if not ok_rs else "transform")
    cls = ("same-crs" if same else "cross-crs") + "|" + place + ("" if padding is None and align is None else "|pad/align")
    _mon.check(ok, "compute_reproject_roi", lambda: wit({"within_dst": ok_dst, "within_src": ok_src, "needed_dst_pixels_outside_roi_dst": miss_dst, "needed_src_locations_outside_roi_src": miss_src,
               "separation_px": gap, "separated_empty_ok": sep_ok, "scale_ok": ok_scale, "scale_rule": why_scale, "scale2": sc2, "read_shrink_ok": ok_rs, "transform_ok": ok_tr, "paste_ok": ri.paste_ok}),
               key=key, cls=cls, sig=hsig("roi", gen.aff6(src.affine), tuple(src.shape), gen.aff6(dst.affine), tuple(dst.shape), str(src.crs), str(dst.crs), padding, align),
               sample=wit({"needed_pixels": int(inside.sum())}))
    _mon.obs["dst_pixel_centres_bruteforced"] += len(pts)


def install(mon: Monitor) -> None:
    global _mon
    _mon = mon
    from odc.geo import overlap as O

    attach(O, "compute_reproject_roi", post=post_roi, on_error=_err, label="compute_reproject_roi")


def drive(mon: Monitor, rng: random.Random, n_same: int, n_cross: int) -> None:
    from odc.geo.overlap import compute_reproject_roi

    for i in range(n_same):
        rs = rng.getrandbits(48)
        r = random.Random(rs)
        src, dst, kind, label = pairs.same_crs_pair(r, binary_exact=r.random() < 0.7)
        kw = {}
        if r.random() < 0.4:
            kw["padding"] = r.choice([0, 1, 3])
        if r.random() < 0.3:
            kw["align"] = r.choice([4, 16, 1, 2, 8])
        if r.random() < 0.1:
            kw["ttol"] = 0.01
        mon.obs[f"generated_same|{kind}"] += 1
        call(compute_reproject_roi, src, dst, **kw)
    for i in range(n_cross):
        r = random.Random(rng.getrandbits(48))
        pr = pairs.cross_crs_pair(r) if i % 10 else pairs.cross_crs_pair_large(r)
        if pr is None:
            continue
        src, dst, place = pr
        kw = {}
        if r.random() < 0.25:
            kw["padding"] = r.choice([1, 3])
        if r.random() < 0.2:
            kw["align"] = r.choice([4, 16, 1, 2, 8])
        mon.obs[f"generated_cross|{place}"] += 1
        call(compute_reproject_roi, src, dst, **kw)


def curvature_probes(mon: Monitor) -> None:
    """Fixed many-pixel pairs where a projected source edge bows past its own corners by several destination pixels."""
    from affine import Affine
    from odc.geo.geobox import GeoBox
    from odc.geo.overlap import compute_reproject_roi

    P = [
        (GeoBox((300, 300), Affine(1000, 0, 350_000, 0, -1000, 6_800_000), "EPSG:32633"), GeoBox((450, 600), Affine(0.02, 0, 9.0, 0, -0.02, 64.0), "EPSG:4326")),
        (GeoBox((200, 400), Affine(0.05, 0, 0.0, 0, -0.05, 60.0), "EPSG:4326"), GeoBox((500, 560), Affine(5000, 0, 2_600_000, 0, -5000, 4_600_000), "EPSG:3035")),
        (GeoBox((256, 256), Affine(10_000, 0, -1_280_000, 0, 10_000, 6_000_000), "EPSG:3857"), GeoBox((500, 500), Affine(0.1, 0, -25.0, 0, -0.1, 75.0), "EPSG:4326")),
        (GeoBox((240, 300), Affine(4000, 0, -900_000, 0, -4000, -2_000_000), "EPSG:3577"), GeoBox((480, 560), Affine(0.04, 0, 118.0, 0, -0.04, -12.0), "EPSG:4326")),
        (GeoBox((200, 200), Affine(2000, 0, 1_400_000, 0, -2000, 5_400_000), "EPSG:2193"), GeoBox((500, 500), Affine(0.015, 0, 169.5, 0, -0.015, -39.0), "EPSG:4326")),
        (GeoBox((300, 260), Affine(1000, 0, 350_000, 0, -1000, 6_800_000), "EPSG:32633"), GeoBox((520, 520), Affine(1500, 0, 4_200_000, 0, -1500, 4_500_000), "EPSG:3035")),
    ]
    for src, dst in P:
        # align alone (default padding) leaves the least slack around the point envelope: the margin must still be there
        for kw in ({}, {"padding": 0}, {"padding": 2, "align": 16}, {"align": 1}, {"align": 8}, {"padding": 1, "align": 2}):
            call(compute_reproject_roi, src, dst, **kw)
            mon.obs["curvature_probes"] += 1
        # the same two rasters after they have been used for something else: looked at (outline with few points, footprint, ...) and planned against a neighbour in their
        # own CRS with a sub-pixel shift (the non-paste same-CRS plan); then the cross-CRS plan again, on the same objects
        s2, d2 = GeoBox(src.shape, src.affine, src.crs), GeoBox(dst.shape, dst.affine, dst.crs)
        gen.warm(s2, full=False), gen.warm(d2, full=False)
        call(compute_reproject_roi, GeoBox(d2.shape, d2.affine * Affine.translation(0.3, 0.2), d2.crs), d2)
        call(compute_reproject_roi, s2, GeoBox(s2.shape, s2.affine * Affine.translation(0.3, 0.2), s2.crs))
        for kw in ({}, {"align": 8}):
            call(compute_reproject_roi, s2, d2, **kw)
            mon.obs["curvature_probes_on_used_objects"] += 1


def reverse_curvature_probes(mon: Monitor) -> None:
    """The other way round: a wide destination strip inside a finer, larger source, so that the destination's edges are curved in *source* pixel space with
    the extremum between the boundary samples (0.5 source px here).  Default padding only: the margin exists for exactly this."""
    from affine import Affine
    from odc.geo.geobox import GeoBox
    from odc.geo.overlap import compute_reproject_roi

    Q = [
        # fine destination pixels (centres 200 m from the edge), thin strips to keep the brute force small
        (GeoBox((3500, 4500), Affine(0.01, 0, 110.0, 0, -0.01, -10.0), "EPSG:4326"), GeoBox((60, 3000), Affine(400, 0, -150_000.0, 0, -400, -3_000_000.0), "EPSG:3577")),
        (GeoBox((3500, 4500), Affine(0.01, 0, 110.0, 0, -0.01, -9.97), "EPSG:4326"), GeoBox((60, 3000), Affine(400, 0, -150_000.0, 0, -400, -3_276_000.0), "EPSG:3577")),
        (GeoBox((3000, 4500), Affine(0.01, 0, -10.0, 0, -0.01, 65.0), "EPSG:4326"), GeoBox((60, 3000), Affine(400, 0, 4_100_000.0, 0, -400, 3_300_000.0), "EPSG:3035")),
        (GeoBox((3000, 4500), Affine(0.01, 0, -10.0, 0, -0.01, 65.0), "EPSG:4326"), GeoBox((60, 3000), Affine(400, 0, 4_100_000.0, 0, -400, 3_000_000.0), "EPSG:3035")),
    ]
    for src, dst in Q:
        for kw in ({}, {"align": 1}, {"align": 8}, {"padding": 1, "align": 2}, {"padding": 3, "align": 8}):
            call(compute_reproject_roi, src, dst, **kw)
            mon.obs["reverse_curvature_probes"] += 1
        # and on objects that have been used before (see curvature_probes)
        s2, d2 = GeoBox(src.shape, src.affine, src.crs), GeoBox(dst.shape, dst.affine, dst.crs)
        gen.warm(s2, full=False), gen.warm(d2, full=False)
        call(compute_reproject_roi, GeoBox((40, 50), d2.affine * Affine.translation(0.3, 0.2), d2.crs), d2)
        for kw in ({}, {"align": 8}):
            call(compute_reproject_roi, s2, d2, **kw)
            mon.obs["curvature_probes_on_used_objects"] += 1


def antimeridian_edge_probes(mon: Monitor) -> None:
    """Geographic rasters with an edge exactly on +180 / -180 (global mosaics, the last web-mercator tile column): nothing wraps, the rasters just end there."""
    from affine import Affine
    from odc.geo.geobox import GeoBox
    from odc.geo.overlap import compute_reproject_roi

    MM = 20037508.342789244
    glob = lambda r: GeoBox((int(round(180 / r)), int(round(360 / r))), Affine(r, 0, -180, 0, -r, 90), "EPSG:4326")

    def web(z, tx, ty, n=256):
        span = 2 * MM / 2**z
        return GeoBox((n, n), Affine(span / n, 0, -MM + tx * span, 0, -span / n, MM - ty * span), "EPSG:3857")

    P = [(glob(0.25), web(2, 3, 1)), (glob(0.25), web(3, 7, 3)), (glob(0.5), web(2, 0, 2)), (glob(0.25), web(3, 0, 4)),
         (GeoBox((500, 500), Affine(4000, 0, MM - 2_000_000, 0, -4000, -1_000_000), "EPSG:3857"), GeoBox((240, 160), Affine(0.0625, 0, 170, 0, -0.0625, -10), "EPSG:4326")),
         (GeoBox((500, 500), Affine(4000, 0, -MM, 0, -4000, 3_000_000), "EPSG:3857"), GeoBox((240, 160), Affine(0.0625, 0, -180, 0, -0.0625, 25), "EPSG:4326")),
         (web(2, 3, 1, 400), GeoBox((200, 360), Affine(0.25, 0, 90, 0, -0.25, 70), "EPSG:4326"))]
    for src, dst in P:
        for kw in ({}, {"align": 8}):
            call(compute_reproject_roi, src, dst, **kw)
            mon.obs["antimeridian_edge_probes"] += 1


def spelling_probes(mon: Monitor, rng: random.Random, n: int) -> None:
    """The same CRS written in two ways on the two rasters (code vs WKT vs pyproj object vs lower case): still one CRS, still the exact pixel-to-pixel relation, wherever the
    rasters lie - including geographic grids that run 0..360 or a few pixels past +-180 / +-90, which is where a detour through lon/lat would cut them."""
    import pyproj
    from affine import Affine
    from odc.geo.geobox import GeoBox
    from odc.geo.overlap import compute_reproject_roi

    p4326, p3857 = pyproj.CRS.from_epsg(4326), pyproj.CRS.from_epsg(3857)
    sp = {"4326": ["EPSG:4326", "epsg:4326", p4326.to_wkt(), p4326, 4326], "3857": ["EPSG:3857", p3857.to_wkt(), p3857, "epsg:3857"]}
    fixed = [
        (GeoBox((180, 360), Affine(1.0, 0, 0.0, 0, -1.0, 90.0), sp["4326"][0]), GeoBox((60, 80), Affine(0.25, 0, 170.0, 0, -0.25, 10.0), sp["4326"][2])),     # 0..360 grid, window 170E..190E
        (GeoBox((180, 360), Affine(1.0, 0, 0.0, 0, -1.0, 90.0), sp["4326"][2]), GeoBox((90, 180), Affine(2.0, 0, 0.0, 0, -2.0, 90.0), sp["4326"][0])),      # both 0..360, scale 2
        (GeoBox((188, 368), Affine(1.0, 0, -184.0, 0, -1.0, 94.0), sp["4326"][3]), GeoBox((180, 360), Affine(1.0, 0, -180.0, 0, -1.0, 90.0), sp["4326"][0])),  # padded by 4 px past the limits
        (GeoBox((180, 360), Affine(1.0, 0, -180.0, 0, -1.0, 90.0), sp["4326"][0]), GeoBox((188, 368), Affine(1.0, 0, -184.0, 0, -1.0, 94.0), sp["4326"][1])),
        (GeoBox((100, 100), Affine(0.1, 0, 175.0, 0, -0.1, -85.0), sp["4326"][4]), GeoBox((120, 130), Affine(0.1, 0, 174.0, 0, -0.1, -84.0), sp["4326"][2])),   # past 180 E and 90 S
        (GeoBox((64, 64), Affine(1000.0, 0, 2.0e7, 0, -1000.0, 1.0e5), sp["3857"][0]), GeoBox((80, 70), Affine(1000.0, 0, 2.0e7 - 5000.0, 0, -1000.0, 1.1e5), sp["3857"][1])),  # past the web-mercator edge
    ]
    for a, b in fixed:
        for kw in ({}, {"padding": 1}, {"align": 4}):
            call(compute_reproject_roi, a, b, **kw)
            mon.obs["same_crs_two_spellings_probes"] += 1
    for _ in range(n):
        src, dst, _k, _l = pairs.same_crs_pair(rng, binary_exact=True)
        fam = rng.choice(["4326", "3857"])
        sa, sb = rng.sample(sp[fam], 2)
        sc = 1.0 if fam == "3857" else 0.01
        A = lambda g: Affine(g.affine.a * sc, 0, g.affine.c * sc + (rng.choice([0, 170, -178, 355]) if fam == "4326" else 0), 0, g.affine.e * sc, g.affine.f * sc)
        off = A(src).c - src.affine.c * sc
        a_ = GeoBox(src.shape, A(src), sa)
        b_ = GeoBox(dst.shape, Affine(dst.affine.a * sc, 0, dst.affine.c * sc + off, 0, dst.affine.e * sc, dst.affine.f * sc), sb)
        if abs(dst.affine.b) > 0 or abs(dst.affine.d) > 0:
            continue
        call(compute_reproject_roi, a_, b_)
        mon.obs["same_crs_two_spellings_pairs"] += 1


def tiny_rotation_probes(mon: Monitor) -> None:
    """Long rasters whose grids differ by a few hundredths of a degree of rotation: far below any "is it rotated" tolerance of 1e-3 on the matrix terms, yet two thousand
    pixels along the raster the rows have drifted apart by more than a pixel - the plan must follow that drift."""
    from affine import Affine
    from odc.geo.geobox import GeoBox
    from odc.geo.overlap import compute_reproject_roi

    for ang, (sh, dh), n, ty in [(0.04, (200, 140), 2000, 120), (-0.04, (200, 140), 2000, -60), (0.025, (120, 130), 2300, 60), (0.05, (150, 100), 1700, -40), (0.04, (200, 140), 2000, 0)]:
        src = GeoBox((sh, n), Affine(10.0, 0, 300_000.0, 0, -10.0, 6_000_000.0), "EPSG:32633")
        for P in (Affine.translation(0, ty) * Affine.rotation(ang), Affine.translation(3, ty) * Affine.rotation(ang) * Affine.scale(2)):
            dst = GeoBox((dh, n if P.a < 1.5 else n // 2), src.affine * P, "EPSG:32633")
            for a, b in ((src, dst), (dst, src)):
                call(compute_reproject_roi, a, b)
                mon.obs["tiny_rotation_probes"] += 1


def drive_oneoff(mon: Monitor, rng: random.Random, n: int) -> None:
    """A loader's life: a stream of rasters, each in its own made-up local projection (per-tile transverse Mercator / LAEA), planned into a lon/lat grid and back, the
    CRS objects dropped afterwards.  Whatever the library caches along the way (parsed CRSs, transformers keyed by object identity), plan number 300 is judged like plan
    number 1 (post_roi's oracle builds its own transformer from the WKT)."""
    import gc

    from affine import Affine
    from odc.geo.geobox import GeoBox
    from odc.geo.overlap import compute_reproject_roi

    for i in range(n):
        lon0, lat0 = rng.uniform(-160, 160), rng.uniform(-60, 60)
        proj = rng.choice(["+proj=tmerc +lat_0=0 +lon_0={lon:.3f} +k=0.9996 +x_0=500000 +y_0=0 +datum=WGS84 +units=m +no_defs", "+proj=laea +lat_0={lat:.3f} +lon_0={lon:.3f} +x_0=0 +y_0=0 +datum=WGS84 +units=m +no_defs"]).format(lon=lon0, lat=lat0)
        tm = "tmerc" in proj
        y_c = lat0 * 110_574.0 if tm else 0.0
        x_c = 500_000.0 if tm else 0.0
        src = GeoBox((40, 50), Affine(1000.0, 0, x_c - 25_000.0, 0, -1000.0, y_c + 20_000.0), proj)
        dst = GeoBox((48, 64), Affine(0.01, 0, lon0 - 0.3 + rng.uniform(-0.1, 0.1), 0, -0.01, lat0 + 0.25 + rng.uniform(-0.1, 0.1)), "EPSG:4326")
        a, b = (src, dst) if i % 3 else (dst, src)
        call(compute_reproject_roi, a, b)
        del src, dst, a, b
        if i % 16 == 0:
            gc.collect()
    mon.obs["one_off_crs_plans"] += n


def run(mon: Monitor, tier: str, seed: int, shard: int, nshards: int) -> None:
    install(mon)
    try:
        rng = random.Random(seed * 1000 + shard + 3)
        q = tier == "quick"
        if shard == 0:
            curvature_probes(mon)
            reverse_curvature_probes(mon)
            antimeridian_edge_probes(mon)
            tiny_rotation_probes(mon)
        drive(mon, rng, 3500 if q else 60000, 500 if q else 8000)
        drive_oneoff(mon, random.Random(seed * 1000 + shard + 103), 300 if q else 1200)
        spelling_probes(mon, random.Random(seed * 1000 + shard + 104), 200 if q else 3000)
        mon.notes["indirect"] = "compute_reproject_roi has no caller inside odc-geo at this commit (it is public API for loaders); only direct calls are observed"
        for pt, n in [("compute_reproject_roi", 2500), ("compute_reproject_roi|same-crs|contained", 100), ("compute_reproject_roi|same-crs|partial", 300), ("compute_reproject_roi|same-crs|disjoint", 100),
                      ("compute_reproject_roi|same-crs|touching", 20), ("compute_reproject_roi|cross-crs|partial", 50), ("compute_reproject_roi|cross-crs|contained", 10),
                      ("compute_reproject_roi|cross-crs|disjoint", 30), ("compute_reproject_roi|same-crs|partial|pad/align", 50), ("compute_reproject_roi|cross-crs|partial|pad/align", 5)]:
            mon.floor(pt, n)
    finally:
        detach_all()


def replay(mon: Monitor, case) -> None:
    install(mon)
    try:
        if not replay_call(case):
            mon.error("replay", "case is not a recorded call")
    finally:
        detach_all()
