"""C18 - part writers: the upload is initiated exactly once; sinks honour their contract.

A. schedules: 2-3 concurrent first writes through the lazily initialised S3 writer run under the deterministic
   schedule controller (vf/sched.py) - in-process (one shared writer object + local lock, pre-registered or created on first use) and cluster-coordinated
   (one writer copy per worker, modelled linearizable distributed Variable + Lock) - and the history recorded by a
   fake S3 client with one global log is checked: exactly one create, every upload_part and the complete under that id,
   no writer call raised, no deadlock.  Exhaustive DFS within a preemption bound + seeded random walks; the thorough
   tier adds a real in-process distributed.Client stress.
B. MPUFileSink.finalise: destination == concatenation of the parts in the order given, temporary parts and directory gone,
   nothing else touched (audit hook).
C. limits: every writer reports the limits it was configured with, each maximum above its minimum.
"""
from __future__ import annotations

import itertools
import os
import random
import shutil
import tempfile

from .. import sched
from ..fakes import FakeS3, FsAudit
from ..kernel import Monitor, call, hsig, WORK_DIR

PID = "C18"
RULE = ("A: all schedules with <= 2 preemptions (2 workers) / <= 1-2 (3 workers, capped) at statement granularity of _ensure_init / initiate / write_part / __call__ / lock and client yield points, "
        "for the in-process path and the cluster path (prepared and unprepared shared variable), plus seeded random walks; B: seeded part lists (1-6 parts, sizes 0..3 minimum sizes, any order, "
        "default and relocated parts directory); C: all subsets of the four limit keywords with several values; distinct = distinct schedule (choice list) | sink case | limit configuration")
ASSUMPTIONS = ["fake S3 client with a single ordered log stands in for S3", "modelled distributed Variable/Lock are linearizable (cross-checked against a real in-process distributed.Client in the thorough tier)",
               "sys.monitoring LINE events give statement-granular interleavings; finer (bytecode-level) interleavings are not explored"]
SHARDS = {"quick": 1, "thorough": 8}
LEVEL = "exploration"

_REG = {"vars": {}, "locks": {}}
_UNSET = object()


class ModelVariable:
    def __init__(self, name=None, client=None):
        self.name = name

    def get(self, timeout=None):
        sched.yield_here("Variable.get")
        v = _REG["vars"].get(self.name, _UNSET)
        if v is _UNSET:
            raise TimeoutError()  # logical time: an unset variable never becomes readable within the timeout
        return v

    def set(self, value, **kw):
        sched.yield_here("Variable.set")
        _REG["vars"][self.name] = value

    def delete(self):
        _REG["vars"].pop(self.name, None)


class ModelLock:
    def __init__(self, name=None, *a, **kw):
        if a or kw:
            raise TypeError("Lock() takes the name only (scheduler_rpc/loop are not for callers)")
        self._l = _REG["locks"].setdefault(name, sched.CoopLock(f"DLock[{str(name)[:12]}]"))

    def __enter__(self):
        self._l.acquire()
        return self

    def __exit__(self, *a):
        self._l.release()
        return False

    def acquire(self, *a, **kw):
        return self._l.acquire()

    def release(self):
        return self._l.release()


class FakeClient:
    pass


def _setup(mode: str, fake: FakeS3):
    """Patch the module for one schedule; returns an undo function."""
    import distributed
    from odc.geo.cog import _s3

    saved = (_s3._dask_client, _s3.MultiPartUpload.s3_client, distributed.Lock, distributed.Variable, dict(_s3._state), _s3.Lock)
    _s3.MultiPartUpload.s3_client = lambda self: fake
    _REG["vars"].clear()
    _REG["locks"].clear()
    if mode == "local":
        _s3._dask_client = lambda: None
        _s3._state["mpu_lock"] = sched.CoopLock("local-lock")
    elif mode == "local-cold":
        # first use in the process: the lock registry is empty and the writers create the lock themselves
        _s3._dask_client = lambda: None
        _s3._state.clear()
        _s3.Lock = lambda: sched.CoopLock("local-lock")
    else:
        cl = FakeClient()
        _s3._dask_client = lambda: cl
        distributed.Lock = ModelLock
        distributed.Variable = ModelVariable

    def undo():
        _s3._dask_client, _s3.MultiPartUpload.s3_client, distributed.Lock, distributed.Variable = saved[:4]
        _s3._state.clear()
        _s3._state.update(saved[4])
        _s3.Lock = saved[5]
    return undo


def make_scenario(mode: str, nworkers: int, second_write: bool):
    """-> (workers, ctx) for one schedule.  ctx carries the fake client, the writers and the results."""
    from odc.geo.cog._s3 import DelayedS3Writer, MultiPartUpload

    fake = FakeS3(hook=sched.yield_here)
    undo = _setup(mode, fake)
    results = {}
    if mode in ("local", "local-cold"):
        w = DelayedS3Writer(MultiPartUpload("bkt", "key.tif"), {"ContentType": "image/tiff"})
        writers = [w] * nworkers
    elif mode.startswith("cluster-shared"):
        # a dask client exists, but the workers are threads of one process that were handed the very same writer object (distributed passes objects to in-process
        # workers without copying them; so does the threaded scheduler run next to a client): the cluster-coordinated path with shared mutable state
        w = DelayedS3Writer(MultiPartUpload("bkt", "key.tif"), {"ContentType": "image/tiff"})
        writers = [w] * nworkers
        if mode == "cluster-shared-prepared":
            w.prep_client(FakeClient())
    else:
        writers = [DelayedS3Writer(MultiPartUpload("bkt", "key.tif"), {"ContentType": "image/tiff"}) for _ in range(nworkers)]
        if mode == "cluster-prepared":
            DelayedS3Writer(MultiPartUpload("bkt", "key.tif"), {}).prep_client(FakeClient())

    def mk(i):
        def work():
            try:
                r = [writers[i](i + 2, b"x" * 8)]
                if second_write and i == 0:
                    # housekeeping between two writes of the same worker: a stale upload of the same key, left behind by an earlier crashed run, is aborted by id -
                    # that is another upload's id, the running one is none of its business
                    writers[i].mpu.cancel("stale-upload-of-an-earlier-run")
                    r.append(writers[i](i + 20, b"y" * 8))
                results[i] = ("ok", r)
            except BaseException as e:  # noqa: BLE001
                results[i] = ("exc", e)
        return work

    return [mk(i) for i in range(nworkers)], {"fake": fake, "undo": undo, "results": results, "writers": writers, "mode": mode, "n": nworkers}


def judge_schedule(mon: Monitor, ctrl, ctx, cls: str) -> None:
    from odc.geo.cog._s3 import DelayedS3Writer, MultiPartUpload

    fake, results, mode = ctx["fake"], ctx["results"], ctx["mode"]
    choices = ctrl.choices()
    wit = lambda extra=None: {"mode": mode, "workers": ctx["n"], "schedule": choices, "trace": [f"{s.chosen}@{s.where}" for s in ctrl.trace][:80], "log": fake.log[:12], **(extra or {})}
    try:
        dead = getattr(ctrl, "deadlock", None)
        if dead:
            return mon.fail("schedule", wit({"deadlock": str(dead)}), key="s3-deadlock", cls=cls)
        # finalise from yet another worker (cluster) / the same object (local), after all writes
        parts = [p for st, r in results.values() if st == "ok" for p in r]
        fin_exc = None
        if parts:
            fw = ctx["writers"][0] if mode.startswith("local") else DelayedS3Writer(MultiPartUpload("bkt", "key.tif"), {"ContentType": "image/tiff"})
            _, fin_exc = call(fw.finalise, sorted(parts, key=lambda p: p["PartNumber"]))
        creates = [e for e in fake.log if e[0] == "create"]
        ups = [e for e in fake.log if e[0] == "upload_part"]
        comps = [e for e in fake.log if e[0] == "complete"]
        excs = {i: r[1] for i, r in results.items() if r[0] == "exc"}
        ids = {e[3] for e in creates}
        ok_once = len(creates) == 1
        ok_ids = ok_once and all(e[3] in ids for e in ups) and all(e[3] in ids for e in comps)
        ok_noexc = not excs and fin_exc is None and len(results) == ctx["n"]
        ok_all = ok_once and ok_ids and ok_noexc and len(comps) == 1 and len(ups) == len(parts)
        key = ("s3-local-double-initiate" if mode.startswith("local") else "s3-cluster-double-initiate") if len(creates) > 1 else "s3-writer-raised" if not ok_noexc else "s3-wrong-upload-id" if not ok_ids else "s3-history"
        if not ok_noexc and mode.startswith("local") and any(isinstance(e, AssertionError) for e in excs.values()):
            key = "s3-local-double-initiate"
        if not ok_noexc and not mode.startswith("local") and any(isinstance(e, TypeError) for e in list(excs.values()) + [fin_exc]):
            key = "s3-cluster-lock-signature"
        mon.check(ok_all, "schedule", lambda: wit({"creates": len(creates), "uploads": len(ups), "completes": len(comps), "exceptions": {i: repr(e)[:200] for i, e in excs.items()}, "finalise_exc": fin_exc}),
                  key=key, cls=cls, sig=hsig(mode, ctx["n"], tuple(choices)), sample=wit({"preemptions": ctrl.preemptions()}))
    finally:
        ctx["undo"]()


def watch_codes():
    from odc.geo.cog import _s3

    return [_s3.DelayedS3Writer._ensure_init.__code__, _s3.MultiPartUpload.initiate.__code__, _s3.MultiPartUpload.write_part.__code__, _s3.DelayedS3Writer.__call__.__code__,
            _s3._mpu_local_lock.__code__, _s3._safe_get.__code__, _s3.DelayedS3Writer._shared.__code__]


def run_one(mon: Monitor, mode, n, second, prefix=(), chooser=None, cls=None):
    workers, ctx = make_scenario(mode, n, second)
    try:
        ctrl = sched.execute(workers, prefix, chooser)
    except sched.Deadlock as d:
        ctrl = sched.Controller(prefix)
        ctrl.deadlock = d  # type: ignore[attr-defined]
    judge_schedule(mon, ctrl, ctx, cls or f"{mode}|n={n}")
    return ctrl


def explore(mon: Monitor, mode: str, n: int, second: bool, bound: int, cap: int) -> None:
    count = 0
    stack = [[]]
    truncated = False
    seen_traces = set()
    while stack:
        if count >= cap:
            truncated = True
            break
        prefix = stack.pop()
        mon.case = {"kind": "schedule", "mode": mode, "n": n, "second": second, "prefix": prefix}
        ctrl = run_one(mon, mode, n, second, prefix, cls=f"{mode}|n={n}|dfs")
        count += 1
        tr = ctrl.trace
        seen_traces.add(tuple(ctrl.choices()))
        for i in range(len(prefix), len(tr)):
            s = tr[i]
            base = ctrl.preemptions(i)
            for alt in s.ready:
                if alt == s.chosen:
                    continue
                p = base + (1 if (s.last is not None and s.last in s.ready and alt != s.last) else 0)
                if p <= bound:
                    stack.append([x.chosen for x in tr[:i]] + [alt])
    mon.obs[f"dfs_schedules|{mode}|n={n}|bound={bound}"] += count
    mon.obs[f"dfs_distinct|{mode}|n={n}"] += len(seen_traces)
    if truncated:
        mon.obs[f"dfs_truncated|{mode}|n={n}|bound={bound}"] += 1
    else:
        mon.notes.setdefault("dfs_exhausted", []).append(f"{mode} n={n} second_write={second} preemptions<={bound}: {count} schedules")


def random_walks(mon: Monitor, rng: random.Random, count: int) -> None:
    for _ in range(count):
        mode = rng.choice(["local", "local-cold", "cluster-prepared", "cluster-unprepared", "cluster-shared-prepared", "cluster-shared-unprepared"])
        n = rng.choice([2, 3, 3])
        second = rng.random() < 0.3
        r = random.Random(rng.getrandbits(48))
        picks = []

        def chooser(ready, last):
            t = r.choice(ready) if r.random() < 0.6 or last not in ready else last
            return t
        mon.case = {"kind": "walk", "mode": mode, "n": n, "second": second}
        ctrl = run_one(mon, mode, n, second, (), chooser, cls=f"{mode}|n={n}|walk")
        mon.case = {"kind": "schedule", "mode": mode, "n": n, "second": second, "prefix": ctrl.choices()}


# --------------------------------------------------------------------------- B. file sink
def sink_case(mon: Monitor, rng: random.Random, workdir: str, big=None) -> None:
    from odc.geo.cog._mpu_fs import MPUFileSink

    d = tempfile.mkdtemp(prefix="sink-", dir=workdir)
    try:
        relocate = rng.random() < 0.4
        base = os.path.join(d, "elsewhere") if relocate else None
        if base:
            os.makedirs(base)
        bystander = os.path.join(d, "bystander.bin")
        with open(bystander, "wb") as f:
            f.write(b"DO NOT TOUCH")
        dst = os.path.join(d, "out.bin")
        existing = rng.choice([None, None, "before-sink", "before-finalise"])  # the same output produced a second time / an earlier run being replaced
        if existing == "before-sink":
            with open(dst, "wb") as f:
                f.write(b"STALE BYTES OF AN EARLIER RUN " * rng.choice([1, 200]))
        m = rng.choice([16, 4096])
        s = MPUFileSink(dst, parts_base=base, min_write_sz=m) if rng.random() < 0.5 else MPUFileSink(dst, parts_base=base)
        n = rng.randint(1, 6)
        ids = rng.sample(range(1, 60), n)
        datas = [os.urandom(rng.choice([0, 1, 10, m - 1, m, 3 * m, 5000])) for _ in ids]
        if big is not None:
            # one part of tens of megabytes among small ones (a full-resolution level next to overview levels): whatever faster copy path large parts take, order is order
            n = max(n, 3)
            ids = rng.sample(range(1, 60), n)
            datas = [os.urandom(rng.choice([1, 10, 100, 3000])) for _ in ids]
            datas[big % n if big % n else 1] = os.urandom(1) * ((1 << 24) + rng.choice([0, 5, 4096])) if rng.random() < 0.5 else os.urandom((1 << 24) + 5)
        # an earlier round on the same destination that left its part files behind (it crashed before finalise, or finalised with keep_parts=True): same part numbers,
        # same sizes, other bytes - and, within a round, a part written a second time with other bytes of the same length (a retried task): the last write counts
        earlier = rng.choice([None, None, None, "crashed", "kept-parts"])
        rewrite = rng.random() < 0.2
        cfg = {"parts": list(zip(ids, map(len, datas))), "relocated": relocate, "existing_destination": existing, "earlier_round": earlier, "part_rewritten": rewrite}
        if earlier:
            s0 = MPUFileSink(dst, parts_base=base)
            keep = rng.sample(range(n), rng.randint(1, n))
            old_parts, e0 = call(lambda: [s0(ids[k], bytes(255 - b for b in datas[k])) for k in keep])
            if e0 is None and earlier == "kept-parts":
                call(s0.finalise, old_parts, keep_parts=True)
        with FsAudit() as audit:
            if rewrite:
                k = rng.randrange(n)
                call(s, ids[k], bytes((b + 1) % 256 for b in datas[k]))
            parts, e = call(lambda: [s(i, b) for i, b in zip(ids, datas)])
            if e is not None:
                return mon.fail("filesink", {**cfg, "exc": e}, key="filesink-write-raises")
            order = list(range(n))
            if rng.random() < 0.5:
                rng.shuffle(order)
            if existing == "before-finalise":
                with open(dst, "wb") as f:
                    f.write(b"STALE BYTES OF AN EARLIER RUN " * rng.choice([1, 200]))
            res, e = call(s.finalise, [parts[o] for o in order])
        cfg["order"] = [ids[o] for o in order]
        if e is not None:
            return mon.fail("filesink", {**cfg, "exc": e}, key="filesink-finalise-raises", cls="empty-part" if any(len(datas[o]) == 0 for o in order[1:]) else "regular")
        with open(dst, "rb") as f:
            got = f.read()
        want = b"".join(datas[o] for o in order)
        pdir = os.path.join(base or d, ".out.bin.parts")
        left = sorted(x for _p, _d, fs in os.walk(d) for x in fs if x not in ("out.bin", "bystander.bin"))
        with open(bystander, "rb") as f:
            by_ok = f.read() == b"DO NOT TOUCH"
        touched = [ev for ev in audit.writes_to(bystander)]
        outside = [ev for ev in audit.events if ev[0] != "open" and not any(str(a).startswith(d) for a in ev[1:])]
        ok = got == want and not os.path.exists(pdir) and not left and by_ok and not touched and not outside and str(res) == dst
        mon.check(ok, "filesink", lambda: {**cfg, "content_equal": got == want, "len": [len(got), len(want)], "parts_dir_left": os.path.exists(pdir), "files_left": left, "bystander_touched": touched, "events_outside": outside[:5]},
                  key="filesink-contract", cls=("relocated" if relocate else "default") + ("|empty-part" if any(len(x) == 0 for x in datas) else "") + ("|existing-destination" if existing else ""), sig=hsig("fs", tuple(cfg["parts"]), tuple(cfg["order"]), relocate, earlier, rewrite),
                  sample=cfg)
        if ok:
            for dim in ([f"earlier-round:{earlier}"] if earlier else []) + (["part-rewritten"] if rewrite else []):
                mon.ok("filesink.history", cls=dim)
    finally:
        shutil.rmtree(d, ignore_errors=True)


# --------------------------------------------------------------------------- C. limits
def limits(mon: Monitor, rng: random.Random) -> None:
    from odc.geo.cog._mpu_fs import MPUFileSink
    from odc.geo.cog._s3 import DelayedS3Writer, MultiPartUpload, S3Limits

    defaults = {"min_write_sz": 4096, "max_write_sz": 5 * (1 << 30), "min_part": 1, "max_part": 10_000}
    values = {"min_write_sz": [1, 1024, 5 << 20], "max_write_sz": [1 << 20, 6 << 30], "min_part": [1, 5], "max_part": [100, 9999, 10_000]}
    keys = list(defaults)
    for k in range(len(keys) + 1):
        for subset in itertools.combinations(keys, k):
            for _ in range(3):
                kw = {name: rng.choice(values[name]) for name in subset}
                want = {**defaults, **kw}
                if not (want["max_write_sz"] > want["min_write_sz"] and want["max_part"] > want["min_part"]):
                    continue
                s = MPUFileSink("/nonexistent/out.bin", **kw)
                got = {name: getattr(s, name) for name in keys}
                ok = got == want and got["max_write_sz"] > got["min_write_sz"] and got["max_part"] > got["min_part"]
                mon.check(ok, "limits", lambda: {"writer": "MPUFileSink", "configured": kw, "reported": got, "expected": want}, key="filesink-limits", cls="MPUFileSink", sig=hsig("lim", tuple(sorted(kw.items()))),
                          sample={"configured": kw, "reported": got})
    for name, w in (("S3Limits", S3Limits()), ("MultiPartUpload", MultiPartUpload("b", "k")), ("DelayedS3Writer", DelayedS3Writer(MultiPartUpload("b", "k"), {}))):
        got = {k: getattr(w, k) for k in keys}
        ok = got == {"min_write_sz": 5 << 20, "max_write_sz": 5 << 30, "min_part": 1, "max_part": 10_000} and got["max_write_sz"] > got["min_write_sz"] and got["max_part"] > got["min_part"]
        mon.check(ok, "limits", {"writer": name, "reported": got}, key="s3-limits", cls=name, sig=hsig("lim", name))


# --------------------------------------------------------------------------- real in-process cluster (thorough)
def real_cluster(mon: Monitor, rng: random.Random, rounds: int) -> None:
    import time

    import distributed
    from odc.geo.cog import _s3
    from odc.geo.cog._s3 import DelayedS3Writer, MultiPartUpload

    saved = _s3.MultiPartUpload.s3_client
    client = None
    try:
        client = distributed.Client(processes=False, threads_per_worker=4, n_workers=1, dashboard_address=None)
        for rnd in range(rounds):
            jitter = random.Random(rng.getrandbits(32))
            fake = FakeS3(hook=lambda ev: time.sleep(jitter.choice([0, 0, 0.001, 0.003])))
            _s3.MultiPartUpload.s3_client = lambda self, _f=fake: _f
            key = f"k{rnd}-{rng.getrandbits(24)}.tif"
            prepared = rnd % 2 == 0
            if prepared:
                DelayedS3Writer(MultiPartUpload("bkt", key), {}).prep_client(client)

            def task(i, key=key):
                w = DelayedS3Writer(MultiPartUpload("bkt", key), {"ContentType": "x"})
                return w(i + 2, b"z" * 16)

            futs = [client.submit(task, i, pure=False) for i in range(4)]
            res, e = call(lambda: client.gather(futs))
            creates = [ev for ev in fake.log if ev[0] == "create"]
            ups = [ev for ev in fake.log if ev[0] == "upload_part"]
            ok = e is None and len(creates) == 1 and len(ups) == 4 and all(u[3] == creates[0][3] for u in ups)
            fin_exc = None
            if ok:
                fw = DelayedS3Writer(MultiPartUpload("bkt", key), {})
                _, fin_exc = call(lambda: client.submit(lambda: fw.finalise(sorted(res, key=lambda p: p["PartNumber"])), pure=False).result())
                comps = [ev for ev in fake.log if ev[0] == "complete"]
                ok = fin_exc is None and len(comps) == 1 and comps[0][3] == creates[0][3]
            key_ = "s3-cluster-lock-signature" if isinstance(e, TypeError) else "s3-cluster-double-initiate" if len(creates) > 1 else "s3-real-cluster"
            mon.check(ok, "real-cluster", lambda: {"round": rnd, "prepared": prepared, "creates": len(creates), "uploads": len(ups), "exc": e, "finalise_exc": fin_exc, "log": fake.log[:10]}, key=key_,
                      cls="prepared" if prepared else "unprepared", sig=hsig("rc", rnd, key))
    except Exception as e:
        mon.error("real-cluster", e)
    finally:
        _s3.MultiPartUpload.s3_client = saved
        if client is not None:
            try:
                client.close()
            except Exception:
                pass


def run(mon: Monitor, tier: str, seed: int, shard: int, nshards: int) -> None:
    rng = random.Random(seed * 1000 + shard + 18)
    q = tier == "quick"
    # exactly one thread runs at any time: pin the process to one core, cross-core futex wake-ups in a VM cost 5-10x
    aff = None
    try:
        aff = os.sched_getaffinity(0)
        cpus = sorted(aff)
        os.sched_setaffinity(0, {cpus[(shard + seed) % len(cpus)]})
    except (AttributeError, OSError):
        aff = None
    sched.watch(watch_codes())
    try:
        plans = [("local", 2, False, 2, 3000), ("local-cold", 2, False, 2, 2500), ("cluster-prepared", 2, False, 2, 2000), ("cluster-unprepared", 2, False, 2, 2000), ("local", 3, False, 1, 1500), ("cluster-prepared", 3, False, 1, 1200),
                 ("local", 2, True, 1, 600), ("cluster-shared-prepared", 2, False, 2, 2000), ("cluster-shared-unprepared", 2, False, 2, 2000)]
        if not q:
            plans = [("local", 2, False, 3, 60000), ("local-cold", 2, False, 3, 60000), ("local-cold", 3, False, 2, 60000), ("cluster-prepared", 2, False, 3, 60000), ("cluster-unprepared", 2, False, 3, 60000), ("local", 3, False, 2, 60000), ("cluster-prepared", 3, False, 2, 60000),
                     ("cluster-unprepared", 3, False, 2, 60000), ("local", 2, True, 2, 20000), ("cluster-prepared", 2, True, 2, 20000),
                     ("cluster-shared-prepared", 2, False, 3, 60000), ("cluster-shared-unprepared", 2, False, 3, 60000), ("cluster-shared-unprepared", 3, False, 2, 60000), ("cluster-shared-prepared", 2, True, 2, 20000)]
        for k, (mode, n, second, bound, cap) in enumerate(plans):
            if nshards > 1 and k % nshards != shard:
                continue
            explore(mon, mode, n, second, bound, cap)
        random_walks(mon, rng, 400 if q else 4000)
        mon.case = None
    finally:
        sched.unwatch()
        if aff is not None:
            try:
                os.sched_setaffinity(0, aff)
            except OSError:
                pass
    WORK_DIR.mkdir(parents=True, exist_ok=True)
    workdir = tempfile.mkdtemp(prefix=f"c18-{os.getpid()}-", dir=str(WORK_DIR))
    try:
        for _ in range(250 if q else 2500):
            rs = rng.getrandbits(48)
            mon.case = {"kind": "sink", "rs": rs}
            try:
                sink_case(mon, random.Random(rs), workdir)
            except Exception as e:
                mon.error("sink", e)
        for k in range(3 if q else 12):
            mon.case = {"kind": "sink-big", "k": k}
            try:
                sink_case(mon, random.Random(7000 + k), workdir, big=k + 1)
                mon.ok("filesink.history", cls="part-of-16MiB-or-more")
            except Exception as e:
                mon.error("sink", e)
        mon.case = None
    finally:
        shutil.rmtree(workdir, ignore_errors=True)
    limits(mon, rng)
    if q:
        real_cluster(mon, rng, 2)
    elif shard == 0:
        real_cluster(mon, rng, 30)
    floors = [("schedule", 1500 if q else 3000), ("filesink", 200), ("limits", 30), ("filesink|default|empty-part", 5), ("filesink|relocated", 20), ("filesink|default|existing-destination", 5), ("filesink.history|earlier-round:crashed", 10), ("filesink.history|earlier-round:kept-parts", 10), ("filesink.history|part-rewritten", 10), ("filesink.history|part-of-16MiB-or-more", 3), ("limits|MPUFileSink", 25)]
    if q or nshards == 1:
        floors += [("schedule|local|n=2|dfs", 200), ("schedule|cluster-prepared|n=2|dfs", 200), ("schedule|cluster-unprepared|n=2|dfs", 200), ("schedule|local|n=3|dfs", 200), ("schedule|local-cold|n=2|dfs", 200), ("real-cluster", 2),
                   ("schedule|cluster-shared-prepared|n=2|dfs", 200), ("schedule|cluster-shared-unprepared|n=2|dfs", 200)]
    for pt, n in floors:
        mon.floor(pt, n)


def replay(mon: Monitor, case) -> None:
    mon.case = case
    if case["kind"] == "schedule":
        sched.watch(watch_codes())
        try:
            run_one(mon, case["mode"], case["n"], case["second"], case["prefix"], cls="replay")
        finally:
            sched.unwatch()
    elif case["kind"] == "sink-big":
        WORK_DIR.mkdir(parents=True, exist_ok=True)
        wd = tempfile.mkdtemp(prefix=f"c18-{os.getpid()}-", dir=str(WORK_DIR))
        try:
            sink_case(mon, random.Random(7000 + case["k"]), wd, big=case["k"] + 1)
        finally:
            shutil.rmtree(wd, ignore_errors=True)
    elif case["kind"] == "sink":
        WORK_DIR.mkdir(parents=True, exist_ok=True)
        workdir = tempfile.mkdtemp(prefix=f"c18-{os.getpid()}-", dir=str(WORK_DIR))
        try:
            sink_case(mon, random.Random(case["rs"]), workdir)
        finally:
            shutil.rmtree(workdir, ignore_errors=True)
    else:
        mon.error("replay", "random walks are replayed through their recorded schedule case")
