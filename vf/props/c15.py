"""C15 - GeoTIFF/COG written through GDAL reads back identical.

File-content monitor: every file / byte string produced by write_cog, to_cog and write_cog_layers is read back with
rasterio and compared with the source (pixels, dtype, band count and order, transform, CRS, nodata), its internal
structure is inspected (tiling, block sizes, overview levels) and the overwrite protocol is observed through an audit
hook (no write-open / unlink / rename on an existing destination unless overwriting was requested).
"""
from __future__ import annotations

import hashlib
import os
import random
import shutil
import tempfile

import numpy as np
from affine import Affine

from .. import gen
from ..fakes import FsAudit
from ..kernel import Monitor, call, hsig, WORK_DIR

PID = "C15"
RULE = ("seeded writes: shapes 1..700 (both sides of 512) x layout YX / band-first / band-last x 8 dtypes x nodata x CRSs x north-up and rotated transforms x block sizes 16..512 incl. non-multiples of "
        "16 x overview lists [] [2] [2,4,8] / default / externally supplied overviews x windowed writes x intermediate compression x file vs memory destination x pre-existing destination with and "
        "without overwrite; distinct = distinct configuration")
ASSUMPTIONS = ["rasterio/GDAL as the independent reader (it is also the writer's backend: a GDAL bug is invisible)", "overview pixel values are judged only for externally supplied overviews"]
SHARDS = {"quick": 1, "thorough": 16}

DTYPES = ["uint8", "int8", "uint16", "int16", "uint32", "int32", "float32", "float64"]


def make_config(rng: random.Random):
    big = rng.random() < 0.12
    ny = rng.choice([512, 513, 600, 700]) if big else rng.choice([1, 2, 7, 16, 33, 100, 300, 511, rng.randint(1, 400)])
    nx = rng.choice([512, 520, 700]) if big else rng.choice([1, 3, 4, 16, 40, 128, 300, rng.randint(1, 400)])
    layout = rng.choice(["YX", "YX", "SYX", "YXS"])
    ns = 1 if layout == "YX" else rng.choice([1, 2, 3, 4])
    dtype = rng.choice(DTYPES)
    nodata = rng.choice([None, None, 0, 255 if dtype == "uint8" else 100 if dtype == "int8" else 9999 if dtype in ("uint16", "uint32") else -9999])
    ovr = rng.choice(["default", "default", [], [2], [2, 4, 8], "external"])
    if ovr == "external" and (min(ny, nx) < 4):
        ovr = "default"
    cfg = dict(ny=ny, nx=nx, layout=layout, ns=ns, dtype=dtype, nodata=nodata, crs=rng.choice(["EPSG:3857", "EPSG:4326", "EPSG:32633", "EPSG:3577"]), rotated=rng.random() < 0.2,
               blocksize=rng.choice([None, None, 16, 64, 100, 256, 512, 48]), ovr_blocksize=rng.choice([None, None, 16, 64]), overviews=ovr, windowed=rng.random() < 0.25,
               intermediate=rng.choice([False, False, True, "zstd", {"compress": "lzw"}]), dest=rng.choice(["file", "file", "mem"]), existing=rng.choice([None, None, "no-overwrite", "overwrite"]),
               api=rng.choice(["write_cog", "write_cog", "layers"]), data_seed=rng.randint(0, 10**6), nodata_via=rng.choice(["attrs", "attrs", "kw", "kw-over-attrs"]), data_kind=rng.choice(["random", "patchy", "patchy", "constant"]),
               dest_as=rng.choice(["str", "Path"]), ambient_env=rng.choice([None, None, None, {"GDAL_DISABLE_READDIR_ON_OPEN": "EMPTY_DIR"}, {"GDAL_DISABLE_READDIR_ON_OPEN": "TRUE", "GDAL_CACHEMAX": 64}, {"GDAL_NUM_THREADS": "2", "CPL_DEBUG": "OFF"}]))
    if rng.random() < 0.2:
        cfg["crs"] = rng.choice(gen.CUSTOM_RASTER_CRS)  # a raster in a user-defined CRS (no authority code)
    cfg["array_form"] = rng.choice(gen.ARRAY_FORMS)
    if isinstance(ovr, list):
        # GDAL refuses level lists that collapse the image to 1x1 more than once: keep levels that leave >= 2 px on the longer side
        ovr = [L for L in ovr if max(ny, nx) / L >= 2]
        cfg["overviews"] = ovr
    if cfg["api"] == "layers" and ovr not in ("external",):
        cfg["overviews"] = "external" if min(ny, nx) >= 4 else "none-single-layer"
    if cfg["dest"] == "mem":
        cfg["existing"] = None
    return cfg


def _patches(data, layout, kind, nodata, nprng) -> None:
    """Real rasters have large constant areas (zeros, fill value, a class code): whole internal tiles of one value, in all bands or in some."""
    if kind == "random":
        return
    yx = (slice(None),) if layout == "SYX" else ()
    ny, nx = (data.shape[1:] if layout == "SYX" else data.shape[:2])
    if kind == "constant":
        data[...] = 0 if nprng.random() < 0.6 else 7
        return
    vals = [0, 0, 7] + ([] if nodata is None or not np.isfinite(nodata) else [nodata])
    for _ in range(int(nprng.integers(1, 5))):
        y0, x0 = int(nprng.integers(0, ny)), int(nprng.integers(0, nx))
        h, w = int(nprng.choice([16, 64, 130, 300, ny])), int(nprng.choice([16, 64, 130, 300, nx]))
        if nprng.random() < 0.5:
            y0, x0 = (y0 // 16) * 16, (x0 // 16) * 16
        v = vals[int(nprng.integers(0, len(vals)))]
        if data.ndim == 3 and nprng.random() < 0.3:
            b = int(nprng.integers(0, data.shape[0 if layout == "SYX" else 2]))  # one band only
            if layout == "SYX":
                data[b, y0:y0 + h, x0:x0 + w] = v
            else:
                data[y0:y0 + h, x0:x0 + w, b] = v
        else:
            data[yx + (slice(y0, y0 + h), slice(x0, x0 + w))] = v


_SHARED_OPTS: dict = {}


def build_array(cfg):
    from odc.geo.geobox import GeoBox
    from odc.geo.xr import wrap_xr

    ny, nx, layout, ns = cfg["ny"], cfg["nx"], cfg["layout"], cfg["ns"]
    r = 0.001 if cfg["crs"] == "EPSG:4326" else 10.0
    ox_, oy_ = gen.crs_origin(cfg["crs"], r)
    A = Affine(r, 0, ox_, 0, -r, oy_)
    if cfg["rotated"]:
        A = Affine.translation(ox_, oy_) * Affine.rotation(30) * Affine.scale(r, -r)
    gb = GeoBox((ny, nx), A, cfg["crs"])
    shape = {"YX": (ny, nx), "SYX": (ns, ny, nx), "YXS": (ny, nx, ns)}[layout]
    nprng = np.random.default_rng(cfg["data_seed"])
    dt = np.dtype(cfg["dtype"])
    if dt.kind == "f":
        data = nprng.uniform(-1000, 1000, size=shape).astype(dt)
    else:
        info = np.iinfo(dt)
        data = nprng.integers(max(info.min, -30000), min(info.max, 30000), size=shape, dtype=np.int64).astype(dt)
    _patches(data, layout, cfg.get("data_kind", "random"), cfg["nodata"], nprng)
    import xarray as xr
    from odc.geo.xr import xr_coords

    ydim, xdim = gb.dimensions
    dims = {"YX": (ydim, xdim), "SYX": ("band", ydim, xdim), "YXS": (ydim, xdim, "band")}[layout]
    via = cfg.get("nodata_via", "attrs")
    if cfg["nodata"] is None or via == "kw":
        attrs = {}
    elif via == "kw-over-attrs":
        attrs = {"nodata": 1}  # the keyword has to win over the attribute
    else:
        attrs = {"nodata": cfg["nodata"]}  # (write_cog documents attrs['nodata'] as its only source; the CF `_FillValue` spelling is exercised where the code reads .odc.nodata: C05)
    # memory layout of what is handed over (values identical): the oracle keeps its own contiguous copy
    handed = gen.array_form(data.copy(), cfg.get("array_form", "plain"))
    xx = xr.DataArray(handed, dims=dims, coords=xr_coords(gb), attrs=attrs)
    return xx, gb, data


def external_overviews(xx, gb, data, layout, n=2):
    """Decimated copies with their GeoBoxes (values are the oracle's own: every 2nd pixel)."""
    import xarray as xr
    from odc.geo.xr import xr_coords

    out = []
    cur_gb, cur = gb, data
    for _ in range(n):
        ny, nx = cur_gb.shape
        if min(ny, nx) < 2:
            break
        nxt_gb = cur_gb.zoom_out(2)
        oy, ox = nxt_gb.shape
        if layout == "SYX":
            pad = np.zeros((cur.shape[0], oy * 2, ox * 2), dtype=cur.dtype)
            pad[:, :ny, :nx] = cur
            nxt = pad[:, ::2, ::2]
        elif layout == "YXS":
            pad = np.zeros((oy * 2, ox * 2, cur.shape[2]), dtype=cur.dtype)
            pad[:ny, :nx, :] = cur
            nxt = pad[::2, ::2, :]
        else:
            pad = np.zeros((oy * 2, ox * 2), dtype=cur.dtype)
            pad[:ny, :nx] = cur
            nxt = pad[::2, ::2]
        nxt = np.ascontiguousarray(nxt)
        out.append(xr.DataArray(nxt, dims=xx.dims, coords=xr_coords(nxt_gb), attrs=dict(xx.attrs)))
        cur_gb, cur = nxt_gb, nxt
    return out


def run_config(mon: Monitor, cfg, workdir: str) -> None:
    import rasterio

    from odc.geo.cog import to_cog, write_cog, write_cog_layers

    xx, gb, data = build_array(cfg)
    ny, nx, layout, ns = cfg["ny"], cfg["nx"], cfg["layout"], cfg["ns"]
    wit = lambda extra=None: {**cfg, **(extra or {})}
    cls = f"{layout}|{cfg['api']}|{cfg['dest']}"
    via = cfg.get("nodata_via", "attrs") if cfg["nodata"] is not None else "none"
    if cfg.get("data_kind", "random") != "random":
        # coverage marker: constant areas x write path x fill value (what block-skipping shortcuts would key on)
        mon.ok("workload", cls=f"const-areas|{'windowed' if cfg['windowed'] else 'whole'}|{'nodata-nonzero' if cfg['nodata'] not in (None, 0) else 'nodata-0-or-unset'}", sig=hsig("wl", repr(cfg)))
    kw = {}
    if cfg["blocksize"] is not None:
        kw["blocksize"] = cfg["blocksize"]
    if cfg["ovr_blocksize"] is not None:
        kw["ovr_blocksize"] = cfg["ovr_blocksize"]
    if cfg["windowed"]:
        kw["use_windowed_writes"] = True
    if cfg["intermediate"] is not False:
        kw["intermediate_compression"] = cfg["intermediate"]
        if isinstance(cfg["intermediate"], dict):
            # one options dict kept by the caller and passed to every write (a module-level constant in user code): the very same object each time
            kw["intermediate_compression"] = _SHARED_OPTS.setdefault(repr(sorted(cfg["intermediate"].items())), dict(cfg["intermediate"]))
    if cfg["nodata"] is not None and cfg.get("nodata_via", "attrs") != "attrs":
        kw["nodata"] = cfg["nodata"]
    ext = None
    if cfg["overviews"] == "external":
        ext = external_overviews(xx, gb, data, layout, 2)
        if not ext:
            cfg = {**cfg, "overviews": "default"}
    want_levels = None
    if cfg["overviews"] == "external":
        want_levels = [2 ** (i + 1) for i in range(len(ext))]
    elif cfg["overviews"] == "default":
        want_levels = [] if min(ny, nx) < 512 else [2, 4, 8, 16, 32]
    elif cfg["overviews"] == "none-single-layer":
        want_levels = []
    else:
        want_levels = list(cfg["overviews"])
        kw["overview_levels"] = list(cfg["overviews"])
    fn = os.path.join(workdir, f"c15_{cfg['data_seed']}.tif")
    for p in (fn,):
        if os.path.exists(p):
            os.remove(p)
    before = None
    if cfg["existing"]:
        with open(fn, "wb") as f:
            f.write(b"PRECIOUS CONTENT " * 7)
        st = os.stat(fn)
        before = (hashlib.sha1(open(fn, "rb").read()).hexdigest(), st.st_ino, st.st_mtime_ns)
        if cfg["existing"] == "overwrite":
            kw["overwrite"] = True

    # destinations are handed over as str or as pathlib.Path (both documented)
    import pathlib

    fn_arg = pathlib.Path(fn) if cfg.get("dest_as") == "Path" else fn

    def go():
        if cfg["api"] == "layers":
            layers = [xx] + (ext or [])
            kw2 = {k: v for k, v in kw.items() if k != "overview_levels"}
            return write_cog_layers(layers, fn_arg if cfg["dest"] == "file" else ":mem:", **kw2)
        if cfg["dest"] == "mem":
            return to_cog(xx, overviews=ext, **kw) if ext else to_cog(xx, **kw)
        return write_cog(xx, fn_arg, overviews=ext, **kw) if ext else write_cog(xx, fn_arg, **kw)

    import copy as _copy

    kw_before = _copy.deepcopy(kw)
    attrs_before = _copy.deepcopy(dict(xx.attrs))
    try:
        with FsAudit() as audit:
            if cfg.get("ambient_env"):
                # the caller's own GDAL configuration (cloud COG-reading workers run with directory listing switched off)
                with rasterio.Env(**cfg["ambient_env"]):
                    res, exc = call(go)
            else:
                res, exc = call(go)
        # keyword values and attributes stay the caller's: an options dict or a level list that comes back changed poisons the caller's next write
        changed = [k for k in kw if kw[k] != kw_before[k]] + (["<DataArray.attrs>"] if dict(xx.attrs) != attrs_before else [])
        mon.check(not changed, "arguments-unchanged", lambda: wit({"changed_arguments": changed, "now": {k: repr(kw.get(k))[:120] for k in changed}, "before": {k: repr(kw_before.get(k))[:120] for k in changed}}),
                  key="caller-arguments-mutated", cls=cfg["api"])
        if changed:
            _SHARED_OPTS.clear()
        if cfg["existing"] == "no-overwrite":
            st = os.stat(fn) if os.path.exists(fn) else None
            after = (hashlib.sha1(open(fn, "rb").read()).hexdigest(), st.st_ino, st.st_mtime_ns) if st else None
            touched = audit.writes_to(fn)
            ok = isinstance(exc, IOError) and after == before and not touched
            return mon.check(ok, "overwrite-protocol", lambda: wit({"exc": exc, "file_unchanged": after == before, "events_on_destination": touched[:5]}), key="existing-destination-touched" if after != before or touched else "existing-destination-no-error",
                             cls="refuse", sig=hsig("ow", repr(cfg)), sample=wit())
        if exc is not None:
            return mon.fail("write", wit({"exc": exc}), key="write-raises", cls=cls)
        if cfg["existing"] == "overwrite":
            mon.check(os.path.exists(fn) and hashlib.sha1(open(fn, "rb").read()).hexdigest() != before[0], "overwrite-protocol", wit, key="overwrite-did-not-replace", cls="replace", sig=hsig("ow", repr(cfg)))
        # ---- read back
        exp = data[None] if layout == "YX" else (data if layout == "SYX" else data.transpose(2, 0, 1))
        opener = (lambda **o: rasterio.open(fn, **o)) if cfg["dest"] == "file" else None
        memfile = None
        if cfg["dest"] == "mem":
            ok_bytes = isinstance(res, bytes) and len(res) > 0
            if not ok_bytes:
                return mon.fail("write", wit({"why": "memory destination did not return bytes", "type": type(res).__name__}), key="mem-not-bytes", cls=cls)
            memfile = rasterio.MemoryFile(res)
            opener = lambda **o: memfile.open(**o)
        else:
            if str(res) != fn:
                mon.fail("write", wit({"why": "returned path differs", "returned": str(res)}), key="returned-path", cls=cls)
        try:
            with opener() as src:
                back = src.read()
                ok_pix = back.shape == exp.shape and str(back.dtype) == cfg["dtype"] and np.array_equal(back, exp)
                ok_geo = src.transform.almost_equals(gb.transform, 1e-12 * max(1.0, abs(gb.transform.c), abs(gb.transform.f))) and gen.crs_read_back_ok(src.crs, cfg["crs"], gb.transform.c, gb.transform.f)
                ok_nodata = (src.nodata == cfg["nodata"]) or (cfg["nodata"] is None and src.nodata is None)
                blk = src.block_shapes
                bs = cfg["blocksize"] or 512
                up16 = lambda v: -(-v // 16) * 16
                want_blk = (up16(ny) if 0 < ny < bs else up16(bs), up16(nx) if 0 < nx < bs else up16(bs))
                import io

                import tifffile

                with tifffile.TiffFile(fn if cfg["dest"] == "file" else io.BytesIO(res)) as tf:
                    tiled = all(pg.is_tiled for pg in tf.pages)  # rasterio cannot tell a single full-width tile from a strip
                    npages = len(tf.pages)
                ok_blk = tiled and all(b[0] % 16 == 0 and b[1] % 16 == 0 and tuple(b) == want_blk for b in blk)
                ovr = [src.overviews(i + 1) for i in range(src.count)]
                ok_ovr = all(len(o) == len(want_levels) for o in ovr)
                ovr_shapes = []
                for li, L in enumerate(want_levels if ok_ovr else []):
                    with opener(OVERVIEW_LEVEL=li) as osrc:
                        ovr_shapes.append((osrc.height, osrc.width))
                    ok_ovr = ok_ovr and ovr_shapes[-1] == (-(-ny // L), -(-nx // L))
            key = ("band-first-cube-ambiguous" if (layout == "SYX" and ns == ny == nx and not ok_pix) else "readback-pixels" if not ok_pix else "readback-georef" if not ok_geo else "readback-nodata")
            mon.check(ok_pix and ok_geo and ok_nodata, "readback", lambda: wit({"shape": back.shape, "expected_shape": exp.shape, "dtype": str(back.dtype), "pixels_ok": bool(ok_pix), "georef_ok": bool(ok_geo), "nodata_ok": bool(ok_nodata)}),
                      key=key, cls=cls + (f"|nodata-{via}" if via not in ("attrs", "none") else ""), sig=hsig("c15", repr(cfg)), sample=wit())
            # the array stays the caller's: writing it must not change it (whatever its memory layout), nor its attributes
            mon.check(bool(np.array_equal(np.asarray(xx.values), data)), "input-unchanged", lambda: wit({"why": "the written DataArray holds other values after the call"}), key="input-mutated", cls=cfg.get("array_form", "plain"))
            mon.check(ok_blk, "structure.blocks", lambda: wit({"tiled": tiled, "block_shapes": blk, "expected": want_blk}), key="block-sizes", cls=cls)
            mon.check(ok_ovr, "structure.overviews", lambda: wit({"overview_factors_reported": ovr, "overview_shapes": ovr_shapes, "expected_levels": want_levels, "expected_shapes": [(-(-ny // L), -(-nx // L)) for L in want_levels]}), key="overview-levels", cls=f"{'big' if min(ny, nx) >= 512 else 'small'}|{cfg['overviews'] if isinstance(cfg['overviews'], str) else 'list'}")
            if ext and ok_pix and ok_ovr:
                okv = True
                for li, ov in enumerate(ext):
                    with opener(OVERVIEW_LEVEL=li) as osrc:
                        ob = osrc.read()
                    oe = ov.values
                    oe = oe[None] if layout == "YX" else (oe if layout == "SYX" else oe.transpose(2, 0, 1))
                    okv = okv and ob.shape == oe.shape and np.array_equal(ob, oe)
                cube_layer = layout == "SYX" and any(ov.shape[0] == ov.shape[1] == ov.shape[2] for ov in ext)
                mon.check(okv, "structure.external-overviews", wit, key="band-first-cube-ambiguous" if cube_layer else "external-overview-pixels", cls=cls)
        finally:
            if memfile is not None:
                memfile.close()
    finally:
        if os.path.exists(fn):
            os.remove(fn)


PINNED = [
    # band-last cubes (bands == rows == columns): the band axis cannot be told from the shape, the documented reading (and the DataArray's dims) say band-last (C15-9)
    dict(ny=3, nx=3, layout="YXS", ns=3, dtype="uint8", nodata=None, crs="EPSG:3857", rotated=False, blocksize=None, ovr_blocksize=None, overviews="default", windowed=False, intermediate=False, dest="file", existing=None, api="write_cog", data_seed=33),
    dict(ny=4, nx=4, layout="YXS", ns=4, dtype="int16", nodata=-9999, crs="EPSG:4326", rotated=False, blocksize=16, ovr_blocksize=None, overviews="default", windowed=False, intermediate=False, dest="mem", existing=None, api="layers", data_seed=34),
    dict(ny=16, nx=16, layout="YXS", ns=16, dtype="float32", nodata=None, crs="EPSG:32633", rotated=False, blocksize=16, ovr_blocksize=None, overviews=[2], windowed=True, intermediate=False, dest="file", existing=None, api="write_cog", data_seed=35),
    # rasters in user-defined CRSs that PROJ would "identify" as a registered one (C15-7: file created with EPSG:<guess> instead of the definition)
    dict(ny=40, nx=50, layout="YX", ns=1, dtype="uint16", nodata=None, crs="+proj=utm +zone=33 +ellps=intl +units=m +no_defs", rotated=False, blocksize=None, ovr_blocksize=None, overviews="default", windowed=False, intermediate=False, dest="file", existing=None, api="write_cog", data_seed=31),
    dict(ny=64, nx=48, layout="SYX", ns=2, dtype="float32", nodata=-9999, crs="+proj=tmerc +lat_0=49 +lon_0=-2 +k=0.9996012717 +x_0=400000 +y_0=-100000 +ellps=airy +units=m +no_defs", rotated=False, blocksize=16, ovr_blocksize=16, overviews="external", windowed=False, intermediate=False, dest="mem", existing=None, api="layers", data_seed=32),
    # pathlib.Path destination x existing file x overwrite=False, on the supplied-overviews path and on the ordinary one (C15-6)
    dict(ny=40, nx=50, layout="YX", ns=1, dtype="uint16", nodata=None, crs="EPSG:3857", rotated=False, blocksize=None, ovr_blocksize=None, overviews="external", windowed=False, intermediate=False, dest="file", existing="no-overwrite", api="write_cog", data_seed=26, dest_as="Path"),
    dict(ny=40, nx=50, layout="YX", ns=1, dtype="uint16", nodata=None, crs="EPSG:3857", rotated=False, blocksize=None, ovr_blocksize=None, overviews="external", windowed=False, intermediate=False, dest="file", existing="no-overwrite", api="layers", data_seed=27, dest_as="Path"),
    dict(ny=40, nx=50, layout="YX", ns=1, dtype="uint16", nodata=None, crs="EPSG:3857", rotated=False, blocksize=None, ovr_blocksize=None, overviews="default", windowed=False, intermediate=False, dest="file", existing="no-overwrite", api="write_cog", data_seed=28, dest_as="Path"),
    # supplied overviews written under an ambient GDAL configuration that switches directory listing off (C15-5)
    dict(ny=64, nx=80, layout="YX", ns=1, dtype="uint16", nodata=None, crs="EPSG:3857", rotated=False, blocksize=32, ovr_blocksize=None, overviews="external", windowed=False, intermediate=False, dest="file", existing=None, api="write_cog", data_seed=24, nodata_via="attrs", data_kind="random", ambient_env={"GDAL_DISABLE_READDIR_ON_OPEN": "EMPTY_DIR"}),
    dict(ny=48, nx=40, layout="SYX", ns=2, dtype="float32", nodata=-9999, crs="EPSG:4326", rotated=False, blocksize=16, ovr_blocksize=16, overviews="external", windowed=False, intermediate=False, dest="mem", existing=None, api="layers", data_seed=25, nodata_via="attrs", data_kind="random", ambient_env={"GDAL_DISABLE_READDIR_ON_OPEN": "EMPTY_DIR"}),
    # supplied overviews x nodata by keyword (differs from / absent in attrs): the conjunction seeded change C15-1 needs
    dict(ny=64, nx=80, layout="YX", ns=1, dtype="int16", nodata=-9999, crs="EPSG:3857", rotated=False, blocksize=32, ovr_blocksize=None, overviews="external", windowed=False, intermediate=False, dest="file", existing=None, api="write_cog", data_seed=21, nodata_via="kw", data_kind="random"),
    dict(ny=33, nx=40, layout="SYX", ns=2, dtype="uint8", nodata=255, crs="EPSG:4326", rotated=False, blocksize=16, ovr_blocksize=16, overviews="external", windowed=False, intermediate=False, dest="mem", existing=None, api="write_cog", data_seed=22, nodata_via="kw-over-attrs", data_kind="patchy"),
    # windowed writes x non-zero nodata x whole tiles of zeros (C15-2)
    dict(ny=128, nx=96, layout="YX", ns=1, dtype="int16", nodata=-9999, crs="EPSG:3857", rotated=False, blocksize=32, ovr_blocksize=None, overviews="default", windowed=True, intermediate=False, dest="file", existing=None, api="write_cog", data_seed=23, nodata_via="attrs", data_kind="constant"),
    dict(ny=40, nx=50, layout="YX", ns=1, dtype="uint16", nodata=None, crs="EPSG:3857", rotated=False, blocksize=None, ovr_blocksize=None, overviews="default", windowed=False, intermediate=False, dest="file", existing="no-overwrite", api="write_cog", data_seed=1),
    dict(ny=40, nx=50, layout="YX", ns=1, dtype="uint16", nodata=None, crs="EPSG:3857", rotated=False, blocksize=None, ovr_blocksize=None, overviews="external", windowed=False, intermediate=False, dest="file", existing="no-overwrite", api="layers", data_seed=2),
    dict(ny=40, nx=50, layout="YX", ns=1, dtype="uint16", nodata=None, crs="EPSG:3857", rotated=False, blocksize=None, ovr_blocksize=None, overviews=[], windowed=False, intermediate=False, dest="file", existing="no-overwrite", api="write_cog", data_seed=3),
    dict(ny=600, nx=520, layout="SYX", ns=2, dtype="int8", nodata=100, crs="EPSG:4326", rotated=False, blocksize=256, ovr_blocksize=64, overviews="default", windowed=True, intermediate="zstd", dest="mem", existing=None, api="write_cog", data_seed=4),
    dict(ny=512, nx=512, layout="YXS", ns=3, dtype="uint8", nodata=None, crs="EPSG:3857", rotated=True, blocksize=100, ovr_blocksize=None, overviews="default", windowed=False, intermediate=True, dest="file", existing="overwrite", api="write_cog", data_seed=5),
    dict(ny=511, nx=700, layout="YX", ns=1, dtype="float64", nodata=-9999, crs="EPSG:3577", rotated=False, blocksize=None, ovr_blocksize=None, overviews="default", windowed=False, intermediate=False, dest="file", existing=None, api="write_cog", data_seed=6),
]


def run(mon: Monitor, tier: str, seed: int, shard: int, nshards: int) -> None:
    WORK_DIR.mkdir(parents=True, exist_ok=True)
    workdir = tempfile.mkdtemp(prefix=f"c15-{os.getpid()}-", dir=str(WORK_DIR))
    try:
        rng = random.Random(seed * 1000 + shard + 15)
        cfgs = (PINNED if shard == 0 else []) + [make_config(random.Random(rng.getrandbits(48))) for _ in range(320 if tier == "quick" else 1300)]
        for cfg in cfgs:
            mon.case = {"kind": "cfg", "cfg": cfg}
            try:
                run_config(mon, cfg, workdir)
            except Exception as e:
                mon.error("config", e)
        mon.case = None
        for pt, n in [("readback", 200), ("structure.blocks", 200), ("structure.overviews", 200), ("structure.external-overviews", 20), ("overwrite-protocol", 30), ("overwrite-protocol|refuse", 15),
                      ("overwrite-protocol|replace", 4), ("structure.overviews|big|default", 3), ("structure.overviews|small|default", 20), ("readback|SYX|write_cog|mem", 2), ("readback|YXS|write_cog|file", 3), ("readback|YX|write_cog|file|nodata-kw", 1), ("readback|YX|write_cog|file|nodata-kw-over-attrs", 1), ("workload|const-areas|windowed|nodata-nonzero", 3), ("workload|const-areas|whole|nodata-nonzero", 10)]:
            mon.floor(pt, n)
    finally:
        shutil.rmtree(workdir, ignore_errors=True)


def replay(mon: Monitor, case) -> None:
    WORK_DIR.mkdir(parents=True, exist_ok=True)
    workdir = tempfile.mkdtemp(prefix=f"c15-{os.getpid()}-", dir=str(WORK_DIR))
    try:
        mon.case = case
        run_config(mon, case["cfg"], workdir)
    finally:
        shutil.rmtree(workdir, ignore_errors=True)
