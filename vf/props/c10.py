"""C10 - the paste shortcut is pixel-identical to a nearest-neighbour warp.

Differential monitor: for every same-CRS pair the plan returned by compute_reproject_roi is executed as a plain numpy
paste (mirrored per the sign of the dst->src scale) and compared bit for bit with GDAL's whole-image nearest-neighbour
warp run through the real rio_reproject, for every pixel type incl. the int8/bool conversion detour.  paste_ok itself
is compared with the generator's label (integer scale, whole-pixel shift within tolerance, no rotation/shear).
"""
from __future__ import annotations

import random

import numpy as np

from .. import gen, pairs
from ..kernel import Monitor, call, hsig

PID = "C10"
RULE = ("seeded same-CRS GeoBox pairs on binary-exact grids: whole-pixel shifts with sub-pixel residue {0,+-0.2,+-0.9}*ttol (paste) and {1.1,2,10}*ttol (no paste), ttol in {0.05,0.01}, "
        "mirroring in x and/or y, scales 2..4 and k+-{0.5,2}*stol, fractional scales, rotations; contained / partial / touching / disjoint; 8 dtypes incl. int8 and bool; "
        "distinct = distinct (src, dst, ttol) pair; every paste-able pair with read_shrink 1 is warped once per dtype")
ASSUMPTIONS = ["GDAL nearest-neighbour warp (through the library's own rio_reproject) is the reference image", "grids use binary-exact resolutions and residues stay >=10% away from a tolerance, so GDAL's own arithmetic cannot tie"]
SHARDS = {"quick": 1, "thorough": 8}

DTYPES = ["uint8", "int8", "uint16", "int16", "int32", "float32", "float64", "bool"]


def _sl(roi):
    return [[s.start, s.stop] for s in roi]


def pinned_pairs():
    """Unit-pixel grids with their corner at the CRS origin, in every orientation, against each other and against ordinary neighbours: the grids whose geotransform
    GDAL takes for "not georeferenced" (D35; seeded change C10-9 treats two such grids as "the same pixel grid" although mirrored ones share no pixel)."""
    from affine import Affine
    from odc.geo.geobox import GeoBox

    out = []
    U = lambda sx, sy, shape=(7, 9): GeoBox(shape, Affine(sx, 0, 0, 0, sy, 0), "EPSG:32633")
    for (a, b) in [((1, 1), (1, -1)), ((1, -1), (1, 1)), ((1, -1), (1, -1)), ((1, 1), (1, 1)), ((-1, -1), (1, -1)), ((1, -1), (-1, 1))]:
        src, dst = U(*a), U(*b, shape=(6, 8))
        P = ~src.affine * dst.affine
        out.append((src, dst, "mirror" if a != b else "shift", {"paste": True, "int_scale": 1, "P": tuple(P)[:6]}))
    src = U(1, -1)
    for dA in (Affine(1, 0, 3, 0, -1, -2), Affine(1, 0, -4, 0, 1, -5), Affine(2, 0, 0, 0, -2, 0)):
        dst = GeoBox((6, 8), dA, "EPSG:32633")
        P = ~src.affine * dst.affine
        out.append((src, dst, "shift", {"paste": None, "int_scale": None, "P": tuple(P)[:6]}))
        P2 = ~dst.affine * src.affine
        out.append((dst, src, "shift", {"paste": None, "int_scale": None, "P": tuple(P2)[:6]}))
    return out


def one_pair(mon: Monitor, rng: random.Random, given=None) -> None:
    from odc.geo.overlap import compute_reproject_roi

    ttol = rng.choice([0.05, 0.05, 0.01])
    stol = rng.choice([1e-3, 1e-3, 1e-3, 1e-2, 1e-4])
    src, dst, kind, label = pairs.same_crs_pair(rng, ttol=ttol, stol=stol, binary_exact=True)
    if given is not None:
        src, dst, kind, label = given
    H, W = src.shape
    ny, nx = dst.shape
    wit = lambda extra=None: {"src": gen.gbox_desc(src), "dst": gen.gbox_desc(dst), "kind": kind, "ttol": ttol, "stol": stol, "P_dst_to_src": label["P"], **(extra or {})}
    tight = rng.choice([{}, {}, {"padding": 0}, {"align": 0}])
    sig = hsig("p", gen.aff6(src.affine), (H, W), gen.aff6(dst.affine), (ny, nx), ttol, stol)
    nprng = np.random.default_rng(rng.randint(0, 2**31))
    ri, e = call(compute_reproject_roi, src, dst, ttol=ttol, stol=stol, **tight)
    if e is not None:
        return mon.fail("paste_ok", wit({"exc": e}), key="roi-raises")
    _judge_plan(mon, rng, nprng, ri, src, dst, kind, label, ttol, stol, wit, sig, labelled=True, dtypes=DTYPES)
    # the same pair planned with read padding / alignment requested: whatever such a plan *reports* is held to the same statement (a plan that says "paste" with factor one
    # must be executable as a paste and equal the warp; with a larger factor its source region must be the destination region scaled)
    if rng.random() < 0.35:
        kw = rng.choice([{"padding": 1}, {"padding": 3}, {"align": 2}, {"align": 4}, {"align": 16}, {"padding": 1, "align": 4}, {"padding": 2, "align": 8}])
        ri2, e = call(compute_reproject_roi, src, dst, ttol=ttol, stol=stol, **kw)
        if e is not None:
            return mon.fail("paste_ok", wit({"exc": e, "keywords": kw}), key="roi-raises")
        w2 = lambda extra=None: wit({"keywords": kw, **(extra or {})})
        mon.ok("plan.padded", cls="reports-paste" if ri2.paste_ok else "reports-no-paste")
        _judge_plan(mon, rng, nprng, ri2, src, dst, kind, label, ttol, stol, w2, hsig(sig, repr(kw)), labelled=False, dtypes=["uint8", "int8", "float32", "bool"])


def _judge_plan(mon, rng, nprng, ri, src, dst, kind, label, ttol, stol, wit, sig, labelled, dtypes) -> None:
    from odc.geo.roi import roi_is_empty
    from odc.geo.warp import rio_reproject

    H, W = src.shape
    ny, nx = dst.shape
    # ---- paste-ability is reported exactly for integer scale + whole-pixel shift within tolerance
    if label["paste"] is not None and (labelled or (ri.paste_ok and not label["paste"])):
        mon.check(bool(ri.paste_ok) == label["paste"], "paste_ok", lambda: wit({"paste_ok": ri.paste_ok, "expected": label["paste"], "roi_src": _sl(ri.roi_src), "roi_dst": _sl(ri.roi_dst)}),
                  key="paste-ok-wrong" + ("-accepts" if ri.paste_ok else "-rejects"), cls=f"{kind}|{'paste' if label['paste'] else 'no-paste'}" + ("" if stol == 1e-3 else f"|stol={stol:g}"), sig=sig, sample=wit({"paste_ok": ri.paste_ok}))
    if not ri.paste_ok:
        return
    P = np.array(label["P"]).reshape(2, 3)
    rs = ri.read_shrink
    (sy, sx), (dy, dx) = ri.roi_src, ri.roi_dst
    if rs > 1:
        # source region is exactly the destination region scaled by the factor (and sits where the grids say)
        ok = (sx.stop - sx.start) == rs * (dx.stop - dx.start) and (sy.stop - sy.start) == rs * (dy.stop - dy.start) and sx.start % rs == 0 and sy.start % rs == 0
        if ok and not roi_is_empty(ri.roi_dst):
            xs = sorted([P[0, 0] * dx.start + P[0, 2], P[0, 0] * dx.stop + P[0, 2]])
            ys = sorted([P[1, 1] * dy.start + P[1, 2], P[1, 1] * dy.stop + P[1, 2]])
            tol = (ttol + 2 * stol * max(nx, ny)) * rs + 1e-9
            ok = abs(xs[0] - sx.start) <= tol and abs(xs[1] - sx.stop) <= tol and abs(ys[0] - sy.start) <= tol and abs(ys[1] - sy.stop) <= tol
        return mon.check(ok, "paste.shrink", lambda: wit({"read_shrink": rs, "roi_src": _sl(ri.roi_src), "roi_dst": _sl(ri.roi_dst)}), key="shrink-region-not-scaled", cls=f"shrink{rs}", sig=sig,
                         sample=wit({"read_shrink": rs, "roi_src": _sl(ri.roi_src), "roi_dst": _sl(ri.roi_dst)}))
    if roi_is_empty(ri.roi_dst) and roi_is_empty(ri.roi_src):
        cls_place = "disjoint"
    else:
        cls_place = "overlap"
    for dtype in dtypes:
        if dtype == "bool":
            data = nprng.random((H, W)) > 0.5
            nodata = None
        else:
            data = (np.arange(H * W).reshape(H, W) % 120 + 1).astype(dtype)
            nodata = rng.choice([0, 0, 121]) if np.dtype(dtype).kind != "f" else rng.choice([None, -1.0, float("nan")])
        out = np.zeros((ny, nx), dtype=dtype)
        # the source in another memory layout (Fortran order, reversed / strided view, read-only): same pixels
        form = gen.ARRAY_FORMS[(H * 7 + W * 3 + ny + len(dtype)) % len(gen.ARRAY_FORMS)]
        handed = gen.array_form(data.copy(), form)
        _, e = call(rio_reproject, handed, out, src, dst, "nearest", src_nodata=None, dst_nodata=nodata)
        mon.obs["warps|source-" + form] += 1
        if not np.array_equal(handed, data):
            mon.fail("paste==warp", wit({"dtype": dtype, "why": "the source array was modified by the warp", "array_form": form}), key="input-mutated", cls=dtype)
            continue
        if e is not None:
            mon.fail("paste==warp", wit({"dtype": dtype, "exc": e}), key="warp-raises", cls=dtype)
            continue
        if dtype == "bool":
            fill = False
        elif nodata is None:
            fill = np.nan
        else:
            fill = nodata
        exp = np.full((ny, nx), fill, dtype=dtype)
        sub = data[ri.roi_src]
        if P[0, 0] < 0:
            sub = sub[:, ::-1]
        if P[1, 1] < 0:
            sub = sub[::-1, :]
        try:
            exp[ri.roi_dst] = sub
        except Exception as ex:
            mon.fail("paste==warp", wit({"dtype": dtype, "roi_src": _sl(ri.roi_src), "roi_dst": _sl(ri.roi_dst), "exc": ex}), key="paste-regions-incompatible", cls=dtype)
            continue
        if dtype in ("uint8", "float32", "int8", "bool") and (H + W + ny) % 3 == 0 and not (np.dtype(dtype).kind == "f" and nodata is None):  # (without a nodata value warp_affine leaves zeros, rio_reproject NaN: a convention, not judged)
            # the library's other way of asking for the same warp: pixel-to-pixel, with the planned dst -> src affine (warp_affine); it has to be the same image
            from affine import Affine as _A
            from odc.geo.warp import warp_affine

            out2 = np.zeros((ny, nx), dtype=dtype)
            _, e2 = call(warp_affine, gen.array_form(data.copy(), "plain"), out2, _A(*label["P"]), "nearest", src_nodata=None, dst_nodata=nodata)
            if e2 is not None:
                mon.fail("paste==warp", wit({"dtype": dtype, "exc": e2, "via": "warp_affine"}), key="warp-raises", cls=dtype)
            else:
                mon.check(bool(np.array_equal(out2, exp, equal_nan=np.dtype(dtype).kind == "f")), "paste==warp_affine", lambda: wit({"dtype": dtype, "nodata": nodata, "roi_src": _sl(ri.roi_src), "roi_dst": _sl(ri.roi_dst),
                          "pixels_differ": int((out2 != exp).sum())}), key="paste-differs-from-warp", cls=f"{dtype}|{'mirror' if (P[0, 0] < 0 or P[1, 1] < 0) else 'plain'}", sig=hsig(sig, dtype, "wa"))
        same = np.array_equal(out, exp, equal_nan=np.dtype(dtype).kind == "f")
        mon.check(bool(same), "paste==warp", lambda: wit({"dtype": dtype, "nodata": nodata, "roi_src": _sl(ri.roi_src), "roi_dst": _sl(ri.roi_dst), "pixels_differ": int((out != exp).sum()),
                  "warp": out, "paste": exp}), key="paste-differs-from-warp", cls=f"{dtype}|{cls_place}|{'mirror' if (P[0, 0] < 0 or P[1, 1] < 0) else 'plain'}", sig=hsig(sig, dtype),
                  sample=wit({"dtype": dtype, "roi_src": _sl(ri.roi_src), "roi_dst": _sl(ri.roi_dst)}))


def run(mon: Monitor, tier: str, seed: int, shard: int, nshards: int) -> None:
    rng = random.Random(seed * 1000 + shard + 10)
    n = 1800 if tier == "quick" else 30000
    if shard == 0:
        for k, g in enumerate(pinned_pairs()):
            mon.case = {"kind": "pinned", "k": k}
            try:
                one_pair(mon, random.Random(1000 + k), given=g)
                mon.ok("pinned-pairs")
            except Exception as e:
                mon.error("pair", e)
    for _ in range(n):
        rs = rng.getrandbits(48)
        mon.case = {"kind": "pair", "rs": rs}
        try:
            one_pair(mon, random.Random(rs))
        except Exception as e:
            mon.error("pair", e)
    mon.case = None
    for pt, k in [("paste_ok", 1000), ("paste==warp", 2000), ("paste.shrink", 50), ("paste_ok|subpix|paste", 30), ("paste_ok|subpix|no-paste", 30), ("paste_ok|rot|no-paste", 50),
                  ("paste_ok|fscale|no-paste", 50), ("paste_ok|scale|paste", 30), ("paste_ok|scale|no-paste", 10), ("paste_ok|scale|paste|stol=0.01", 5), ("paste_ok|scale|paste|stol=0.0001", 5), ("paste_ok|mirror|paste", 50),
                  ("paste==warp|int8|overlap|plain", 30), ("paste==warp|bool|overlap|plain", 30), ("paste==warp|float64|overlap|mirror", 10), ("paste==warp|uint16|disjoint|plain", 10), ("plan.padded", 300)] + ([("pinned-pairs", 10)] if shard == 0 else []):
        mon.floor(pt, k)


def replay(mon: Monitor, case) -> None:
    mon.case = case
    if case.get("kind") == "pinned":
        return one_pair(mon, random.Random(1000 + case["k"]), given=pinned_pairs()[case["k"]])
    one_pair(mon, random.Random(case["rs"]))
