import warnings; warnings.filterwarnings("ignore")
import numpy as np
if not hasattr(np, "find_common_type"):
    def fct(array_types, scalar_types):
        return np.result_type(*array_types, *scalar_types)
    np.find_common_type = fct
from odc.geo.geobox import GeoBox
from odc.geo.xr import xr_zeros, wrap_xr, xr_reproject
from affine import Affine
import dask.array as da, dask
gb = GeoBox((30,40), Affine(10,0,0,0,-10,0), "epsg:3857")
for dtype in ["float32","int16","uint8"]:
  for nodata in [None, -9]:
    if dtype=="uint8" and nodata is not None: nodata=255
    data = (np.arange(30*40).reshape(30,40)%97+1).astype(dtype)
    xx = wrap_xr(data, gb, nodata=nodata)
    xd = wrap_xr(da.from_array(data, chunks=(7,9)), gb, nodata=nodata)
    for name, dst in [("shift", gb.translate_pix(13.3,-7.2)), ("disjoint", gb.translate_pix(100,0)), ("rot", gb.rotate(20)), ("zoom", gb.zoom_out(1.7).translate_pix(-3,2))]:
        a = xr_reproject(xx, dst).values
        try:
            b = xr_reproject(xd, dst, chunks=(8,8)).compute(scheduler="sync").values
        except Exception as e:
            print(dtype, nodata, name, "ERR", type(e).__name__, str(e)[:100]); continue
        same = np.array_equal(a, b, equal_nan=(dtype=="float32"))
        print(dtype, nodata, name, "same" if same else f"DIFF n={np.sum(~((a==b)|(np.isnan(a.astype(float))&np.isnan(b.astype(float)))))}", "mem-fill", np.unique(a[(a<1)|np.isnan(a.astype(float))|(a==(nodata if nodata is not None else -12345))])[:3], "dask-fill", np.unique(b[(b<1)|np.isnan(b.astype(float))|(b==(nodata if nodata is not None else -12345))])[:3])
