import warnings; warnings.filterwarnings("ignore")
import numpy as np, random, math
from affine import Affine
from odc.geo.geobox import GeoBox, scaled_down_geobox
from collections import Counter
rng = random.Random(2); res=Counter(); ex={}
def M(g): 
    a,b,c,d,e,f = g.affine[:6]; return np.array([[a,b,c],[d,e,f],[0,0,1.0]])
def at(g, pts):  # pts Nx2 pixel -> world via numpy
    P = np.c_[pts, np.ones(len(pts))].T
    return (M(g)@P)[:2].T
def rnd():
    ny,nx = rng.choice([1,2,5,17,40]), rng.choice([1,3,8,33])
    r = rng.choice([10,0.25,1/3,30,1e-3])
    fam = rng.choice(["nu","mx","my","ns","rot","shear"])
    A = Affine.translation(rng.uniform(-1e6,1e6), rng.uniform(-1e6,1e6))
    A = A*{"nu":Affine.scale(r,-r),"mx":Affine.scale(-r,-r),"my":Affine.scale(r,r),"ns":Affine.scale(r,-2.5*r),"rot":Affine.rotation(rng.uniform(0,360))*Affine.scale(r,-r),"shear":Affine.shear(rng.uniform(-30,30),rng.uniform(-10,10))*Affine.scale(r,-r)}[fam]
    return GeoBox((ny,nx),A,rng.choice(["epsg:3857",None,"epsg:4326"])), fam
def close(a,b,g): 
    px = np.abs(M(g)[:2,:2]).sum(); tol = 1e-9*(np.abs(b).max()+px*(sum(g.shape)+20))
    return np.abs(a-b).max()<=tol
probe = np.array([[0,0],[1,0],[0,1],[3.5,2.25],[-2,7]])
for it in range(20000):
    g, fam = rnd(); ny,nx = g.shape
    op = rng.choice(["crop","pad","tp","flipx","flipy","rotate","zoom_out","zoom_to","sdown","left","right","top","bottom","center","rmul","mul","buffered","bbox","extent","res","coords"])
    try:
        if op=="crop":
            def rs(n):
                k=rng.choice(["s","neg","int","open"]); 
                if k=="int": i=rng.randint(-n,n-1); return i, (i%n, i%n+1)
                a=rng.randint(0,n-1); b=rng.randint(a+1,n)
                if k=="neg": return slice(a-n if rng.random()<.5 else a, b-n if b<n else None), (a,b)
                if k=="open": return slice(None,b), (0,b)
                return slice(a,b),(a,b)
            (sy,(y0,y1)),(sx,(x0,x1)) = rs(ny), rs(nx)
            h = g[sy,sx]
            ok = h.shape==(y1-y0,x1-x0) and close(at(h,probe), at(g,probe+[x0,y0]), g) and h.crs==g.crs
        elif op=="pad":
            px,py = rng.randint(0,5), rng.randint(0,5); h=g.pad(px,py); ok = h.shape==(ny+2*py,nx+2*px) and close(at(h,probe), at(g,probe-[px,py]), g)
        elif op=="tp":
            tx,ty = rng.uniform(-9,9), rng.randint(-5,5); h=g.translate_pix(tx,ty); ok = h.shape==g.shape and close(at(h,probe), at(g,probe+[tx,ty]), g)
        elif op=="flipx": h=g.flipx(); ok = close(at(h,probe), at(g, np.c_[nx-probe[:,0], probe[:,1]]), g)
        elif op=="flipy": h=g.flipy(); ok = close(at(h,probe), at(g, np.c_[probe[:,0], ny-probe[:,1]]), g)
        elif op=="rotate":
            deg = rng.uniform(-360,360); h=g.rotate(deg); c = at(g, np.array([[nx/2,ny/2]]))[0]
            th=math.radians(deg); R=np.array([[math.cos(th),-math.sin(th)],[math.sin(th),math.cos(th)]])
            want = (R@(at(g,probe)-c).T).T + c
            ok = close(at(h,probe), want, g) and h.shape==g.shape
        elif op=="zoom_out":
            f=rng.choice([0.5,2,3,1.7,0.3]); h=g.zoom_out(f); ok = h.shape==(max(1,math.ceil(ny/f)),max(1,math.ceil(nx/f))) and close(at(h,probe), at(g,probe*f), g)
        elif op=="zoom_to":
            sh=(rng.randint(1,50),rng.randint(1,50)); h=g.zoom_to(sh); ok = h.shape==sh and close(at(h,np.array([[0,0],[sh[1],sh[0]]])), at(g,np.array([[0,0],[nx,ny]])), g)
        elif op=="sdown":
            s=rng.randint(2,5); h=scaled_down_geobox(g,s); ok = h.shape==(-(-ny//s),-(-nx//s)) and close(at(h,probe), at(g,probe*s), g)
        elif op in("left","right","top","bottom"):
            h=getattr(g,op); d={"left":[-nx,0],"right":[nx,0],"top":[0,-ny],"bottom":[0,ny]}[op]; ok = h.shape==g.shape and close(at(h,probe), at(g,probe+d), g)
        elif op=="center": h=g.center_pixel; ok = h.shape==(1,1) and close(at(h,probe), at(g,probe+[nx//2,ny//2]), g)
        elif op=="rmul":
            T=Affine.translation(5,7)*Affine.rotation(10); h=T*g; Tm=np.array([[T.a,T.b,T.c],[T.d,T.e,T.f],[0,0,1]])
            want=(Tm@np.c_[at(g,probe),np.ones(len(probe))].T)[:2].T; ok=close(at(h,probe),want,g)
        elif op=="mul":
            T=Affine.translation(5,7)*Affine.scale(2,3); Tm=np.array([[T.a,T.b,T.c],[T.d,T.e,T.f],[0,0,1]]); h=g*T
            pp=(Tm@np.c_[probe,np.ones(len(probe))].T)[:2].T; ok=close(at(h,probe),at(g,pp),g)
        elif op=="buffered":
            if fam in("rot","shear"): continue
            xb,yb = rng.uniform(0,50)*abs(g.affine.a), rng.uniform(0,50)*abs(g.affine.e); h=g.buffered(xb,yb)
            bx=(h.shape.x-nx)//2; by=(h.shape.y-ny)//2
            ok = close(at(h,probe), at(g,probe-[bx,by]), g) and bx*abs(g.affine.a)>=xb-0.1*abs(g.affine.a)-1e-9 and (bx-1)*abs(g.affine.a) < xb and by*abs(g.affine.e)>=yb-0.1*abs(g.affine.e)-1e-9
        elif op=="bbox":
            c=at(g,np.array([[0,0],[nx,0],[0,ny],[nx,ny]])); bb=g.boundingbox
            ok = np.allclose([bb.left,bb.bottom,bb.right,bb.top],[c[:,0].min(),c[:,1].min(),c[:,0].max(),c[:,1].max()], rtol=0, atol=1e-9*np.abs(c).max()); op=f"bbox-{'rot' if fam in('rot','shear') else 'aa'}"
        elif op=="extent":
            c=at(g,np.array([[0,0],[0,ny],[nx,ny],[nx,0],[0,0]])); ok=np.allclose(np.asarray(g.extent.exterior.coords), c, rtol=0, atol=1e-9*np.abs(c).max())
        elif op=="res":
            a,b,_,d,e,_=g.affine[:6]; r=g.resolution; ok = abs(abs(r.x)-math.hypot(a,d))<=1e-9*math.hypot(a,d) and abs(r.x*r.y-(a*e-b*d))<=1e-9*abs(a*e-b*d)
        elif op=="coords":
            if fam in("rot","shear"):
                try: g.coordinates; ok=False
                except ValueError: ok=True
            else:
                cc=g.coordinates; (ky,cy),(kx,cx)=list(cc.items()); 
                ok = np.allclose(cx.values, at(g,np.c_[np.arange(nx)+.5,np.zeros(nx)])[:,0], rtol=0,atol=1e-9*(abs(g.affine.c)+abs(g.affine.a)*nx)) and np.allclose(cy.values, at(g,np.c_[np.zeros(ny),np.arange(ny)+.5])[:,1], rtol=0,atol=1e-9*(abs(g.affine.f)+abs(g.affine.e)*ny))
    except Exception as e:
        ok=False; op=op+" EXC "+type(e).__name__
    res[(op, ok)]+=1
    if not ok: ex.setdefault(op,(g,fam))
print({k:v for k,v in res.items() if not k[1]}); print("ok ops:", sum(v for k,v in res.items() if k[1]))
for k,v in ex.items(): print(k, v)
