import warnings; warnings.filterwarnings("ignore")
import numpy as np, random
if not hasattr(np, "find_common_type"): np.find_common_type = lambda a, s: np.result_type(*a, *s)
from odc.geo import _dask as D
_orig = D._do_chunked_reproject
def patched(*a, **kw):
    # emulate planned fix D06
    return _orig(*a, **kw)
from odc.geo.geobox import GeoBox
from odc.geo.xr import wrap_xr, xr_reproject
from affine import Affine
import dask.array as da
from collections import Counter
rng = random.Random(4); res=Counter(); ex={}
for it in range(600):
    r = rng.choice([10, 0.1, 1/3, 30, 0.00025])
    ny,nx = rng.randint(1,40), rng.randint(1,40)
    gb = GeoBox((ny,nx), Affine(r,0,rng.uniform(-1e5,1e5)*r,0,-r,rng.uniform(-1e5,1e5)*r), "epsg:3857")
    dtype = rng.choice(["int16","uint8","float32"])
    nodata = rng.choice([None, 255 if dtype=="uint8" else -9])
    if dtype=="float32" and nodata is None: nodata=-9   # avoid D06
    data = (np.arange(ny*nx).reshape(ny,nx)%97+1).astype(dtype)
    kind = rng.choice(["aligned","int-scale","subpix","frac","mirror","rot","disjoint"])
    if kind=="aligned": dst = gb.translate_pix(rng.randint(-10,10), rng.randint(-10,10)).crop((rng.randint(1,40), rng.randint(1,40)))
    elif kind=="int-scale": dst = gb.translate_pix(rng.randint(-5,5), rng.randint(-5,5)).zoom_out(rng.choice([2,3,0.5]))
    elif kind=="subpix": dst = gb.translate_pix(rng.randint(-5,5)+rng.choice([0.3,0.04,-0.2,0.5]), rng.uniform(-5,5))
    elif kind=="frac": dst = gb.translate_pix(rng.uniform(-5,5), rng.uniform(-5,5)).zoom_out(rng.choice([1.7,0.6,2.3]))
    elif kind=="mirror": dst = rng.choice([gb.flipx(), gb.flipy(), gb.flipx().flipy()]).translate_pix(rng.randint(-5,5), 0)
    elif kind=="rot": dst = gb.rotate(rng.uniform(1,359))
    else: dst = gb.translate_pix(100, 0)
    chunks = (rng.choice([1,3,7,16,64]), rng.choice([1,4,9,64]))
    dchunks = (rng.choice([1,5,8,64]), rng.choice([2,6,64]))
    xx = wrap_xr(data, gb, nodata=nodata); xd = wrap_xr(da.from_array(data, chunks=chunks), gb, nodata=nodata)
    try:
        a = xr_reproject(xx, dst).values
        b = xr_reproject(xd, dst, chunks=dchunks).compute(scheduler="sync").values
    except Exception as e:
        k=f"EXC {type(e).__name__} {str(e)[:50]} kind={kind}"; res[k]+=1; ex.setdefault(k,(gb,dst,chunks,dchunks)); continue
    same = np.array_equal(a,b)
    k = "same" if same else f"DIFF kind={kind} r={r:.3g} n={int((a!=b).sum())}/{a.size}"
    res[k if same else f"DIFF kind={kind} r={r:.3g}"]+=1; ex.setdefault(k,(gb,dst,chunks,dchunks,dtype,nodata))
print(dict(res))
for k,v in list(ex.items())[:8]:
    if k!="same": print(k,"::",v)
