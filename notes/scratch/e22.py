import warnings; warnings.filterwarnings("ignore")
import numpy as np, pickle, itertools
from affine import Affine
from dask.base import tokenize
from odc.geo import CRS, XY, xy_, yx_, ixy_, iyx_, res_, resxy_, wh_, shape_, geom
from odc.geo.geom import BoundingBox
from odc.geo.geobox import GeoBox, GeoboxTiles
from odc.geo.roi import Tiles, VariableSizedTiles
from odc.geo.gridspec import GridSpec
from odc.geo.math import Bin1D
fams = {}
A = Affine(10,0,100,0,-10,500)
fams["GeoBox"] = [GeoBox((4,5),A,"epsg:3857"), GeoBox((5,4),A,"epsg:3857"), GeoBox((4,5),A,"epsg:32633"), GeoBox((4,5),A,None), GeoBox((4,5),A*Affine.translation(1,0),"epsg:3857"), GeoBox((4,5),Affine(10,0,100,0,-10,500.0000001),"epsg:3857"), GeoBox((4,5),A,"epsg:3857")]
fams["Tiles"] = [Tiles((10,10),(4,4)), Tiles((11,11),(4,4)), Tiles((10,10),(5,5)), Tiles((12,12),(4,4)), Tiles((10,12),(4,4)), Tiles((10,10),(4,4))]
fams["VTiles"] = [VariableSizedTiles(((4,4,2),(5,5))), VariableSizedTiles(((4,4,3),(5,5))), VariableSizedTiles(((4,6),(5,5))), VariableSizedTiles(((5,5),(4,4,2))), VariableSizedTiles(((4,4,2),(5,5)))]
gb = fams["GeoBox"][0].crop((10,10))
fams["GeoboxTiles"] = [GeoboxTiles(gb,(4,4)), GeoboxTiles(gb,(5,5)), GeoboxTiles(gb.crop((11,11)),(4,4)), GeoboxTiles(gb,((4,4,2),(4,4,2))), GeoboxTiles(gb,((4,6),(4,4,2))), GeoboxTiles(GeoBox((10,10),A,"epsg:32633"),(4,4)), GeoboxTiles(gb,(4,4))]
fams["BoundingBox"] = [BoundingBox(0,1,2,3,"epsg:4326"), BoundingBox(0,1,2,3,None), BoundingBox(0,1,2,4,"epsg:4326"), BoundingBox(0,1,2,3,"epsg:3857"), BoundingBox(0,1,2,3,"epsg:4326")]
fams["Geometry"] = [geom.box(0,0,1,1,"epsg:4326"), geom.box(0,0,1,1,None), geom.box(0,0,1,2,"epsg:4326"), geom.box(0,0,1,1,"epsg:3857"), geom.point(0,0,"epsg:4326"), geom.box(0,0,1,1,"epsg:4326")]
fams["XY"] = [xy_(1,2), xy_(2,1), yx_(2,1), xy_(1.0,2.0), ixy_(1,2), resxy_(1,2), res_(1), resxy_(1,-1), wh_(1,2), shape_((2,1)), xy_(1,2)]
fams["GridSpec"] = [GridSpec("epsg:3857",(10,10),10), GridSpec("epsg:3857",(10,10),10,flipx=True), GridSpec("epsg:3857",(10,10),10,origin=xy_(1,0)), GridSpec("epsg:3857",(10,20),10), GridSpec("epsg:3857",(10,10),resxy_(10,10)), GridSpec("epsg:32633",(10,10),10), GridSpec("epsg:3857",(20,5),resxy_(5,-20)), GridSpec("epsg:3857",(10,10),10)]
fams["CRS"] = [CRS("epsg:4326"), CRS("EPSG:4326"), CRS(4326), CRS("epsg:3857"), CRS("epsg:32633"), CRS("epsg:32733")]
for name, vals in fams.items():
    issues=[]
    for a,b in itertools.product(vals, repeat=2):
        try: e = (a==b); e2=(b==a)
        except Exception as ex: issues.append(("eq-exc", repr(a)[:30], repr(b)[:30], repr(ex)[:40])); continue
        if e!=e2: issues.append(("asym", a, b))
        try: ha, hb = hash(a), hash(b); hashable=True
        except TypeError: hashable=False
        if e and hashable and ha!=hb: issues.append(("eq-hash", a, b))
        try: ta, tb = tokenize(a), tokenize(b)
        except Exception as ex: issues.append(("tok-exc", repr(ex)[:50])); continue
        if (not e) and ta==tb: issues.append(("uneq-same-token", a, b))
    for a in vals:
        try:
            c = pickle.loads(pickle.dumps(a))
            if not (c==a): issues.append(("pickle-neq", a))
            if tokenize(c)!=tokenize(a): issues.append(("pickle-token", a))
        except Exception as ex: issues.append(("pickle-exc", repr(a)[:40], repr(ex)[:60]))
    print(name, len(issues)); [print("   ", i) for i in issues[:6]]
