import warnings; warnings.filterwarnings("ignore")
import numpy as np, pickle
from odc.geo import geom, CRS, xy_
from odc.geo.geobox import GeoBox, GeoboxTiles
from odc.geo.gcp import GCPGeoBox, GCPMapping
from affine import Affine
gb = GeoBox((30,30), Affine(10,0,0,0,-10,0), "epsg:3857")
src = GeoboxTiles(gb, (10,10))
dst = GeoboxTiles(gb.translate_pix(100,0), (15,15))
print("D6 linear disjoint:", dst.grid_intersect(src))
dst2 = GeoboxTiles(gb.translate_pix(100,0).rotate(10), (15,15))
print("D6 rotated disjoint:", dst2.grid_intersect(src))
dst3 = None

# bbox query outside
print("tiles(bbox outside, pix):", list(src.tiles(geom.BoundingBox(-100,-100,-50,-50))))
print("tiles(bbox outside, crs):", list(src.tiles(geom.BoundingBox(-1000,-1000,-500,-500,"epsg:3857"))))
print("tiles(geom outside):", list(src.tiles(geom.box(-1000,-1000,-500,-500,"epsg:3857"))))

# GCP pickle
pix = np.array([[0,0],[10,0],[10,10],[0,10],[5,5.]])
wld = pix*np.array([[10,-10]])+np.array([[100,200]])
m = GCPMapping(pix, wld, "epsg:3857")
g = GCPGeoBox((10,10), m)
g2 = pickle.loads(pickle.dumps(g))
print("GCP pickle eq:", g==g2, hash(g)==hash(g2))
from odc.geo.xr import xr_zeros
xx = xr_zeros(g)
print("GCP xr roundtrip eq:", xx.odc.geobox == g, type(xx.odc.geobox))
from dask.base import tokenize
print("GCP token:", tokenize(g)==tokenize(g2))
# MPUFileSink limits
from odc.geo.cog._mpu_fs import MPUFileSink
s = MPUFileSink("/tmp/exp/x.bin", min_write_sz=1024, max_write_sz=1<<20, min_part=3, max_part=77)
print("sink limits:", s.min_write_sz, s.max_write_sz, s.min_part, s.max_part)
s = MPUFileSink("/tmp/exp/x.bin")
print("sink default limits:", s.min_write_sz, s.max_write_sz, s.min_part, s.max_part)
