import warnings; warnings.filterwarnings("ignore")
import sys, threading, itertools, time
from odc.geo.cog import _s3
from odc.geo.cog._s3 import MultiPartUpload, DelayedS3Writer
import pyproj; print("proj data:", pyproj.datadir.get_data_dir(), "network:", pyproj.network.is_network_enabled())

# controlled scheduler via sys.monitoring LINE events on selected code objects
TOOL = 3
mon = sys.monitoring
mon.use_tool_id(TOOL, "vf-sched")
codes = [DelayedS3Writer._ensure_init.__code__, MultiPartUpload.initiate.__code__, MultiPartUpload.write_part.__code__, DelayedS3Writer.__call__.__code__]
class Sched:
    def __init__(s, choices): s.choices=list(choices); s.trace=[]; s.cv=threading.Condition(); s.waiting={}; s.active=None; s.done=set(); s.n=0
    def yield_point(s, tid, where):
        with s.cv:
            s.waiting[tid]=where
            if s.active==tid: s.active=None
            s.cv.notify_all()
            while s.active!=tid: s.cv.wait()
            del s.waiting[tid]
    def finish(s, tid):
        with s.cv:
            s.done.add(tid)
            if s.active==tid: s.active=None
            s.cv.notify_all()
    def run(s, nthreads):
        step=0
        while True:
            with s.cv:
                while s.active is not None or (len(s.waiting)+len(s.done) < nthreads): s.cv.wait(timeout=5)
                if len(s.done)==nthreads: return
                ready = sorted(t for t in s.waiting if t not in BLOCKED)
                if not ready: raise RuntimeError("deadlock")
                pick = ready[s.choices[step] % len(ready)] if step < len(s.choices) else ready[0]
                s.trace.append((pick, s.waiting[pick])); step+=1
                s.active=pick; s.cv.notify_all()
BLOCKED=set()
tls = threading.local()
def on_line(code, line):
    tid = getattr(tls, "tid", None)
    if tid is None: return
    SCHED.yield_point(tid, (code.co_name, line))
mon.register_callback(TOOL, mon.events.LINE, on_line)
for c in codes: mon.set_local_events(TOOL, c, mon.events.LINE)

class CoopLock:
    def __init__(s): s.owner=None
    def __enter__(s):
        tid = tls.tid
        while s.owner is not None:
            BLOCKED.add(tid); SCHED.yield_point(tid, ("lock-wait",0)); 
        BLOCKED.discard(tid); s.owner=tid; return s
    def __exit__(s,*a):
        s.owner=None; BLOCKED.clear()
LOG=[]
class FakeS3:
    n=itertools.count(1)
    def create_multipart_upload(s, **kw): uid=f"U{next(s.n)}"; LOG.append(("create",uid)); return {"UploadId":uid}
    def upload_part(s, **kw): LOG.append(("part",kw["UploadId"],kw["PartNumber"])); return {"ETag":"e"}
fake=FakeS3(); MultiPartUpload.s3_client=lambda self: fake
_s3._dask_client = lambda: None
import random
viol=0; seen=set(); t0=time.time()
for trial in range(300):
    rng=random.Random(trial)
    SCHED=Sched([rng.randrange(3) for _ in range(60)]); BLOCKED.clear(); LOG.clear()
    _s3._state["mpu_lock"]=CoopLock()
    w = MultiPartUpload("b","k").writer({}, client=None); errs=[]
    def work(i):
        tls.tid=i
        try: w(i, b"x")
        except BaseException as e: errs.append((i,type(e).__name__))
        finally: SCHED.finish(i)
    ts=[threading.Thread(target=work,args=(i,)) for i in (1,2)]
    [t.start() for t in ts]; SCHED.run(2); [t.join() for t in ts]
    seen.add(tuple(SCHED.trace))
    creates=[e for e in LOG if e[0]=="create"]
    if len(creates)!=1 or errs: viol+=1
print("trials 300 distinct schedules", len(seen), "violating", viol, f"{time.time()-t0:.1f}s", "trace len", len(SCHED.trace))
