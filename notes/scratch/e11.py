import warnings; warnings.filterwarnings("ignore")
import numpy as np, math, itertools, random
from affine import Affine
from odc.geo.geobox import GeoBox
from odc.geo.geom import BoundingBox, box
from odc.geo import xy_, resxy_
from odc.geo.gridspec import GridSpec
rng = random.Random(5)
bad=[]
for it in range(3000):
    shape = (rng.randint(1,50), rng.randint(1,50))
    r = rng.choice([1,10,0.5,25,1/3,30]); res = resxy_(r*rng.choice([1,-1]), r*rng.choice([1,2,0.5])*rng.choice([1,-1]))
    origin = rng.choice([None, xy_(rng.uniform(-1e5,1e5), rng.uniform(-1e5,1e5)), xy_(rng.randint(-100,100)*r, rng.randint(-100,100)*r)])
    fx, fy = rng.random()<0.5, rng.random()<0.5
    gs = GridSpec("epsg:3857", shape, res, origin, flipx=fx, flipy=fy)
    idxs = [(ix,iy) for ix in range(-3,4) for iy in range(-3,4)]
    ext = {i: gs[i].extent for i in idxs}
    bbs = {i: gs[i].boundingbox for i in idxs}
    tsx, tsy = gs.tile_size.xy
    for i in idxs:
        gb = gs[i]
        if gb.shape != shape or gb.resolution != res: bad.append(("shape/res", it, i)); break
        bb = bbs[i]
        # centre -> pt2idx
        cx, cy = (bb.left+bb.right)/2, (bb.bottom+bb.top)/2
        if tuple(gs.pt2idx(cx,cy).xy) != i: bad.append(("pt2idx", it, i, gs.pt2idx(cx,cy))); break
        # random point inside
        px, py = rng.uniform(bb.left, bb.right), rng.uniform(bb.bottom, bb.top)
        j = gs.pt2idx(px,py).xy
        bj = gs[j].boundingbox
        e = 1e-7
        if not (bj.left-e<=px<=bj.right+e and bj.bottom-e<=py<=bj.top+e): bad.append(("pt-in-tile", it, i, j)); break
    else:
        # neighbours: determine direction
        dx = -1 if fx else 1; dy = -1 if fy else 1
        for (ix,iy) in idxs:
            if (ix+1,iy) in bbs:
                a, b = bbs[(ix,iy)], bbs[(ix+1,iy)]
                shared = (a.right, b.left) if dx==1 else (a.left, b.right)
                if abs(shared[0]-shared[1])>1e-9*max(1,abs(shared[0])) or abs(a.bottom-b.bottom)>1e-9*max(1,abs(a.bottom)): bad.append(("nbr-x", it, (ix,iy), a, b)); break
            if (ix,iy+1) in bbs:
                a, b = bbs[(ix,iy)], bbs[(ix,iy+1)]
                shared = (a.top, b.bottom) if dy==1 else (a.bottom, b.top)
                if abs(shared[0]-shared[1])>1e-9*max(1,abs(shared[0])): bad.append(("nbr-y", it, (ix,iy), a, b)); break
        # bbox query
        q = BoundingBox(*(sorted([rng.uniform(-3,3)*tsx, rng.uniform(-3,3)*tsx]) ), 0,0) if False else None
        ox, oy = gs.origin.xy
        xs = sorted([ox+rng.uniform(-3,3)*tsx, ox+rng.choice([rng.uniform(-3,3), rng.randint(-3,3)])*tsx]); ys = sorted([oy+rng.uniform(-3,3)*tsy, oy+rng.choice([rng.uniform(-3,3), rng.randint(-3,3)])*tsy])
        q = BoundingBox(xs[0], ys[0], xs[1], ys[1], "epsg:3857")
        got = set(i for i,_ in gs.tiles(q))
        def ov(a0,a1,b0,b1): return min(a1,b1)-max(a0,b0)
        must = set(i for i,bb in bbs.items() if ov(bb.left,bb.right,q.left,q.right)>1e-6 and ov(bb.bottom,bb.top,q.bottom,q.top)>1e-6)
        may = set(i for i,bb in bbs.items() if ov(bb.left,bb.right,q.left,q.right)>=-1e-7 and ov(bb.bottom,bb.top,q.bottom,q.top)>=-1e-7)
        if q.span_x>1e-5 and q.span_y>1e-5 and not (must <= got and (got & set(idxs)) <= may): bad.append(("tiles", it, q, sorted(got), sorted(must))); 
        # from_sample_tile
        j = rng.choice(idxs)
        gs2 = GridSpec.from_sample_tile(gs[j].extent, shape=shape, idx=j, flipx=fx, flipy=fy)
        for k in rng.sample(idxs, 5):
            a, b = gs2[k].boundingbox, bbs[k]
            if not np.allclose(a.bbox, b.bbox, rtol=0, atol=1e-6): bad.append(("sample", it, j, k, a, b)); break
print("gridspec bad", len(bad)); [print(b) for b in bad[:8]]
# web tiles
R=6378137; bad=[]
for z in range(0,20):
    gs = GridSpec.web_tiles(z)
    n=2**z
    for (x,y) in {(0,0),(n-1,n-1),(n//2, n//3), (n-1,0)}:
        bb = gs[x,y].boundingbox
        w = 2*math.pi*R/n
        exp = (-math.pi*R + x*w, math.pi*R-(y+1)*w, -math.pi*R+(x+1)*w, math.pi*R - y*w)
        if not np.allclose(bb.bbox, exp, rtol=0, atol=1e-6): bad.append((z,x,y,bb,exp))
    world = BoundingBox(-math.pi*R, -math.pi*R, math.pi*R, math.pi*R, "epsg:3857")
    if gs.idx_bounds(world) != (0,0,n,n): bad.append(("bounds", z, gs.idx_bounds(world)))
print("web bad", len(bad), bad[:4])
