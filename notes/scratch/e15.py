import warnings; warnings.filterwarnings("ignore")
import sys, pyproj
from odc.geo.crs import CRS
order = sys.argv[1]
p = pyproj.CRS.from_epsg(32601)
wkt = p.to_wkt()
if order == "obj-first":
    c0 = CRS(p)
c = CRS(wkt)
print(order, "str is epsg:", str(c)[:12], "hash", hash(c) == hash(wkt), "epsg", c.epsg)
