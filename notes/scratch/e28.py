import warnings; warnings.filterwarnings("ignore")
import numpy as np, logging; logging.disable(logging.CRITICAL)
import dask, dask.base, dask.core
if not hasattr(dask.base, "quote"): dask.base.quote = dask.core.quote
from affine import Affine
from odc.geo.geobox import GeoBox
from odc.geo.xr import wrap_xr
from odc.geo.cog import save_cog_with_dask
from odc.geo.cog._tifffile import _make_empty_cog
import dask.array as da
for shape, bs in [((1,50),64), ((50,1),64), ((2,100),[32,16]), ((1,1),16), ((3,50),64), ((2,50),64)]:
    gb = GeoBox(shape, Affine(10,0,0,0,-10,0), "epsg:3857")
    xx = wrap_xr(da.zeros(shape, dtype="uint8", chunks=(16,16)), gb)
    for g in (gb, None):
        try:
            _make_empty_cog(shape, "uint8", g, blocksize=bs); r="ok"
        except Exception as e: r=type(e).__name__
        print(shape, bs, "gbox" if g is not None else "nogbox", r)
