import warnings; warnings.filterwarnings("ignore")
import numpy as np, pickle
from odc.geo import geom, CRS
from odc.geo.geobox import GeoBox, GeoboxTiles
from odc.geo.roi import Tiles, VariableSizedTiles, roi_from_points
from affine import Affine
# D1 densify
g = geom.line([(0,0),(0,100)], "epsg:3857")
print("D1 densify vertical:", len(g.segmented(10).coords))
g = geom.line([(0,0),(100,0)], "epsg:3857")
print("D1 densify horiz:", len(g.segmented(10).coords))
g = geom.line([(1,0),(1,100)], "epsg:3857")
print("D1 densify x=1 vertical:", len(g.segmented(10).coords))
# D2 tiles token
from dask.base import tokenize
a, b = Tiles((10,10),(4,4)), Tiles((11,11),(4,4))
print("D2 Tiles eq:", a==b, "token same:", tokenize(a)==tokenize(b))
# D3 overlap_roi
gb = GeoBox((30,30), Affine(10,0,0,0,-10,0), "epsg:3857")
other = gb.translate_pix(-50, 0)
print("D3 overlap_roi left-disjoint:", gb.overlap_roi(other), "right:", gb.overlap_roi(gb.translate_pix(50,0)), "top", gb.overlap_roi(gb.translate_pix(0,-50)))
# D4 roi_from_points
pts = np.array([[5.,5.],[1e10, 7.]])
print("D4 roi_from_points big:", roi_from_points(pts, (100,100)))
pts = np.array([[5.,5.],[-1e10, 7.]])
print("D4 roi_from_points -big:", roi_from_points(pts, (100,100)))
# D5 CRS eq/hash
c1 = CRS("EPSG:4326"); c2 = CRS(c1.wkt)
print("D5 eq:", c1==c2, "hash eq:", hash(c1)==hash(c2), c2.epsg)
c3 = CRS(c1.proj.to_json())
print("D5 json eq:", c1==c3, hash(c1)==hash(c3), str(c3)[:40])
import pyproj
c4 = CRS(pyproj.CRS.from_epsg(4326)); print("D5 pyproj:", c1==c4, hash(c1)==hash(c4), str(c4))
c5 = pickle.loads(pickle.dumps(c2)); print("pickle wkt:", c5==c2, hash(c5)==hash(c2))
