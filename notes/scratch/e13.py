import warnings; warnings.filterwarnings("ignore")
import numpy as np, time, os
if not hasattr(np, "find_common_type"):
    np.find_common_type = lambda a, s: np.result_type(*a, *s)
import dask, dask.base, dask.core
print("dask.core.quote?", hasattr(dask.core, "quote"))
if not hasattr(dask.base, "quote"):
    dask.base.quote = dask.core.quote
from affine import Affine
from odc.geo.geobox import GeoBox
from odc.geo.xr import xr_zeros, wrap_xr
from odc.geo.cog import save_cog_with_dask
import dask.array as da, rasterio, tifffile
gb = GeoBox((70,100), Affine(10,0,1000,0,-10,5000), "epsg:3857")
data = (np.random.RandomState(0).randint(0,60000,size=(70,100))).astype("uint16")
xx = wrap_xr(da.from_array(data, chunks=(32,32)), gb, nodata=0)
t0=time.time()
fut = save_cog_with_dask(xx, "/tmp/exp/t.tif", blocksize=[32,16], compression="deflate", spill_sz=1<<10)
print("graph built", time.time()-t0)
t0=time.time()
try:
    rr = fut.compute(scheduler="sync")
    print("computed", rr, time.time()-t0)
    with rasterio.open("/tmp/exp/t.tif") as src:
        print(src.shape, src.crs, src.transform, src.nodata, src.overviews(1), src.block_shapes)
        back = src.read(1)
        print("pixels equal:", np.array_equal(back[:70,:100], data), "pad zero:", (back[70:,:]==0).all() and (back[:,100:]==0).all())
    tf = tifffile.TiffFile("/tmp/exp/t.tif")
    for p in tf.pages: print(p.shape, p.tile, list(zip(p.dataoffsets, p.databytecounts))[:3], "...")
except Exception as e:
    import traceback; traceback.print_exc()
