import warnings; warnings.filterwarnings("ignore")
import numpy as np, random, itertools, os, tempfile, shutil, hashlib
if not hasattr(np, "find_common_type"): np.find_common_type = lambda a, s: np.result_type(*a, *s)
from collections import Counter
from odc.geo.roi import Tiles, VariableSizedTiles, roi_shape, clip_tiles
from odc.geo._blocks import BlockAssembler
res=Counter(); ex={}
def note(k,v): res[k]+=1; ex.setdefault(k,v)
# C04 1-D exhaustive via 2-D objects (N x 1-col)
for N in range(1,60):
    for n in range(1,65):
        t = Tiles((N,3),(n,2))
        cnt = np.zeros((N,3),int)
        for idx in np.ndindex(t.shape.shape):
            r = t[idx]; cnt[r]+=1
            if roi_shape(r)!=t.tile_shape(idx).shape: note("tile_shape",(N,n,idx))
        if not (cnt==1).all(): note("partition",(N,n))
        ch = t.chunks
        if sum(ch[0])!=N or sum(ch[1])!=3 or len(ch[0])!=t.shape.y: note("chunks",(N,n,ch))
        for y in range(N):
            iy,ix = t.locate((y,2))
            r = t[iy,ix]
            if not (r[0].start<=y<r[0].stop and r[1].start<=2<r[1].stop): note("locate",(N,n,y))
        # crop
        ny = t.shape.y
        a = random.randint(0,ny-1); b=random.randint(a+1,ny)
        c = t.crop(np.s_[a:b,0:t.shape.x])
        off = t[a,0][0].start
        for r_ in range(b-a):
            if (c[r_,0][0].start+off, c[r_,0][0].stop+off)!=(t[a+r_,0][0].start,t[a+r_,0][0].stop): note("crop",(N,n,a,b))
        if c.base.y != t[a:b,0:1][0].stop - t[a:b,0:1][0].start: note("crop-base",(N,n,a,b))
rng=random.Random(1)
for it in range(3000):
    chy = tuple(rng.randint(1,5) for _ in range(rng.randint(1,5))); chx = tuple(rng.randint(1,5) for _ in range(rng.randint(1,4)))
    t = VariableSizedTiles((chy,chx)); cnt=np.zeros((sum(chy),sum(chx)),int)
    for idx in np.ndindex(t.shape.shape): cnt[t[idx]]+=1
    if not (cnt==1).all() or t.chunks!=(chy,chx): note("v-partition",(chy,chx))
    for y in range(sum(chy)):
        iy,ix=t.locate((y,0)); r=t[iy,ix]
        if not r[0].start<=y<r[0].stop: note("v-locate",(chy,y))
    sel = [ (rng.randrange(len(chy)), rng.randrange(len(chx))) for _ in range(rng.randint(1,3))]
    ct, roi, new = clip_tiles(t, sel)
    oy, ox = t[roi][0].start, t[roi][1].start
    for (iy,ix),(jy,jx) in zip(sel,new):
        a=t[iy,ix]; b=ct[jy,jx]
        if (a[0].start,a[0].stop,a[1].start,a[1].stop)!=(b[0].start+oy,b[0].stop+oy,b[1].start+ox,b[1].stop+ox): note("clip",(chy,chx,sel))
    # BlockAssembler
    axis = rng.choice([0,1]); post = rng.choice([(),(2,)]); pre = (3,) if axis==1 else ()
    dtype = rng.choice(["uint8","int16","float32"])
    full_shape = (*pre, sum(chy), sum(chx), *post)
    present = [idx for idx in np.ndindex(t.shape.shape) if rng.random()<0.6]
    fill = rng.choice([None, 0, 7])
    ref_fill = (np.nan if dtype=="float32" else 0) if fill is None else fill
    ref = np.full(full_shape, ref_fill, dtype=dtype if not (fill is None and dtype!="float32") else dtype)
    blocks={}
    for idx in present:
        ry,rx = t[idx]; sh=(*pre, ry.stop-ry.start, rx.stop-rx.start, *post)
        b = (np.random.RandomState(it).randint(1,100,size=sh)).astype(dtype); blocks[idx]=b
        ref[(*[slice(None)]*len(pre), ry, rx)] = b
    try:
        ba = BlockAssembler(blocks, (chy,chx), axis=axis)
        y0=rng.randint(0,sum(chy)-1); y1=rng.randint(y0+1,sum(chy)); x0=rng.randint(0,sum(chx)-1); x1=rng.randint(x0+1,sum(chx))
        got = ba.extract(fill, roi=np.s_[y0:y1,x0:x1])
        want = ref[(*[slice(None)]*len(pre), slice(y0,y1), slice(x0,x1))]
        if len(blocks)==0: want = want.astype(got.dtype)
        if got.shape!=want.shape or not np.array_equal(got, want.astype(got.dtype), equal_nan=True): note("assembler",(chy,chx,axis,post,dtype,fill,present,(y0,y1,x0,x1)))
    except Exception as e: note("assembler-exc "+type(e).__name__+" "+str(e)[:40], (chy,chx,axis,post,dtype,fill,len(present)))
print("C04", dict(res)); [print(k,v) for k,v in list(ex.items())[:5]]

# C18 file sink
from odc.geo.cog._mpu_fs import MPUFileSink
res=Counter()
for it in range(200):
    d = tempfile.mkdtemp(dir="/tmp/exp")
    try:
        base = rng.choice([None, os.path.join(d,"elsewhere")])
        if base: os.makedirs(base)
        dst = os.path.join(d,"out.bin"); s = MPUFileSink(dst, parts_base=base)
        n = rng.randint(1,6); ids = rng.sample(range(1,50), n)
        datas=[os.urandom(rng.choice([0,1,10,5000])) for _ in ids]
        parts=[s(i,b) for i,b in zip(ids,datas)]
        order = list(range(n)); rng.shuffle(order)
        if any(len(datas[o])==0 for o in order[1:]): pass
        try:
            s.finalise([parts[o] for o in order])
        except Exception as e: res["finalise-exc "+type(e).__name__+" "+str(e)[:40]+f" empty={[len(datas[o])==0 for o in order]}"]+=1; continue
        got=open(dst,"rb").read(); want=b"".join(datas[o] for o in order)
        left = [p for p,_,f in os.walk(d) for x in f if x!="out.bin"]
        pdir = os.path.join(base or d, ".out.bin.parts")
        res["ok" if got==want and not os.path.exists(pdir) and not left else f"BAD eq={got==want} pdir={os.path.exists(pdir)} left={left}"]+=1
    finally: shutil.rmtree(d, ignore_errors=True)
print("C18 sink", dict(res))
