import warnings; warnings.filterwarnings("ignore")
import numpy as np, math, itertools, random
from affine import Affine
from odc.geo.geobox import GeoBox
from odc.geo.geom import BoundingBox
from odc.geo import xy_, resxy_
from odc.geo.gridspec import GridSpec
rng = random.Random(2)
bad=[]
N=0
for _ in range(100000):
    a = rng.choice([1,10,0.5,30,0.1,1/3,25,1e-3, 0.00025])
    rx = a*rng.choice([1,-1]); ry = rng.choice([a, a*2, a/3])*rng.choice([1,-1])
    mag = rng.choice([1,1e3,1e6,1e7])*a
    x0 = rng.uniform(-mag,mag); y0 = rng.uniform(-mag,mag)
    if rng.random()<0.4:
        x0 = round(x0/abs(rx))*abs(rx) + rng.choice([0,1e-9*abs(rx), 0.005*abs(rx), -0.005*abs(rx), 0.02*abs(rx), 0.5*abs(rx)])
        y0 = round(y0/abs(ry))*abs(ry) + rng.choice([0,1e-9*abs(ry), 0.005*abs(ry), -0.005*abs(ry), 0.02*abs(ry), 0.5*abs(ry)])
    sx = rng.choice([0.3, rng.uniform(0,5), rng.randint(1,50), rng.uniform(0,1e4), 1e6])*abs(rx)
    sy = rng.choice([0.3, rng.uniform(0,5), rng.randint(1,50), rng.uniform(0,1e4), 1e6])*abs(ry)
    bbox = BoundingBox(x0,y0,x0+sx,y0+sy,"epsg:3857")
    anchor = rng.choice(["edge","center","floating","default",0.25, xy_(0.1,0.7), 0, 0.5])
    tight = rng.random()<0.2
    tol = rng.choice([0.01, 1e-3, 0.05])
    gb = GeoBox.from_bbox(bbox, resolution=resxy_(rx,ry), anchor=anchor, tight=tight, tol=tol)
    N+=1
    A = gb.affine
    if not (A.a==rx and A.e==ry and A.b==0 and A.d==0): bad.append(("res", bbox, rx, ry)); continue
    bb = gb.boundingbox
    for lo, hi, qlo, qhi, r, n, ax in [(bb.left, bb.right, bbox.left, bbox.right, abs(rx), gb.shape.x, 0), (bb.bottom, bb.top, bbox.bottom, bbox.top, abs(ry), gb.shape.y, 1)]:
        eps = 1e-9*max(1, abs(qlo)/r, abs(qhi)/r)
        cover = lo <= qlo + (tol+eps)*r and hi >= qhi - (tol+eps)*r
        minimal = (qlo-lo) < (1+tol+eps)*r and (hi-qhi) < (1+tol+eps)*r
        snapped = True
        floating = tight or anchor=="floating"
        if not floating:
            an = {"edge":0,"default":0,"center":0.5}.get(anchor, anchor) if not isinstance(anchor, type(xy_(0,0))) else anchor.xy[ax]
            k = lo/r - an
            snapped = abs(k-round(k)) <= 1e-6 + 1e-12*abs(k)*1e3
        else:
            # floating: one side exact
            snapped = True
        if not (cover and minimal and snapped): bad.append((ax, bbox, rx, ry, anchor, tight, tol, gb, cover, minimal, snapped)); break
print("from_bbox N", N, "bad", len(bad)); [print(b) for b in bad[:6]]

# shape driven
bad=[]
for _ in range(50000):
    mag = rng.choice([1,1e3,1e6])
    x0 = rng.uniform(-mag,mag); y0 = rng.uniform(-mag,mag); sx = rng.uniform(1e-3,1e4); sy=rng.uniform(1e-3,1e4)
    bbox = BoundingBox(x0,y0,x0+sx,y0+sy,"epsg:3857")
    shape = (rng.randint(1,300), rng.randint(1,300))
    anchor = rng.choice(["edge","center","floating","default",0.25])
    tight = rng.random()<0.3
    gb = GeoBox.from_bbox(bbox, shape=shape, anchor=anchor, tight=tight)
    ok = gb.shape==shape and abs(gb.affine.a - sx/shape[1])<=1e-12*sx and abs(gb.affine.e + sy/shape[0])<=1e-12*sy
    bb = gb.boundingbox
    dx = max(abs(bb.left-bbox.left), abs(bb.right-bbox.right))/abs(gb.affine.a); dy = max(abs(bb.top-bbox.top), abs(bb.bottom-bbox.bottom))/abs(gb.affine.e)
    fl = tight or anchor=="floating"
    eps = 1e-6
    ok2 = (dx<=eps and dy<=eps) if fl else (dx<1+eps and dy<1+eps)
    if not (ok and ok2): bad.append((bbox, shape, anchor, tight, gb, dx, dy))
print("from_bbox shape bad", len(bad)); [print(b) for b in bad[:6]]
