import warnings; warnings.filterwarnings("ignore")
import random, itertools, sys, traceback
from odc.geo.cog import _mpu
from odc.geo.cog._mpu import MPUChunk, _mpu_append_chunks_op, _merge_and_spill_op, _finalizer_dask_op, _mpu_collate_op
FIX = len(sys.argv)>1 and sys.argv[1]=="fix"
if FIX:
    def maybe_write(self, write, spill_sz):
        rhs_keep = 0 if self.is_final else write.min_write_sz
        parts_to_keep = 1
        lhs_keep = 0 if self.started_write else self.lhs_keep
        if self.write_credits - 1 < parts_to_keep: return 0
        bytes_to_write = len(self.data) - rhs_keep - lhs_keep
        if bytes_to_write < spill_sz: return 0
        if lhs_keep == 0:
            spill_data = self.data[:bytes_to_write]; self.data = bytearray(self.data[bytes_to_write:])
        else:
            spill_data = self.data[lhs_keep:lhs_keep+bytes_to_write]
            assert not self.left_data
            self.left_data = bytearray(self.data[:lhs_keep]); self.data = bytearray(self.data[bytes_to_write+lhs_keep:])
        self.parts.append(write(self.nextPartId, spill_data)); self.nextPartId += 1; self.write_credits -= 1
        return bytes_to_write
    MPUChunk.maybe_write = maybe_write
class W:
    def __init__(s, m=10, min_part=1, max_part=10000):
        s.min_write_sz=m; s.max_write_sz=1<<30; s.min_part=min_part; s.max_part=max_part; s.calls=[]; s.final=[]
    def __call__(s, part, data): s.calls.append((part, bytes(data))); return {"PartNumber":part, "Size":len(data)}
    def finalise(s, parts): s.final.append(list(parts)); return "done"
def merge_tree(nodes, rng, w, spill):
    nodes=list(nodes)
    while len(nodes)>1:
        i = rng.randrange(len(nodes)-1)
        nodes[i:i+2] = [_merge_and_spill_op(nodes[i], nodes[i+1], write=w, spill_sz=spill)]
    return nodes[0]
def run(rng):
    m = rng.choice([8,10,64]); w = W(m, min_part=rng.choice([1,5]))
    wpc = rng.choice([1,1,2,3]); spill = rng.choice([0,1,m,2*m,10*m,10**9])
    hdr = rng.choice([None, b"H"*rng.choice([1,m-1,m,3*m])]); ftr = rng.choice([None,None,b"F"*rng.choice([1,m,2*m])])
    nbags = rng.choice([1,1,1,2,3])
    cid=itertools.count(); stream=[]
    subs=[]; partId = w.min_part+1
    spec=[]
    for b in range(nbags):
        n = rng.randint(1,6)
        parts = []
        for p in range(n):
            chunks=[]
            for c in range(rng.choice([1,1,2,3,4])):
                sz = rng.choice([0,1,m-1,m,m+1,2*m,3*m+1])
                i = next(cid); data = bytes([(i*7+k)%251 for k in range(sz)]); chunks.append((data,i)); stream.append((data,i))
            parts.append(chunks)
        spec.append([[len(d) for d,_ in p] for p in parts])
        mpus = list(MPUChunk.gen_bunch(partId, n, writes_per_chunk=wpc, mark_final=(ftr is None and b==nbags-1), lhs_keep=w.min_write_sz))
        leaves = [_mpu_append_chunks_op([mm], ch, write=w, spill_sz=spill)[0] for mm,ch in zip(mpus, parts)]
        subs.append(merge_tree(leaves, rng, w, spill))
        partId += n*wpc
    root = subs[0] if len(subs)==1 else _mpu_collate_op(subs, write=w, spill_sz=spill)
    seen={}
    def mk(tag, blob):
        if blob is None: return None
        def f(obs, **kw): seen[tag]=list(obs); return blob
        return f
    cfg = dict(m=m, min_part=w.min_part, wpc=wpc, spill=spill, hdr=len(hdr) if hdr else None, ftr=len(ftr) if ftr else None, spec=spec)
    try:
        rr = _finalizer_dask_op(root, write=w, mk_header=mk("h",hdr), mk_footer=mk("f",ftr))
    except BaseException as e:
        return ("EXC "+type(e).__name__+" line %d"%traceback.extract_tb(e.__traceback__)[-1].lineno, cfg)
    want = (hdr or b"")+b"".join(d for d,_ in stream)+(ftr or b"")
    ids = [p for p,_ in w.calls]
    got = b"".join(d for _,d in sorted(w.calls))
    if got!=want: return ("BYTES", cfg)
    if len(set(ids))!=len(ids): return ("DUPID", cfg)
    if not all(w.min_part<=i<=w.max_part for i in ids): return ("RANGE", cfg)
    srt = sorted(w.calls)
    if any(len(d)<m for _,d in srt[:-1]): return ("MINSZ", cfg, [(p,len(d)) for p,d in srt])
    if len(w.final)!=1 or [p["PartNumber"] for p in w.final[0]]!=sorted(ids): return ("FINAL", cfg)
    exp_obs=[(len(d),i) for d,i in stream]
    for t in seen:
        if seen[t]!=exp_obs: return ("OBS", cfg)
    return None
from collections import Counter
rng=random.Random(11); c=Counter(); ex={}
for it in range(40000):
    r = run(rng)
    if r: c[r[0]]+=1; ex.setdefault(r[0], r)
print("FIX" if FIX else "ORIG", dict(c))
for k,v in ex.items(): print(k, v[1:])
