import warnings; warnings.filterwarnings("ignore")
import numpy as np, itertools
from odc.geo.roi import (roi_normalise, slice_intersect3, roi_intersect3, roi_intersect, roi_pad, roi_shape, roi_is_empty, roi_is_full, roi_center, scaled_down_roi, scaled_up_roi, scaled_down_shape, roi_from_points, roi_boundary)
from collections import Counter
res=Counter(); ex={}
def note(k, v): res[k]+=1; ex.setdefault(k, v)
for n in range(1,8):
    X = np.arange(n)
    vals = [None]+list(range(-n-2, n+3))
    slices = [slice(a,b) for a in vals for b in vals] + list(range(-n, n))
    for s in slices:
        try: ns = roi_normalise(s, n)
        except Exception as e: note("norm-exc "+type(e).__name__, (s,n)); continue
        sel = X[s] if isinstance(s, slice) else X[s:s+1] if s>=0 else X[n+s:n+s+1]
        inrange = isinstance(s,int) or all(v is None or -n<=v<=n for v in (s.start,s.stop))
        if not np.array_equal(X[ns], sel): note("norm-neq inrange=%s"%inrange, (s,n,ns)); continue
        # shape/empty/full/center on normalised
        if inrange:
            if roi_shape(ns)[0] != max(0,len(sel)) and not (ns.stop<ns.start): note("shape", (s,n,ns, roi_shape(ns)))
            if roi_is_empty(ns) != (len(sel)==0): note("empty", (s,n,ns))
            if roi_is_full(ns, n) != (len(sel)==n): note("full", (s,n,ns))
            if len(sel)>0 and roi_center(ns) != (sel[0]+sel[-1]+1)/2: note("center", (s,n,ns))
            for pad in range(0,4):
                p = roi_pad(s, pad, n)
                want = X[max(0, (ns.start)-pad): min(n, ns.stop+pad)] if len(sel)>0 or True else None
                if not (0<=p.start and p.stop<=n) : note("pad-range", (s,n,pad,p))
                if len(sel)>0 and not np.array_equal(X[p], X[max(0,sel[0]-pad):min(n,sel[-1]+1+pad)]): note("pad", (s,n,pad,p))
    # pairs: normalized non-negative slices
    ns_all = [slice(a,b) for a in range(0,n+1) for b in range(a,n+1)]
    for a,b in itertools.product(ns_all, repeat=2):
        a_, b_, ab = slice_intersect3(a,b)
        common = sorted(set(X[a])&set(X[b]))
        if not (np.array_equal(X[a][a_], X[b][b_]) and np.array_equal(X[a][a_], X[ab]) and list(X[ab])==common): note("isect3", (n,a,b,a_,b_,ab))
        r = roi_intersect(a,b)
        if list(X[r])!=common: note("isect", (n,a,b,r))
    for s in ns_all:
        for sc in range(1,6):
            d = scaled_down_roi((s,s), sc)[0]; u = scaled_up_roi((d,d), sc)[0]
            if s.stop>s.start and not (u.start<=s.start and u.stop>=s.stop and s.start-u.start<sc and u.stop-s.stop<sc): note("scale", (s,sc,d,u))
    for sc in range(1,6):
        if scaled_down_shape((n,), sc)[0] != -(-n//sc): note("sdshape",(n,sc))
print(dict(res)); 
for k,v in ex.items(): print(k, v)
