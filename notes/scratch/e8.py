import warnings; warnings.filterwarnings("ignore")
import numpy as np, math, itertools, random
from affine import Affine
from odc.geo.geobox import GeoBox
from odc.geo.geom import BoundingBox
from odc.geo import xy_
from odc.geo.math import snap_grid, split_float, maybe_int, is_almost_int, snap_scale, snap_affine, align_down, align_up, align_up_pow2, align_down_pow2, Bin1D, decompose_rws
rng = random.Random(1)
# C20 split_float
bad=[]
for _ in range(200000):
    x = rng.choice([rng.uniform(-1e6,1e6), rng.randint(-1000,1000)+rng.choice([0,0.5,-0.5,1e-9,-1e-9, 0.5+1e-12, 0.5-1e-12]), rng.uniform(-3,3)])
    w,f = split_float(x)
    if not (-0.5<=f<=0.5 and w+f==x and w==math.floor(w)): bad.append((x,w,f))
print("split_float bad", len(bad), bad[:5])
# snap_grid
bad=[]
for _ in range(200000):
    res = rng.choice([1,10,0.5,30,0.1,1/3, 25, 1e-3]) * rng.choice([1,-1])
    mag = rng.choice([1,1e3,1e6,1e7])
    x0 = rng.uniform(-mag,mag)
    if rng.random()<0.3: x0 = round(x0/abs(res))*abs(res) + rng.choice([0,1e-9,-1e-9, 0.005*abs(res), -0.005*abs(res), 0.02*abs(res)])
    span = rng.choice([0, rng.uniform(0,5)*abs(res), rng.randint(0,50)*abs(res), rng.uniform(0,1e4)*abs(res)])
    x1 = x0+span
    off = rng.choice([0,0.5,None,0.25,rng.random()*0.999])
    tol = rng.choice([1e-6, 0.01, 1e-3])
    tx, nx = snap_grid(x0,x1,res,off,tol)
    a = abs(res)
    lo, hi = (tx, tx+nx*res) if res>0 else (tx+nx*res, tx)
    eps = 1e-9*max(1,abs(x0)/a, abs(x1)/a)
    ok = nx>=1 and lo <= x0 + (tol+eps)*a and hi >= x1 - (tol+eps)*a
    # minimal: 
    need = max(1, math.ceil((x1-x0)/a - 2*tol - eps))
    if off is None:
        okm = nx <= max(1, math.ceil((x1-x0)/a + eps)) 
        oka = (lo==x0 if res>0 else hi==x1)
    else:
        okm = (x0 - lo) < (1+tol+eps)*a and (hi - x1) < (1+tol+eps)*a or nx==1
        k = (lo/a - off); oka = abs(k-round(k)) < 1e-6*max(1,abs(k)*1e-3+1)
    if not (ok and okm and oka): bad.append((x0,x1,res,off,tol,tx,nx,ok,okm,oka))
print("snap_grid bad", len(bad)); [print(b) for b in bad[:8]]
# align
bad=[]
for x in range(-50, 200):
    for a in range(1,40):
        d,u = align_down(x,a), align_up(x,a)
        if not (d%a==0 and d<=x and x-d<a and u%a==0 and u>=x and u-x<a): bad.append((x,a,d,u))
for x in list(range(1,5000))+[2**k+d for k in range(1,60) for d in (-1,0,1)]:
    u,d = align_up_pow2(x), align_down_pow2(x)
    if not (u>=x and u&(u-1)==0 and u//2<x and d<=x and d&(d-1)==0 and d*2>x): bad.append(("pow2",x,u,d))
print("align bad", len(bad), bad[:5])
# Bin1D
bad=[]
for _ in range(100000):
    sz = rng.choice([1,10,0.5,100000, 1/3]); org = rng.choice([0, rng.uniform(-1e6,1e6)]); d = rng.choice([1,-1])
    b = Bin1D(sz, org, d)
    x = rng.uniform(-1e7,1e7)
    i = b.bin(x); lo,hi = b[i]
    eps = 1e-9*max(1,abs(x))
    if not (lo-eps <= x < hi+eps): bad.append((sz,org,d,x,i,lo,hi))
    j = rng.randint(-50,50)
    b2 = Bin1D.from_sample_bin(j, b[j], d)
    for k in (j, j+1, j-7, 0):
        if not np.allclose(b2[k], b[k], rtol=0, atol=1e-6*max(1,abs(org))*1e-3+1e-9*sz*50): bad.append(("rt", sz,org,d,j,k,b2[k],b[k]))
print("Bin1D bad", len(bad), bad[:5])
# decompose_rws
bad=[]
for _ in range(20000):
    A = np.array([[rng.uniform(-5,5) for _ in range(2)] for _ in range(2)])
    if abs(np.linalg.det(A))<1e-3: continue
    R,W,S = decompose_rws(A)
    ok = np.allclose(R@W@S, A, atol=1e-9) and np.allclose(R@R.T, np.eye(2), atol=1e-9) and np.linalg.det(R)>0 and np.allclose(np.diag(W),1) and abs(W[1,0])<1e-12 and abs(S[0,1])<1e-12 and abs(S[1,0])<1e-12
    if not ok: bad.append((A,R,W,S))
print("rws bad", len(bad), bad[:2])
