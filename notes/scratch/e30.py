import warnings; warnings.filterwarnings("ignore")
import numpy as np, random, pyproj
from odc.geo import geom, CRS
WIN = [("epsg:4326",(-170,170),(-80,80)), ("epsg:3857",(-170,170),(-75,75)), ("epsg:6933",(-170,170),(-80,80)), ("epsg:3577",(115,150),(-42,-12)),
       ("epsg:32633",(12.5,17.5),(5,75)), ("epsg:32755",(144.5,149.5),(-70,-5)), ("epsg:3035",(-5,35),(38,68)), ("epsg:27700",(-5,1),(50.5,58)), ("epsg:2193",(167,178),(-46,-35))]
rng = random.Random(1)
worst = {}
for it in range(3000):
    (c1,lo1,la1),(c2,lo2,la2) = rng.sample(WIN,2)
    lo = (max(lo1[0],lo2[0]), min(lo1[1],lo2[1])); la=(max(la1[0],la2[0]), min(la1[1],la2[1]))
    if lo[0]>=lo[1] or la[0]>=la[1]: continue
    ll = [(rng.uniform(*lo), rng.uniform(*la)) for _ in range(6)]
    g4326 = geom.line(ll, "epsg:4326")
    g1 = g4326.to_crs(c1)
    g2 = g1.to_crs(c2)
    # independent
    tr = pyproj.Transformer.from_crs(CRS(c1).proj, CRS(c2).proj, always_xy=True)
    x,y = zip(*g1.coords); X,Y = tr.transform(np.asarray(x), np.asarray(y))
    d_ind = max(np.abs(np.asarray(g2.coords)[:,0]-X).max(), np.abs(np.asarray(g2.coords)[:,1]-Y).max())
    back = g2.to_crs(c1)
    d_rt = np.abs(np.asarray(back.coords)-np.asarray(g1.coords)).max()
    unit = 1 if c1!="epsg:4326" else 1e-5   # deg -> ~m
    k=(c1,c2)
    w = worst.get(k,(0,0)); worst[k]=(max(w[0], d_ind), max(w[1], d_rt/unit))
print("max independent diff:", max(v[0] for v in worst.values()))
print("worst roundtrip (m-equivalent):"); 
for k,v in sorted(worst.items(), key=lambda kv:-kv[1][1]): print(k, v) if "27700" not in k[0]+k[1] else None
