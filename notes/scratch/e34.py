import warnings; warnings.filterwarnings("ignore")
import numpy as np, os, sys, hashlib, random
from affine import Affine
from odc.geo.geobox import GeoBox
from odc.geo.xr import wrap_xr
from odc.geo.cog import write_cog, write_cog_layers, to_cog
from odc.geo.math import Poly2d, affine_from_pts, affine_from_axis
from odc.geo import xy_
EV=[]
sys.addaudithook(lambda ev,args: EV.append((ev, str(args[0]) if args else "")) if ev in ("open","os.remove","os.rename","os.rmdir","os.unlink") and args and "ow.tif" in str(args[0]) else None)
gb = GeoBox((40,50), Affine(10,0,0,0,-10,0), "epsg:3857")
xx = wrap_xr(np.arange(2000,dtype="uint16").reshape(40,50), gb)
fn="/tmp/exp/ow.tif"
open(fn,"wb").write(b"PRECIOUS"); st0=os.stat(fn); EV.clear()
for f in (lambda: write_cog(xx, fn), lambda: write_cog_layers([xx], fn), lambda: write_cog(xx, fn, overviews=[])):
    try: f(); print("NO ERROR")
    except IOError as e: print("IOError ok", open(fn,"rb").read()==b"PRECIOUS", os.stat(fn).st_ino==st0.st_ino, os.stat(fn).st_mtime_ns==st0.st_mtime_ns, [e for e in EV if e[0]!="open" ] , len(EV))
    except Exception as e: print("OTHER", type(e).__name__, e)
write_cog(xx, fn, overwrite=True); import rasterio; print("overwritten ok:", np.array_equal(rasterio.open(fn).read(1), xx.values)); os.remove(fn)
# shape mismatch with overwrite=True: is the old file destroyed?
open(fn,"wb").write(b"PRECIOUS")
try: 
    from odc.geo.cog._rio import _write_cog
    _write_cog(np.zeros((3,3,3,3)), gb, fn, overwrite=True)
except Exception as e: print("bad input:", type(e).__name__, "file kept:", os.path.exists(fn))
os.remove(fn) if os.path.exists(fn) else None
# C20 Poly2d
rng=random.Random(1); bad=0
for it in range(2000):
    n = rng.choice([3,4,5,9,12,25])
    pts = np.array([[rng.uniform(-100,100), rng.uniform(-100,100)] for _ in range(n)])
    A = Affine(rng.uniform(-5,5), rng.uniform(-5,5), rng.uniform(-1e5,1e5), rng.uniform(-5,5), rng.uniform(-5,5), rng.uniform(-1e5,1e5))
    if abs(A.determinant)<0.1: continue
    out = np.array([A*p for p in pts])
    p = Poly2d.fit(pts, out)
    q = np.array([[rng.uniform(-100,100), rng.uniform(-100,100)] for _ in range(5)])
    got = p(q); want=np.array([A*x for x in q])
    if np.abs(got-want).max() > 1e-6*max(1,np.abs(want).max())*1e-3+1e-7: bad+=1
    B = Affine(2,0,5,0,3,-7); p2 = p.with_input_transform(B)
    if np.abs(p2(q)-p(np.array([B*x for x in q]))).max()>1e-7: bad+=1
    Af = affine_from_pts([xy_(*x) for x in pts], [xy_(*x) for x in out])
    if max(abs(a-b) for a,b in zip(Af[:6],A[:6]))>1e-6: bad+=1
print("Poly2d/affine_from_pts bad:", bad)
