import warnings; warnings.filterwarnings("ignore")
import threading, time, itertools
from odc.geo.cog import _s3
from odc.geo.cog._s3 import MultiPartUpload, DelayedS3Writer
class FakeS3:
    def __init__(s): s.log=[]; s.n=itertools.count(1); s.lk=threading.Lock()
    def create_multipart_upload(s, **kw):
        time.sleep(0.01)
        with s.lk:
            uid=f"U{next(s.n)}"; s.log.append(("create", uid)); return {"UploadId": uid}
    def upload_part(s, **kw):
        with s.lk: s.log.append(("part", kw["UploadId"], kw["PartNumber"]))
        return {"ETag": f"e{kw['PartNumber']}"}
    def complete_multipart_upload(s, **kw):
        with s.lk: s.log.append(("complete", kw["UploadId"], [p["PartNumber"] for p in kw["MultipartUpload"]["Parts"]]))
        return {"ETag":"final"}
fake = FakeS3()
MultiPartUpload.s3_client = lambda self: fake
mpu = MultiPartUpload("b","k")
w = mpu.writer({}, client=None)
errs=[]
def work(i):
    try: w(i, b"x"*10)
    except BaseException as e: errs.append((i, type(e).__name__, str(e)))
ts=[threading.Thread(target=work, args=(i,)) for i in range(1,4)]
[t.start() for t in ts]; [t.join() for t in ts]
print(fake.log); print(errs)
