import warnings; warnings.filterwarnings("ignore")
import itertools, pyproj
from shapely import geometry as sg
from odc.geo import CRS, geom
from odc.geo.geom import Geometry, BoundingBox, bbox_union, bbox_intersection, multigeom, unary_union, unary_intersection, common_crs
from odc.geo.crs import CRSMismatchError
from collections import Counter
wkt = CRS("epsg:4326").wkt
tags = {"none":(None,0), "4326":("EPSG:4326",1), "3857":("EPSG:3857",2), "4326wkt":(wkt,1), "4326int":(4326,1), "4326lower":("epsg:4326",1), "4326pp":(pyproj.CRS.from_epsg(4326),1), "32633":("epsg:32633",3)}
shapes = {"pt": sg.Point(1,1), "line": sg.LineString([(0,0),(2,2)]), "ring": sg.LinearRing([(0,0),(2,0),(2,2),(0,0)]), "poly": sg.box(0,0,2,2), "hole": sg.Polygon([(0,0),(4,0),(4,4),(0,4)], [[(1,1),(2,1),(2,2),(1,2)]]),
  "mpt": sg.MultiPoint([(0,0),(1,1)]), "mline": sg.MultiLineString([[(0,0),(1,1)],[(2,2),(3,0)]]), "mpoly": sg.MultiPolygon([sg.box(0,0,1,1), sg.box(2,2,3,3)]), "coll": sg.GeometryCollection([sg.Point(0,0), sg.box(1,1,2,2)]), "empty": sg.Polygon()}
ops = ["contains","covers","crosses","disjoint","intersects","touches","within","overlaps","difference","intersection","symmetric_difference","union","__and__","__or__","__xor__","__sub__"]
res=Counter(); ex={}
for (ta,(ca,ka)),(tb,(cb,kb)) in itertools.product(tags.items(), repeat=2):
    for (na,sa),(nb,sb) in itertools.product(shapes.items(), repeat=2):
        a = Geometry(sa, ca); b = Geometry(sb, cb)
        for op in ops+["split","multigeom","unary_union","unary_intersection","intersects_fn"]:
            def call():
                if op=="split": return list(a.split(b))
                if op=="multigeom": return multigeom([a,b])
                if op=="unary_union": return unary_union([a,b])
                if op=="unary_intersection": return unary_intersection([a,b])
                if op=="intersects_fn": return geom.intersects(a,b)
                return getattr(a,op)(b)
            try: r = call(); out="ret"
            except CRSMismatchError: out="mismatch"
            except ValueError as e: out="valueerror"
            except Exception as e: out="exc:"+type(e).__name__
            same = ka==kb
            if not same and out!="mismatch": k=f"NOT-REJECTED op={op} out={out}"; res[k]+=1; ex.setdefault(k,(ta,tb,na,nb))
            elif same and out=="mismatch": k=f"FALSE-REJECT op={op}"; res[k]+=1; ex.setdefault(k,(ta,tb,na,nb))
            elif same and out=="ret":
                if isinstance(r, Geometry) and r.crs != a.crs: res["BADTAG"]+=1
                else: res["ok-ret"]+=1
            else: res["ok-"+("rej" if not same else out)]+=1
print(dict(res)); print(ex)
