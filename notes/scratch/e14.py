import warnings; warnings.filterwarnings("ignore")
import gc, pyproj
from odc.geo import crs as C
from odc.geo.crs import CRS
print(type(C._make_crs_transform), hasattr(C._make_crs_transform, "cache"), hasattr(C._make_crs, "cache"), C._make_crs.cache is C._crs_cache)
a = CRS("EPSG:4326"); b = CRS("EPSG:3857")
tr = a.transformer_to_crs(b)
print(len(C._make_crs_transform.cache), list(C._make_crs_transform.cache.keys())[:2])
t = list(C._make_crs_transform.cache.values())[0]
print(t.source_crs.to_epsg(), t.target_crs.to_epsg())
# simulate id reuse if cache were bounded: create pyproj CRS objs, wrap, delete from _crs_cache, gc, create new
ids = {}
for code in range(32601, 32661):
    c = CRS(pyproj.CRS.from_epsg(code)); c.transformer_to_crs(a); ids[id(c._crs)] = code
    del C._crs_cache[c._crs]; del c
gc.collect()
hits = 0
for code in range(32701, 32761):
    c = CRS(pyproj.CRS.from_epsg(code))
    if id(c._crs) in ids:
        hits += 1
        t = C._make_crs_transform(c._crs, a._crs, always_xy=True)
        if hits<3: print("reused id: requested", code, "got transformer from", t.source_crs.to_epsg())
print("id reuse hits", hits)
import sys; print(sys.version)
