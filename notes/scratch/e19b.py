import warnings; warnings.filterwarnings("ignore")
import numpy as np, time, os, random, traceback, logging
logging.disable(logging.CRITICAL)
if not hasattr(np, "find_common_type"):
    np.find_common_type = lambda a, s: np.result_type(*a, *s)
import dask, dask.base, dask.core
if not hasattr(dask.base, "quote"): dask.base.quote = dask.core.quote
from affine import Affine
from odc.geo.geobox import GeoBox
from odc.geo.xr import xr_coords
from odc.geo.cog import save_cog_with_dask
import xarray as xr, dask.array as da, rasterio, tifffile
from collections import Counter
_zt = GeoBox.zoom_to
def zt(self, shape=None, **kw):
    try:
        if shape is not None and not isinstance(shape,(int,float)) and 0 in tuple(shape): return self
    except TypeError: pass
    return _zt(self, shape, **kw)
GeoBox.zoom_to = zt

rng = random.Random(3); res=Counter(); ex={}
t0=time.time()
for it in range(400):
    ny, nx = rng.choice([1,2,7,16,33,70,129]), rng.choice([1,2,5,16,40,100,150])
    layout = rng.choice(["YX","YX","SYX","YXS"])
    ns = rng.choice([1,2,3,4,5]) if layout!="YX" else 1
    dtype = rng.choice(["uint8","int8","uint16","int16","float32","float64","int32"])
    gb = GeoBox((ny,nx), Affine(10,0,1000,0,-10,5000), "epsg:3857")
    shape = {"YX":(ny,nx),"SYX":(ns,ny,nx),"YXS":(ny,nx,ns)}[layout]
    r = np.random.RandomState(it)
    data = (r.randint(1,100,size=shape)).astype(dtype)
    dims = {"YX":("y","x"),"SYX":("band","y","x"),"YXS":("y","x","band")}[layout]
    ch = {"YX":(rng.choice([1,5,16,32,64]),rng.choice([7,16,32,200])),}
    cy, cx = rng.choice([1,5,16,32,64]), rng.choice([7,16,32,200])
    chunks = {"YX":(cy,cx),"SYX":(rng.choice([1,ns]),cy,cx),"YXS":(cy,cx,ns)}[layout]
    nodata = rng.choice([None, 0, 255 if dtype=="uint8" else -99 if dtype!="uint16" else 9999])
    attrs = {} if nodata is None else {"nodata": nodata}
    xx = xr.DataArray(da.from_array(data, chunks=chunks), dims=dims, coords=xr_coords(gb), attrs=attrs)
    bs = rng.choice([[16],[32],[32,16],[(32,16),16],[20],[64,32]])
    comp = rng.choice(["deflate","zstd","lzw"])
    kw = dict(blocksize=bs, compression=comp, spill_sz=rng.choice([1<<10, 1<<13, 20<<20]), stats=rng.choice([True,False]))
    cfg = (layout, shape, dtype, chunks, nodata, kw)
    fn = f"/tmp/exp/c_{it}.tif"
    try:
        rr = save_cog_with_dask(xx, fn, **kw).compute(scheduler=rng.choice(["sync","threads"]))
    except BaseException as e:
        k = "EXC "+type(e).__name__+" "+str(e)[:60]+" @%s:%d"%(os.path.basename(traceback.extract_tb(e.__traceback__)[-1].filename), traceback.extract_tb(e.__traceback__)[-1].lineno)
        res[k]+=1; ex.setdefault(k, cfg); continue
    try:
        with rasterio.open(fn) as src:
            back = src.read()
            exp = data[None] if layout=="YX" else (data if layout=="SYX" else data.transpose(2,0,1))
            ok = back.shape[0]==exp.shape[0] and np.array_equal(back[:, :ny,:nx], exp) and str(back.dtype)==dtype
            fill = 0 if nodata is None else nodata
            okpad = (back[:, ny:, :]==fill).all() and (back[:, :, nx:]==fill).all()
            okgeo = src.transform==gb.transform and src.crs.to_epsg()==3857 and (src.nodata==nodata or (nodata is None and src.nodata is None))
        k = "ok" if (ok and okpad and okgeo) else f"BAD pix={ok} pad={okpad} geo={okgeo}"
    except BaseException as e:
        k = "READ-EXC "+type(e).__name__+" "+str(e)[:80]
    res[k]+=1; ex.setdefault(k, cfg)
    os.remove(fn)
print(time.time()-t0, dict(res))
for k,v in ex.items():
    if k!="ok": print(k, "::", v)
