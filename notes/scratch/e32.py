import warnings; warnings.filterwarnings("ignore")
import random, dask, dask.local, dask.bag as db, hashlib
from dask.order import order as real_order
SEED=[0]; TRACE=[]
def rnd_order(dsk, dependencies=None, **kw):
    keys = list(dsk); rng = random.Random(SEED[0]); rng.shuffle(keys)
    return {k:i for i,k in enumerate(keys)}
dask.local.order = rnd_order
def f(x, tag): TRACE.append(tag); return x
seen=set()
for s in range(50):
    SEED[0]=s; TRACE.clear()
    b = db.from_sequence(range(8), npartitions=8).map(lambda x: x).map_partitions(lambda p: [sum(p)])
    d = [dask.delayed(f)(i, i, pure=False) for i in range(6)]
    tot = dask.delayed(sum)(d)
    r = tot.compute(scheduler="sync")
    seen.add(tuple(TRACE))
print("distinct orders sync:", len(seen), "result", r)
seen=set()
for s in range(50):
    SEED[0]=s; TRACE.clear()
    d = [dask.delayed(f)(i, i, pure=False) for i in range(6)]
    r = dask.delayed(sum)(d).compute(scheduler="threads", num_workers=3)
    seen.add(tuple(TRACE))
print("distinct orders threads:", len(seen))
