import warnings; warnings.filterwarnings("ignore")
import numpy as np, random, pyproj, traceback
from affine import Affine
from odc.geo.geobox import GeoBox
from odc.geo.geom import BoundingBox
from odc.geo.overlap import compute_reproject_roi, compute_output_geobox
from odc.geo.roi import roi_is_empty
from collections import Counter
# (crs, lon range, lat range) windows inside area of use
WIN = [("epsg:4326",(-170,170),(-80,80)), ("epsg:3857",(-170,170),(-75,75)), ("epsg:6933",(-170,170),(-80,80)), ("epsg:3577",(115,150),(-42,-12)),
       ("epsg:32633",(12.5,17.5),(5,75)), ("epsg:32755",(144.5,149.5),(-70,-5)), ("epsg:3035",(-5,35),(38,68)), ("epsg:27700",(-5,1),(50.5,58)), ("epsg:2193",(167,178),(-46,-35))]
rng = random.Random(9)
def mk_gbox(crs, lon, lat, size_deg, n, rot=0):
    # build geobox in crs covering ~ size_deg around lon/lat with n pixels
    tr = pyproj.Transformer.from_crs("epsg:4326", crs, always_xy=True)
    x0,y0 = tr.transform(lon-size_deg/2, lat-size_deg/2); x1,y1 = tr.transform(lon+size_deg/2, lat+size_deg/2)
    bb = BoundingBox(min(x0,x1),min(y0,y1),max(x0,x1),max(y0,y1),crs)
    g = GeoBox.from_bbox(bb, shape=(n, max(1,int(n*rng.uniform(0.5,1.5)))), tight=True)
    if rot: g = g.rotate(rot)
    return g
res=Counter(); ex={}
for it in range(1500):
    (c1,lo1,la1),(c2,lo2,la2) = rng.sample(WIN,2)
    lo = (max(lo1[0],lo2[0]), min(lo1[1],lo2[1])); la=(max(la1[0],la2[0]), min(la1[1],la2[1]))
    if lo[0]>=lo[1]-2 or la[0]>=la[1]-2: res["nowin"]+=1; continue
    sz = rng.choice([0.05,0.2,1.0,2.0])
    lon = rng.uniform(lo[0]+sz, lo[1]-sz); lat = rng.uniform(la[0]+sz, la[1]-sz)
    src = mk_gbox(c1, lon, lat, sz, rng.choice([8,32,64]), rot=rng.choice([0,0,20]))
    place = rng.choice(["same","shift","far","inside"])
    dlon = {"same":0,"shift":sz*rng.uniform(0.2,0.9)*rng.choice([1,-1]),"far":sz*3,"inside":sz*0.1}[place]
    dsz = sz*(0.5 if place=="inside" else 1)
    if not (lo[0]+dsz < lon+dlon < lo[1]-dsz): res["nowin"]+=1; continue
    dst = mk_gbox(c2, lon+dlon, lat, dsz, rng.choice([8,32,64]))
    pad = rng.choice([None,0,1,3]); align=rng.choice([None,None,4,16])
    try: ri = compute_reproject_roi(src, dst, padding=pad, align=align)
    except BaseException as e:
        k="EXC "+type(e).__name__+str(e)[:50]; res[k]+=1; ex.setdefault(k,(src,dst,pad,align)); continue
    H,W = src.shape; ny,nx=dst.shape
    jj, ii = np.meshgrid(np.arange(nx)+0.5, np.arange(ny)+0.5)
    wx, wy = dst.affine*(jj.ravel(), ii.ravel())
    tr = pyproj.Transformer.from_crs(dst.crs.proj, src.crs.proj, always_xy=True)
    sx_, sy_ = tr.transform(wx, wy)
    px, py = (~src.affine)*(np.asarray(sx_), np.asarray(sy_))
    m=1e-6
    inside = (px>m)&(px<W-m)&(py>m)&(py<H-m)
    (sy0,sx0),(dy0,dx0)=ri.roi_src, ri.roi_dst
    okb = 0<=dx0.start<=dx0.stop<=nx and 0<=dy0.start<=dy0.stop<=ny and 0<=sx0.start<=sx0.stop<=W and 0<=sy0.start<=sy0.stop<=H
    ind = (jj.ravel()>dx0.start)&(jj.ravel()<dx0.stop)&(ii.ravel()>dy0.start)&(ii.ravel()<dy0.stop)
    ins = (px>=sx0.start)&(px<=sx0.stop)&(py>=sy0.start)&(py<=sy0.stop)
    okd = bool(np.all(ind[inside])); oks = bool(np.all(ins[inside]))
    # separation
    if not inside.any():
        # min distance from any dst boundary/pixel to src rect in src px
        dxs = np.maximum(np.maximum(-px, px-W),0); dys=np.maximum(np.maximum(-py, py-H),0)
        sep = np.min(np.hypot(dxs,dys))
    k = "ok" if (okb and okd and oks) else f"BAD bounds={okb} dst={okd} src={oks} place={place} pad={pad} align={align} sz={sz}"
    res[k]+=1; ex.setdefault(k,(src,dst,ri.roi_src,ri.roi_dst, int(inside.sum()), int((inside&~ind).sum()), int((inside&~ins).sum())))
print(dict(res))
for k,v in ex.items():
    if k not in ("ok","nowin"): print(k, "::", v)
