import warnings; warnings.filterwarnings("ignore")
import numpy as np, math, itertools, random
from affine import Affine
from odc.geo.geobox import GeoBox, geobox_union_conservative, geobox_intersection_conservative, pixel_translation
from odc.geo.geom import BoundingBox, box
from odc.geo.roi import roi_shape, roi_is_empty
rng = random.Random(7)
def base():
    r = rng.choice([10,30,0.25,1/3])
    A = Affine.translation(rng.uniform(-1e5,1e5), rng.uniform(-1e5,1e5))*Affine.rotation(rng.choice([0,0,0,30,77]))*Affine.scale(r*rng.choice([1,-1]), r*rng.choice([-1,1]))
    return GeoBox((10,10), A, "epsg:3857")
def rect(g, b):
    t = pixel_translation(g, b); tx, ty = round(t.x), round(t.y)
    assert abs(t.x-tx)<1e-6 and abs(t.y-ty)<1e-6, t
    return (tx, ty, tx+g.shape.x, ty+g.shape.y)
bad=[]
for it in range(5000):
    b = base()
    def mk():
        return b.translate_pix(rng.randint(-15,15), rng.randint(-15,15)).crop((rng.randint(1,12), rng.randint(1,12)))
    g1,g2,g3 = mk(),mk(),mk()
    r1,r2,r3 = rect(g1,b),rect(g2,b),rect(g3,b)
    try:
        u = g1|g2; i = g1&g2; ov = g1.overlap_roi(g2)
    except Exception as e:
        bad.append(("EXC", it, repr(e))); continue
    ru = rect(u,b)
    eu = (min(r1[0],r2[0]),min(r1[1],r2[1]),max(r1[2],r2[2]),max(r1[3],r2[3]))
    if ru!=eu: bad.append(("union", it, r1,r2,ru,eu))
    ix = (max(r1[0],r2[0]),max(r1[1],r2[1]),min(r1[2],r2[2]),min(r1[3],r2[3]))
    empty = ix[0]>=ix[2] or ix[1]>=ix[3]
    if empty:
        if not i.is_empty(): bad.append(("isect-nonempty", it, r1,r2, i.shape))
    else:
        if rect(i,b)!=ix: bad.append(("isect", it, r1,r2,rect(i,b),ix))
    # overlap roi
    m = np.zeros(g1.shape, dtype=bool)
    try:
        m[ov]=True
    except Exception as e: bad.append(("ov-exc", it, ov))
    exp = np.zeros(g1.shape, dtype=bool)
    if not empty: exp[ix[1]-r1[1]:ix[3]-r1[1], ix[0]-r1[0]:ix[2]-r1[0]] = True
    if not np.array_equal(m, exp): bad.append(("overlap_roi", it, r1, r2, ov))
    # assoc/commut
    ru2 = rect(g2|g1, b)
    if ru2!=ru: bad.append(("comm", it))
    if rect((g1|g2)|g3,b)!=rect(g1|(g2|g3),b): bad.append(("assoc", it))
    a1, a2 = (g1&g2)&g3, g1&(g2&g3)
    if a1.is_empty()!=a2.is_empty() or (not a1.is_empty() and rect(a1,b)!=rect(a2,b)): bad.append(("assoc&", it, r1,r2,r3, a1.shape, a2.shape))
    # incompatible
    g4 = g2 * Affine.translation(rng.choice([0.5,0.1,1e-3]), 0)
    for op in (lambda: g1|g4, lambda: g1&g4, lambda: g1.overlap_roi(g4)):
        try: op(); bad.append(("no-reject-subpix", it))
        except ValueError: pass
    g5 = g2.zoom_out(rng.choice([2,1.01,0.5]))
    for op in (lambda: g1|g5, lambda: g1&g5, lambda: g1.overlap_roi(g5)):
        try: op(); bad.append(("no-reject-scale", it))
        except ValueError: pass
    # snap_to
    g6 = g2 * Affine.translation(rng.uniform(-3,3), rng.uniform(-3,3))
    s = g6.snap_to(g1)
    t = pixel_translation(s, g1); 
    mv = pixel_translation(s, g6)
    if not (abs(t.x-round(t.x))<1e-6 and abs(t.y-round(t.y))<1e-6 and abs(mv.x)<=0.5+1e-6 and abs(mv.y)<=0.5+1e-6): bad.append(("snap_to", it, t, mv))
    # enclosing
    bb = g2.boundingbox
    q = BoundingBox(bb.left+rng.uniform(-50,50), bb.bottom+rng.uniform(-50,50), bb.right+rng.uniform(0,80), bb.top+rng.uniform(0,80), "epsg:3857")
    e = g1.enclosing(q)
    t = pixel_translation(e, g1)
    pb = g1.project(q.polygon).boundingbox   # pixel bbox in g1
    ex = (t.x, t.y, t.x+e.shape.x, t.y+e.shape.y)
    if not (abs(t.x-round(t.x))<1e-6 and abs(t.y-round(t.y))<1e-6 and ex[0]<=pb.left+1e-6 and ex[1]<=pb.bottom+1e-6 and ex[2]>=pb.right-1e-6 and ex[3]>=pb.top-1e-6 and pb.left-ex[0]<1+1e-6 and ex[2]-pb.right<1+1e-6 and pb.bottom-ex[1]<1+1e-6 and ex[3]-pb.top<1+1e-6): bad.append(("enclosing", it, ex, pb))
from collections import Counter
print("bad", len(bad), Counter(b[0] for b in bad)); [print(b) for b in bad[:10]]
