import warnings; warnings.filterwarnings("ignore")
import numpy as np
from affine import Affine
from odc.geo.geobox import GeoBox
from odc.geo.xr import wrap_xr
def show(gb):
    xx = wrap_xr(np.zeros(gb.shape,"int16"), gb)
    g = xx.odc.geobox
    print(gb.shape, tuple(round(v,6) for v in gb.affine[:6]), "->", None if g is None else tuple(round(v,6) for v in g.affine[:6]), "eq", g==gb)
for A in [Affine(10,0,100,0,-10,500), Affine(-10,0,100,0,-10,500), Affine(10,0,100,0,10,500), Affine(0.25,0,100,0,-0.625,500)]:
    for shape in [(1,5),(5,1),(1,1)]:
        show(GeoBox(shape, A, "epsg:3857"))
R = Affine.translation(100,500)*Affine.rotation(30)*Affine.scale(10,-10)
for shape in [(1,5),(5,1),(1,1),(4,5)]:
    show(GeoBox(shape, R, "epsg:3857"))
