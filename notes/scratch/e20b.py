import warnings; warnings.filterwarnings("ignore")
import numpy as np, random, pickle, traceback
from affine import Affine
from odc.geo.geobox import GeoBox
from odc.geo.xr import wrap_xr, xr_zeros
from collections import Counter
rng = random.Random(5); res=Counter(); ex={}
def rnd_gbox():
    ny, nx = rng.choice([1,1,2,3,8,17]), rng.choice([1,2,5,9,20])
    r = rng.choice([10, 0.25, 30])
    fam = rng.choice(["nu","mx","my","ns","rot","shear"])
    A = Affine.translation(rng.uniform(-1e5,1e5), rng.uniform(-1e5,1e5))
    if fam=="nu": A = A*Affine.scale(r,-r)
    elif fam=="mx": A = A*Affine.scale(-r,-r)
    elif fam=="my": A = A*Affine.scale(r,r)
    elif fam=="ns": A = A*Affine.scale(r,-2.5*r)
    elif fam=="rot": A = A*Affine.rotation(rng.uniform(1,359))*Affine.scale(r,-r)
    else: A = A*Affine.shear(20,0)*Affine.scale(r,-r)
    crs = rng.choice(["epsg:3857","epsg:4326","epsg:32633", None]) 
    if False: A = Affine.translation(rng.uniform(-100,100), rng.uniform(-60,60))*Affine.scale(0.01,-0.01) if fam in ("nu",) else Affine.translation(10,10)*Affine.rotation(30)*Affine.scale(0.01,-0.01)
    return GeoBox((ny,nx), A, crs), fam
for it in range(3000):
    gb, fam = rnd_gbox()
    ny, nx = gb.shape
    rank = rng.choice(["yx","tyx","yxb"])
    shape = {"yx":(ny,nx),"tyx":(2,ny,nx),"yxb":(ny,nx,3)}[rank]
    try:
        xx = wrap_xr(np.zeros(shape, "int16"), gb, time=["2020-01-01","2020-01-02"] if rank=="tyx" else None)
        g0 = xx.odc.geobox
    except BaseException as e:
        k=f"WRAP-EXC {type(e).__name__} {str(e)[:50]}"; res[k]+=1; ex.setdefault(k,(gb,fam,rank)); continue
    if gb.crs is None and 1 in gb.shape: res["ood"]+=1; continue
    def approx(a,b):
        if a is None or a.shape!=b.shape or a.crs!=b.crs: return False
        pts = [(0,0),(b.shape.x,0),(0,b.shape.y),(b.shape.x,b.shape.y)]
        px = max(abs(b.affine.a)+abs(b.affine.b), abs(b.affine.d)+abs(b.affine.e))
        return all(abs(u-v)<=1e-6*px for p in pts for u,v in zip(a.affine*p, b.affine*p))
    if not approx(g0, gb):
        k = f"RT-NEQ fam={fam} crs={'none' if gb.crs is None else 'crs'} 1px={1 in gb.shape}"; res[k]+=1; ex.setdefault(k,(gb,g0,rank)); continue
    iy = np.arange(ny); ix = np.arange(nx)
    ydim, xdim = xx.odc.spatial_dims
    hist=[]
    bad=None
    for step in range(rng.randint(1,5)):
        op = rng.choice(["slice","slice","arith","astype","pickle"])
        if op=="slice":
            def rs(n):
                a = rng.randint(0,n-1); b = rng.randint(a+1, n); st = rng.choice([1,1,2,3,-1,-2])
                return slice(a,b,st) if st>0 else slice(b-1, a-1 if a>0 else None, st)
            sy, sx = rs(len(iy)), rs(len(ix))
            xx = xx.isel({ydim:sy, xdim:sx}); iy, ix = iy[sy], ix[sx]
        elif op=="arith": xx = xx*2+1
        elif op=="astype": xx = xx.astype("float32")
        else: xx = pickle.loads(pickle.dumps(xx))
        hist.append(op if op!="slice" else (sy,sx))
        try:
            g = xx.odc.geobox
        except BaseException as e:
            bad = f"GBOX-EXC {type(e).__name__} {str(e)[:40]}"; break
        if g is None and gb.crs is None and 1 in (len(iy),len(ix)): bad=None; break
        if g is None: bad = f"GBOX-NONE fam={fam} crs={gb.crs is not None} shape1={1 in (len(iy),len(ix))}"; break
        if g.shape != (len(iy), len(ix)): bad="SHAPE"; break
        if g.crs != gb.crs: bad="CRS"; break
        # positions
        jj, ii = np.meshgrid(np.arange(len(ix))+0.5, np.arange(len(iy))+0.5)
        wx, wy = g.pix2wld(jj.ravel(), ii.ravel())
        ox, oy = np.meshgrid(ix+0.5, iy+0.5)
        ex_, ey_ = gb.pix2wld(ox.ravel(), oy.ravel())
        tol = 1e-6*max(abs(gb.affine.a)+abs(gb.affine.b), abs(gb.affine.d)+abs(gb.affine.e)) * (1 if fam not in ("rot","shear") else 100)
        err = max(np.abs(np.asarray(wx)-ex_).max(), np.abs(np.asarray(wy)-ey_).max())
        if err > tol: bad=f"POS fam={fam} 1px={1 in (len(iy),len(ix))} err/pix={err/abs(gb.affine.a if gb.affine.a else gb.affine.b):.3g}"; break
    if bad: res[bad.split(' err')[0]]+=1; ex.setdefault(bad.split(' err')[0],(gb,hist,bad))
    else: res["ok"]+=1
print(dict(res))
for k,v in ex.items(): print(k,"::",v)
