import warnings; warnings.filterwarnings("ignore")
import threading, time, itertools
from odc.geo.cog import _s3
from odc.geo.cog._s3 import MultiPartUpload, DelayedS3Writer
LOG=[]; N=itertools.count(1); LK=threading.Lock()
class FakeS3:
    def create_multipart_upload(s, **kw):
        time.sleep(0.01)
        with LK:
            uid=f"U{next(N)}"; LOG.append(("create", uid)); return {"UploadId": uid}
    def upload_part(s, **kw):
        with LK: LOG.append(("part", kw["UploadId"], kw["PartNumber"]))
        return {"ETag": f"e{kw['PartNumber']}"}
    def complete_multipart_upload(s, **kw):
        with LK: LOG.append(("complete", kw["UploadId"], [p["PartNumber"] for p in kw["MultipartUpload"]["Parts"]]))
        return {"ETag":"final"}
fake = FakeS3()
MultiPartUpload.s3_client = lambda self: fake
from distributed import Client
t0=time.time()
client = Client(processes=False, n_workers=1, threads_per_worker=4, dashboard_address=None)
print("cluster up", time.time()-t0)
mpu = MultiPartUpload("b","k")
w = mpu.writer({}, client=client)
def work(i, w):
    return w(i, b"x"*10)
futs = [client.submit(work, i, w, pure=False) for i in range(1,6)]
res = client.gather(futs, errors="skip")
print(res)
for f in futs:
    if f.status=="error": print("ERR", f.exception())
print(LOG)
client.close()
print("total", time.time()-t0)
