import warnings; warnings.filterwarnings("ignore")
import numpy as np, random, pyproj, traceback
from affine import Affine
from shapely import geometry as sg, ops
from odc.geo.geobox import GeoBox, GeoboxTiles
from odc.geo.geom import BoundingBox, Geometry
from odc.geo import geom
from collections import Counter
exec(open("e23.py").read().split("res=Counter()")[0].split("rng = random.Random(9)")[1].replace("rng.", "rng.")) if False else None
WIN = [("epsg:4326",(-170,170),(-80,80)), ("epsg:3857",(-170,170),(-75,75)), ("epsg:6933",(-170,170),(-80,80)), ("epsg:3577",(115,150),(-42,-12)),
       ("epsg:32633",(12.5,17.5),(5,75)), ("epsg:32755",(144.5,149.5),(-70,-5)), ("epsg:3035",(-5,35),(38,68))]
rng = random.Random(10)
def mk_gbox(crs, lon, lat, size_deg, n, rot=0):
    tr = pyproj.Transformer.from_crs("epsg:4326", crs, always_xy=True)
    x0,y0 = tr.transform(lon-size_deg/2, lat-size_deg/2); x1,y1 = tr.transform(lon+size_deg/2, lat+size_deg/2)
    bb = BoundingBox(min(x0,x1),min(y0,y1),max(x0,x1),max(y0,y1),crs)
    g = GeoBox.from_bbox(bb, shape=(n, max(1,int(n*rng.uniform(0.5,1.5)))), tight=True)
    if rot: g = g.rotate(rot)
    return g
def tile_poly_in(g, crs_to):
    # densified footprint of geobox g projected into crs_to (pyproj direct)
    ny,nx = g.shape
    t = np.linspace(0,1,33)
    pts = [(x*nx,0) for x in t]+[(nx,y*ny) for y in t]+[((1-x)*nx,ny) for x in t]+[(0,(1-y)*ny) for y in t]
    wx, wy = zip(*[g.affine*p for p in pts])
    if g.crs != crs_to:
        tr = pyproj.Transformer.from_crs(g.crs.proj, crs_to.proj, always_xy=True)
        wx, wy = tr.transform(np.asarray(wx), np.asarray(wy))
    return sg.Polygon(list(zip(wx,wy)))
res=Counter(); ex={}
for it in range(400):
    same = rng.random()<0.5
    (c1,lo1,la1),(c2,lo2,la2) = rng.sample(WIN,2)
    if same: c2,lo2,la2 = c1,lo1,la1
    lo = (max(lo1[0],lo2[0]), min(lo1[1],lo2[1])); la=(max(la1[0],la2[0]), min(la1[1],la2[1]))
    if lo[0]>=lo[1]-4 or la[0]>=la[1]-4: res["nowin"]+=1; continue
    sz = rng.choice([0.2,1.0])
    lon = rng.uniform(lo[0]+2*sz, lo[1]-2*sz); lat = rng.uniform(la[0]+sz, la[1]-sz)
    src = mk_gbox(c1, lon, lat, sz, rng.choice([16,40]), rot=rng.choice([0,0,15]))
    place = rng.choice(["same","shift","far","touch"])
    dlon = {"same":0,"shift":sz*rng.uniform(0.2,0.9)*rng.choice([1,-1]),"far":sz*1.5, "touch":sz}[place]
    dst = mk_gbox(c2, lon+dlon, lat, sz, rng.choice([16,40]), rot=rng.choice([0,0,0,33]) if same else 0)
    if same and rng.random()<0.5:  # linear-related
        dst = src.translate_pix(rng.choice([0,3,-7,100, 0.3]), rng.choice([0,5,0.5])).zoom_out(rng.choice([1,2,1.5])); place="lin"
    st = GeoboxTiles(src, (rng.choice([5,8,16]), rng.choice([7,16])))
    dt = GeoboxTiles(dst, (rng.choice([4,9,16]), rng.choice([6,16])))
    try: deps = dt.grid_intersect(st)
    except BaseException as e:
        k="EXC "+type(e).__name__+" "+str(e)[:40]+f" same={same} place={place}"; res[k]+=1; ex.setdefault(k,(src,dst)); continue
    spoly = {idx: tile_poly_in(st[idx], dst.crs) for idx in np.ndindex(st.shape.shape)}
    miss=[]; nedge=0
    for didx in np.ndindex(dt.shape.shape):
        dp = tile_poly_in(dt[didx], dst.crs)
        pxarea = abs(dst.affine.a*dst.affine.e - dst.affine.b*dst.affine.d)
        for sidx, sp in spoly.items():
            a = dp.intersection(sp).area
            thr = max(0.02*min(dp.area, sp.area), 4*pxarea) if not same else 1e-6*min(dp.area, sp.area)
            if a > thr:
                nedge+=1
                if sidx not in deps.get(didx, []): miss.append((didx, sidx, a/min(dp.area,sp.area)))
    anyov = nedge>0
    nlisted = sum(len(v) for v in deps.values())
    k = ("ok" if not miss else f"MISS same={same} place={place}") + ("" if anyov or nlisted==0 else f" +NONEMPTY-DISJOINT same={same} place={place}")
    res[k]+=1; ex.setdefault(k,(src,dst,st,dt,miss[:3]))
print(dict(res))
for k,v in ex.items():
    if not k.startswith(("ok","nowin")) or "NONEMPTY" in k: print(k, "::", v)
