import warnings; warnings.filterwarnings("ignore")
import numpy as np, math, itertools
from affine import Affine
from odc.geo.geobox import GeoBox
from odc.geo.roi import roi_normalise, roi_shape, roi_is_empty
from odc.geo.overlap import compute_axis_overlap
gb = GeoBox((30,40), Affine(10,0,0,0,-10,0), "epsg:3857").rotate(30)
print("F14 bbox:", gb.boundingbox, "\n extent bbox:", gb.extent.boundingbox)
X = np.arange(7)
bad=[]
for start in [None]+list(range(-10,11)):
    for stop in [None]+list(range(-10,11)):
        s = slice(start, stop)
        ns = roi_normalise(s, 7)
        if not np.array_equal(X[s], X[ns]): bad.append((s, ns))
print("F15 bad normalise:", len(bad), bad[:6])
# zoom_to(int)
cnt=0; ex=[]
for N in range(1,400):
    for n in range(1, 400):
        g = GeoBox((N, max(1,N//2)), Affine(1,0,0,0,-1,0), None)
        sh, _ = g.compute_zoom_to(n)
        if max(sh) != n:
            cnt+=1
            if len(ex)<5: ex.append((N,n,tuple(sh)))
print("zoom_to(int) longest side mismatches:", cnt, ex)
# compute_axis_overlap brute force: x_s = s*x_d + t ; integer scale & integer t (paste scenario)
bad=[]
for Ns, Nd in itertools.product(range(1,9), range(1,9)):
    for s in [1,2,3,-1,-2]:
        for t in range(-20, 30):
            src, dst = compute_axis_overlap(Ns, Nd, s, t)
            # model: dst pixel d covers source [s*d+t, s*(d+1)+t) (or reversed); fully valid dst pixels: those whose source interval within [0,Ns]
            valid = [d for d in range(Nd) if 0 <= min(s*d+t, s*(d+1)+t) and max(s*d+t, s*(d+1)+t) <= Ns]
            part = [d for d in range(Nd) if max(s*d+t, s*(d+1)+t) > 0 and min(s*d+t, s*(d+1)+t) < Ns]
            dd = list(range(dst.start, dst.stop))
            if not (set(valid) <= set(dd) <= set(part)) or dst.start<0 or dst.stop>Nd or src.start<0 or src.stop>Ns:
                bad.append((Ns,Nd,s,t,src,dst,valid,part))
            elif dd:
                # src slice must equal image of dst slice intersect [0,Ns]
                lo = min(s*dd[0]+t, s*(dd[-1]+1)+t); hi = max(s*dd[0]+t, s*(dd[-1]+1)+t)
                if (src.start, src.stop) != (max(lo,0), min(hi,Ns)): bad.append(("src", Ns,Nd,s,t,src,dst))
            else:
                if src.stop-src.start>0: bad.append(("nonempty-src", Ns,Nd,s,t,src,dst))
print("axis overlap bad:", len(bad), bad[:5])
