import warnings; warnings.filterwarnings("ignore")
import numpy as np, random, pyproj, traceback
from affine import Affine
from odc.geo.geobox import GeoBox
from odc.geo.geom import BoundingBox
from odc.geo.overlap import compute_output_geobox
from odc.geo import CRS
from collections import Counter
WIN = [("epsg:4326",(-170,170),(-80,80)), ("epsg:3857",(-170,170),(-75,75)), ("epsg:6933",(-170,170),(-80,80)), ("epsg:3577",(115,150),(-42,-12)),
       ("epsg:32633",(12.5,17.5),(5,75)), ("epsg:32755",(144.5,149.5),(-70,-5)), ("epsg:3035",(-5,35),(38,68))]
rng = random.Random(12)
def mk_gbox(crs, lon, lat, size_deg, n, rot=0):
    tr = pyproj.Transformer.from_crs("epsg:4326", crs, always_xy=True)
    x0,y0 = tr.transform(lon-size_deg/2, lat-size_deg/2); x1,y1 = tr.transform(lon+size_deg/2, lat+size_deg/2)
    bb = BoundingBox(min(x0,x1),min(y0,y1),max(x0,x1),max(y0,y1),crs)
    g = GeoBox.from_bbox(bb, shape=(n, max(1,int(n*rng.uniform(0.5,1.5)))), tight=True)
    if rot: g = g.rotate(rot)
    return g
res=Counter(); ex={}
for it in range(1500):
    (c1,lo1,la1) = rng.choice(WIN)
    tgt = rng.choice([w[0] for w in WIN]+["utm","utm-n","utm-s"])
    if tgt.startswith("utm"): lo2,la2=(-170,170),(-75,75)
    else: _,lo2,la2 = [w for w in WIN if w[0]==tgt][0]
    lo = (max(lo1[0],lo2[0]), min(lo1[1],lo2[1])); la=(max(la1[0],la2[0]), min(la1[1],la2[1]))
    if lo[0]>=lo[1]-4 or la[0]>=la[1]-4: res["nowin"]+=1; continue
    sz = rng.choice([0.05,0.5,2.0])
    lon = rng.uniform(lo[0]+sz, lo[1]-sz); lat = rng.uniform(la[0]+sz, la[1]-sz)
    src = mk_gbox(c1, lon, lat, sz, rng.choice([8,32,64]), rot=rng.choice([0,0,25]))
    mode = rng.choice(["auto","fit","same","res","shape","shapeint"])
    kw = {}
    tol = rng.choice([0.01, 0.05]); kw["tol"]=tol
    anchor = rng.choice(["default","center","edge",0.25,"floating"]); kw["anchor"]=anchor
    kw["tight"] = rng.random()<0.2
    if mode in ("auto","fit","same"): kw["resolution"]=mode
    elif mode=="res": pass
    elif mode=="shape": kw["shape"]=(rng.randint(3,40), rng.randint(3,40))
    else: kw["shape"]=rng.randint(3,40)
    try:
        if mode=="res":
            g0 = compute_output_geobox(src, tgt)
            kw["resolution"] = abs(g0.resolution.x)*rng.choice([0.7,1,2.5])
        out = compute_output_geobox(src, tgt, **kw)
    except BaseException as e:
        k="EXC "+type(e).__name__+" "+str(e)[:50]+f" mode={mode} tgt={tgt}"; res[k]+=1; ex.setdefault(k,(src,kw)); continue
    if tgt.startswith("utm"):
        z = out.crs.proj.utm_zone
        if z is None or (tgt=="utm-n" and not z.endswith("N")) or (tgt=="utm-s" and not z.endswith("S")): res["UTM-BAD"]+=1; ex.setdefault("UTM-BAD",(src,tgt,out.crs)); continue
    else:
        if out.crs != CRS(tgt): res["CRS-BAD"]+=1; continue
    if CRS(tgt) == src.crs if not tgt.startswith("utm") else False:
        if mode in ("auto","same") and anchor=="default" and "shape" not in kw:
            res["same-crs-identity" if out is src else "SAME-NOT-IDENTITY"]+=1; continue
    ny,nx = src.shape
    jj, ii = np.meshgrid(np.arange(nx+1), np.arange(ny+1))
    wx, wy = src.affine*(jj.ravel().astype(float), ii.ravel().astype(float))
    tr = pyproj.Transformer.from_crs(src.crs.proj, out.crs.proj, always_xy=True)
    X,Y = tr.transform(np.asarray(wx), np.asarray(wy))
    bb = out.boundingbox; rx, ry = abs(out.resolution.x), abs(out.resolution.y)
    cover = X.min() >= bb.left - tol*rx -1e-9*abs(bb.left) and X.max() <= bb.right + tol*rx+1e-9*abs(bb.right) and Y.min() >= bb.bottom - tol*ry-1e-9*abs(bb.bottom) and Y.max() <= bb.top + tol*ry+1e-9*abs(bb.top)
    aligned = out.affine.b==0 and out.affine.d==0
    k = "ok" if cover and aligned else f"BAD cover={cover} aligned={aligned} mode={mode} rot={src.affine.b!=0} sz={sz}"
    if "shape" in kw:
        want = kw["shape"]
        if isinstance(want,int):
            if max(out.shape)!=want: k=f"SHAPEINT {want} got {tuple(out.shape)}"[:12]
        elif tuple(out.shape)!=want: k="SHAPE"
    res[k]+=1; ex.setdefault(k,(src,tgt,kw,out))
print(dict(res))
for k,v in ex.items():
    if not k.startswith(("ok","nowin","same-crs")): print(k, "::", v)
