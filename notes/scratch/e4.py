import warnings; warnings.filterwarnings("ignore")
from odc.geo.cog._mpu import MPUChunk, _mpu_append_chunks_op, _merge_and_spill_op, _finalizer_dask_op, mpu_write
class W:
    def __init__(s, min_write_sz=10, max_write_sz=1<<30, min_part=1, max_part=100):
        s.min_write_sz=min_write_sz; s.max_write_sz=max_write_sz; s.min_part=min_part; s.max_part=max_part
        s.calls=[]; s.final=None
    def __call__(s, part, data):
        s.calls.append((part, bytes(data))); return {"PartNumber":part, "n":len(data)}
    def finalise(s, parts):
        s.final=list(parts); return "done"
    def __dask_tokenize__(s): return ("W", id(s))

def run(partitions, spill_sz, wpc=1, w=None, hdr=None):
    w = w or W()
    n = len(partitions)
    mpus = list(MPUChunk.gen_bunch(w.min_part+1, n, writes_per_chunk=wpc, mark_final=True, lhs_keep=w.min_write_sz))
    outs = [ _mpu_append_chunks_op([m], [(d, i) for i, d in enumerate(p)], write=w, spill_sz=spill_sz)[0] for m,p in zip(mpus, partitions)]
    root = outs[0]
    for r in outs[1:]:
        root = _merge_and_spill_op(root, r, write=w, spill_sz=spill_sz)
    mk_header = (lambda obs, **kw: hdr) if hdr else None
    rr = _finalizer_dask_op(root, write=w, mk_header=mk_header)
    got = b"".join(d for _, d in sorted(w.calls))
    want = (hdr or b"") + b"".join(b"".join(p) for p in partitions)
    return got == want, [ (p,len(d)) for p,d in w.calls], w.final

for parts in [ [[b"a"*30],[b"b"*30, b"c"*30]],  [[b"a"*30],[b"b"*30],[b"c"*30]], [[b"a"*30, b"b"*30]], [[b"a"*5],[b"b"*30, b"c"*3]] ]:
    for hdr in [None, b"H"*7]:
        try:
            print([ [len(x) for x in p] for p in parts], "hdr" if hdr else "nohdr", run(parts, spill_sz=10, hdr=hdr))
        except Exception as e:
            import traceback
            print([ [len(x) for x in p] for p in parts], "hdr" if hdr else "nohdr", "EXC", type(e).__name__, e, traceback.extract_tb(e.__traceback__)[-1].lineno)
