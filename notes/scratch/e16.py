import warnings; warnings.filterwarnings("ignore")
import numpy as np, time, io, os
from affine import Affine
from odc.geo.geobox import GeoBox
from odc.geo.xr import wrap_xr
from odc.geo.cog import to_cog, write_cog
import rasterio
for dtype in ["int8","uint8","int16","uint16","int32","uint32","float32","float64"]:
  for shape in [(33,47),(3,33,47),(33,47,3),(600,520)]:
    yx = shape if len(shape)==2 else (shape[1:] if shape[0]==3 else shape[:2])
    gb = GeoBox(yx, Affine(10,0,1000,0,-10,5000), "epsg:32633")
    data = (np.random.RandomState(0).randint(0,100,size=shape)).astype(dtype)
    xx = wrap_xr(data, gb, nodata=None) if len(shape)==2 else None
    import xarray as xr
    from odc.geo.xr import xr_coords
    if xx is None:
        dims = ("band","y","x") if shape[0]==3 else ("y","x","band")
        xx = xr.DataArray(data, dims=dims, coords=xr_coords(gb))
    t0=time.time()
    try:
        bb = to_cog(xx, blocksize=32)
    except Exception as e:
        print(dtype, shape, "EXC", repr(e)[:100]); continue
    dt=time.time()-t0
    with rasterio.MemoryFile(bb) as mem, mem.open() as src:
        back = src.read()
        exp = data[None] if data.ndim==2 else (data if shape[0]==3 else data.transpose(2,0,1))
        print(dtype, shape, f"{dt*1000:.0f}ms", "ok" if np.array_equal(back, exp) and back.dtype==exp.dtype else "MISMATCH", src.overviews(1), src.block_shapes[0], src.is_tiled, src.transform==gb.transform, src.crs.to_epsg())
