import warnings; warnings.filterwarnings("ignore")
import numpy as np, math, itertools, random
from affine import Affine
from odc.geo.geobox import GeoBox
from odc.geo.overlap import compute_reproject_roi
from odc.geo.roi import roi_shape, roi_is_empty
from odc.geo.warp import rio_reproject
rng = random.Random(3)
def rnd_gbox(crs="epsg:3857"):
    r = rng.choice([10, 30, 2.5])
    sy = rng.choice([-1,-1,1]); sx = rng.choice([1,1,-1])
    nx, ny = rng.randint(1,40), rng.randint(1,40)
    tx, ty = rng.randint(-50,50)*r, rng.randint(-50,50)*r
    return GeoBox((ny,nx), Affine(sx*r,0,tx,0,sy*r,ty), crs)
bad=[]; npaste=0; N=0
stats = {}
for it in range(6000):
    src = rnd_gbox()
    kind = rng.choice(["shift","subpix","scale","fscale","mirror","rot","far"])
    A = src.affine
    nx, ny = rng.randint(1,40), rng.randint(1,40)
    tx, ty = rng.randint(-30,45), rng.randint(-30,45)
    if kind=="shift": P = Affine.translation(tx,ty)
    elif kind=="subpix": P = Affine.translation(tx+rng.choice([0.01,-0.03,0.04,0.049,0.06,0.2,0.5,-0.3]), ty+rng.choice([0,0.02,-0.045,0.3]))
    elif kind=="scale": s = rng.choice([2,3,4]); P = Affine.translation(tx,ty)*Affine.scale(s,s)
    elif kind=="fscale": P = Affine.translation(tx+rng.random(),ty)*Affine.scale(rng.choice([0.5,1.5,2.2,0.3,1.0005]),rng.choice([0.5,1.5,2.2,1]))
    elif kind=="mirror": P = Affine.translation(tx,ty)*Affine.scale(rng.choice([1,-1]),rng.choice([1,-1]))
    elif kind=="rot": P = Affine.translation(tx,ty)*Affine.rotation(rng.choice([5,30,90,180,0.01]))
    else: P = Affine.translation(rng.choice([-200,200]), ty)
    dst = GeoBox((ny,nx), A*P, src.crs)  # dst pixel -> src pixel is P
    try:
        ri = compute_reproject_roi(src, dst)
    except Exception as e:
        bad.append(("EXC", kind, src, dst, repr(e))); continue
    N+=1
    stats[(kind, ri.paste_ok)] = stats.get((kind, ri.paste_ok),0)+1
    # brute force
    jj, ii = np.meshgrid(np.arange(nx)+0.5, np.arange(ny)+0.5)
    sxs, sys_ = (~src.affine*dst.affine) * (jj.ravel(), ii.ravel())
    H,W = src.shape
    m = 1e-6
    inside = (sxs>m)&(sxs<W-m)&(sys_>m)&(sys_<H-m)
    (sy0,sx0),(dy0,dx0) = ri.roi_src, ri.roi_dst
    rs = ri.read_shrink
    okb = 0<=dx0.start<=dx0.stop<=nx and 0<=dy0.start<=dy0.stop<=ny and 0<=sx0.start and 0<=sy0.start and sx0.stop<= -(-W//rs)*rs and sy0.stop <= -(-H//rs)*rs
    ind = (jj.ravel()>dx0.start)&(jj.ravel()<dx0.stop)&(ii.ravel()>dy0.start)&(ii.ravel()<dy0.stop)
    ins = (sxs>=sx0.start)&(sxs<=sx0.stop)&(sys_>=sy0.start)&(sys_<=sy0.stop)
    okc = bool(np.all(ind[inside])) and bool(np.all(ins[inside]))
    if not (okb and okc): bad.append((kind, src, dst, ri.roi_src, ri.roi_dst, ri.paste_ok, rs, okb, okc)); continue
    if ri.paste_ok and rs==1 and not roi_is_empty(ri.roi_dst):
        npaste+=1
        for dtype in ["uint16","int8","bool","float32"]:
            if dtype=="bool": data = (np.random.RandomState(it).rand(H,W)>0.5)
            else: data = (np.arange(H*W).reshape(H,W)%120+1).astype(dtype)
            nod = 0 if dtype!="bool" else None
            out = np.zeros((ny,nx), dtype=dtype)
            rio_reproject(data, out, src, dst, "nearest", src_nodata=None, dst_nodata=0 if dtype!="bool" else None)
            exp = np.zeros((ny,nx), dtype=dtype)
            sub = data[ri.roi_src]
            P_ = ~src.affine*dst.affine
            if P_.a<0: sub = sub[:, ::-1]
            if P_.e<0: sub = sub[::-1, :]
            exp[ri.roi_dst] = sub
            if not np.array_equal(out, exp):
                bad.append(("paste!=warp", kind, dtype, src, dst, ri.roi_src, ri.roi_dst, int((out!=exp).sum()))); break
print("N", N, "paste compared", npaste, "bad", len(bad)); print(stats)
for b in bad[:10]: print(b)
