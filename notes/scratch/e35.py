import warnings; warnings.filterwarnings("ignore")
import numpy as np, random, pyproj
from affine import Affine
from odc.geo.geobox import GeoBox
from odc.geo.geom import BoundingBox
from odc.geo.xr import wrap_xr, xr_reproject
import xarray as xr, dask.array as da
from collections import Counter
rng = random.Random(6); res=Counter(); ex={}
def mk(crs, lon, lat, sz, n):
    tr = pyproj.Transformer.from_crs("epsg:4326", crs, always_xy=True)
    x0,y0 = tr.transform(lon-sz/2, lat-sz/2); x1,y1 = tr.transform(lon+sz/2, lat+sz/2)
    return GeoBox.from_bbox(BoundingBox(min(x0,x1),min(y0,y1),max(x0,x1),max(y0,y1),crs), shape=(n, n+3), tight=True)
for it in range(300):
    c1, c2 = rng.sample(["epsg:4326","epsg:3857","epsg:32633","epsg:3035","epsg:6933"],2)
    lon, lat = rng.uniform(13,17), rng.uniform(40,60); sz=rng.choice([0.2,1.0])
    src = mk(c1, lon, lat, sz, rng.choice([20,33]))
    place = rng.choice(["over","shift","far"])
    dst = mk(c2, lon+{"over":0,"shift":sz*0.6,"far":sz*3}[place], lat, sz, rng.choice([16,30]))
    dtype = rng.choice(["float32","int16","uint8"]); nodata = rng.choice([None, 200 if dtype=="uint8" else -5])
    tax = rng.random()<0.5
    shape = ((2,)+tuple(src.shape)) if tax else tuple(src.shape)
    data = (np.random.RandomState(it).randint(1,100,size=shape)).astype(dtype)
    t = ["2020-01-01","2020-01-02"] if tax else None
    xx = wrap_xr(data, src, nodata=nodata, time=t)
    chunks = ((1,) if tax else ())+(rng.choice([5,11,64]), rng.choice([7,64]))
    xd = wrap_xr(da.from_array(data, chunks=chunks), src, nodata=nodata, time=t)
    res_ = rng.choice(["nearest","bilinear"])
    try:
        a = xr_reproject(xx, dst, resampling=res_)
        b = xr_reproject(xd, dst, resampling=res_, chunks=(rng.choice([4,9,64]), rng.choice([6,64]))).compute(scheduler=rng.choice(["sync","threads"]))
    except Exception as e:
        k=f"EXC {type(e).__name__} {str(e)[:60]} tax={tax} place={place}"; res[k]+=1; ex.setdefault(k,(src,dst)); continue
    if a.odc.geobox != dst or b.odc.geobox != dst: res["GBOX"]+=1; continue
    fill = nodata if nodata is not None else (np.nan if dtype=="float32" else 0)
    # far-outside mask via independent transform
    ny,nx = dst.shape; jj,ii = np.meshgrid(np.arange(nx)+.5, np.arange(ny)+.5)
    wx,wy = dst.affine*(jj.ravel(),ii.ravel()); tr = pyproj.Transformer.from_crs(dst.crs.proj, src.crs.proj, always_xy=True)
    sx,sy = tr.transform(wx,wy); px,py = (~src.affine)*(np.asarray(sx),np.asarray(sy))
    H,W = src.shape; out = ((px<-2)|(px>W+2)|(py<-2)|(py>H+2)).reshape(ny,nx); inn = ((px>2)&(px<W-2)&(py>2)&(py<H-2)).reshape(ny,nx)
    def isfill(v): return np.isnan(v) if (isinstance(fill,float) and np.isnan(fill)) else (v==fill)
    av, bv = a.values, b.values
    okfill = isfill(av[...,out]).all() and isfill(bv[...,out]).all()
    okin = (~isfill(bv[...,inn])).all() if (nodata is None or True) else True
    same = np.array_equal(av,bv,equal_nan=True)
    k = f"ok same={same}" if okfill and okin else f"BAD fill={okfill} in={okin} place={place} dtype={dtype} nodata={nodata} res={res_}"
    res[k]+=1; ex.setdefault(k,(src,dst,chunks))
print(dict(res)); [print(k,v) for k,v in ex.items() if not k.startswith("ok")]
# Dataset / DataArray reprojection attrs
xx = wrap_xr(np.zeros(src.shape,"int16"), src, nodata=-1); xx.attrs["crs"]="epsg:4326"; xx.attrs["crs_wkt"]="x"; xx.attrs["grid_mapping"]="spatial_ref"; xx.attrs["units"]="m"
ds = xr.Dataset({"a":xx, "b":xx+1, "c":xr.DataArray([1,2,3])})
for how in (dst, "epsg:3857", "utm"):
    o = ds.odc.reproject(how); oa = xx.odc.reproject(how)
    print(type(how).__name__, "ds crs", o.odc.geobox.crs, "da crs", oa.odc.geobox.crs, "eq", o.a.odc.geobox==o.odc.geobox==o.b.odc.geobox, "attrs", sorted(oa.attrs), sorted(o.a.attrs), "c kept", bool((o.c==ds.c).all()))
